"""G-stmt: statement programs (DESIGN.md section 3.2) -- IR, Hypothesis strategies, printer, alpha-renaming.

STABLE PUBLIC API (reused by C03 C08 C09 C10 C30 C32 C35 C38; do not change signatures)
---------------------------------------------------------------------------------------
    programs(max_depth=4, max_nodes=25, *, autoescape=False, errors=True, extras=False) -> strategy of programs
                                       extras=True adds macro extras: bodies reading ``varargs`` / ``kwargs`` with calls
                                       passing surplus arguments, and defaults that name their own / a later parameter
    datas(n=3)                         -> strategy of a list of n data dicts for a program
    print_program(prog, rename=None)   -> str     Jinja source (loopcontrols extension needed for break/continue)
    print_expr(expr, rename=None)      -> str
    renamings(prog)                    -> strategy of a bijective rename map {old identifier: new identifier}
    rename_data(data, rename)          -> data dict with its keys renamed
    identifiers(prog)                  -> sorted list of every renameable identifier the program mentions
    count_nodes(prog), walk(prog)      -> helpers
    vt.ref.interp.interpret(prog, data) -> str    reference output (raises RefError / Ambiguous / Budget)
    vt.ref.interp.interpret_ex(prog, data, guard=True) -> Result(kind ok|error|declined, value, labels, why)

A *program* is a JSON list of statements; a statement / expression is a JSON list whose first item
is the tag.  ``body`` below is again a list of statements, ``e`` an expression, names are strings.

  statements
    ["text", s]                                   template data (no delimiters, no newline)
    ["out", e]                                    {{ e }}
    ["if", [[e, body], ...], else_body|None]      if / elif* / else
    ["for", [target names], e_iter, body, else_body|None, e_test|None, recursive(bool)]
    ["break"] ["continue"]                        only directly (through if / with) inside a loop body
    ["set", [names], [e, ...]]                    {% set a, b = e1, e2 %}   (same arity)
    ["setblock", name, filter|None, body]         {% set a [| filter] %}...{% endset %}
    ["nsnew", ns, [[attr, e], ...]]               {% set ns = namespace(attr=e, ...) %}
    ["nsset", ns, attr, e]                        {% set ns.attr = e %}
    ["with", [[name, e], ...], body]
    ["macro", name, [params], [default e for the last k params], body]
    ["callblock", [params], ["call", m, args, kwargs], body]
    ["filter", filter, body]                      filter = [name, [constant e, ...]]
    ["autoescape", bool, body]                    only when programs(autoescape=True); the interpreter declines it
  expressions
    ["name", n] ["int", k>=0] ["str", s] ["bool", b] ["list", [e, ...]]
    ["add", a, b] ["sub", a, b] ["cat", a, b]     +  -  ~
    ["cmp", op, a, b]                             == != < <= > >=
    ["not", e] ["and", a, b] ["or", a, b] ["cond", a, c, b|None]
    ["defined", n, negated(bool)]                 n is [not] defined
    ["nsattr", ns, attr]                          ns.attr
    ["filt", name, e, [args]]                     default(d[, true]) length upper lower join(sep) first
    ["loopattr", attr]                            loop.index ... (only where a loop of the same frame nest is visible)
    ["call", m, [args], [[kw, e], ...]]           macro call (value = rendered string)
    ["caller", [args]]                            caller(...) directly in a macro body
    ["special", "varargs"|"kwargs"]               the macro's surplus positional / keyword arguments (only with
                                                  programs(extras=True); generated under length / join / first only)
    ["looprec", n]                                (loop(n) if n is a list else '') in a recursive loop

Name pools: variables VARS (shared between template assignments and the render data), macro names
MACROS, namespace names NSS, namespace attributes ATTRS.  Termination: a macro body named m<k> only calls
m<j>, j<k; ``loop(x)`` is only generated for the first target x of the enclosing recursive loop and x is never
reassigned inside that loop (so the recursion descends into the data); loops nest at most 3 deep over
sequences of at most 3 items.  Values can still grow (``a ~ a`` in nested loops): callers that render without
the reference interpreter can use ``interpret_ex(prog, data, guard=False)`` as a resource probe (kind
"declined" / value "Budget" = do not render).  Constructs whose behaviour the documentation does not define
are not generated (see the "excluded by construction" notes in the code): break/continue inside buffering
blocks, loop else branches or across macro boundaries; filter-section / block-set filter arguments that read
variables; filter sections with non-string filters; loop filters that can raise, read namespaces or call
macros; ``loop.*`` / ``caller`` across macro and call-block boundaries; macros used as values; macro defaults
reading their own or later parameters.

Alpha-renaming: ``print_program(prog, rename)`` substitutes identifiers consistently (variables,
macro names, parameters, keyword-argument names, namespace names; not filter names, ``loop``,
``caller``, ``namespace`` or namespace attribute names).  ``IDENT_CLASSES`` holds the identifier
pools of DESIGN.md section 3.2; all of them are valid identifiers and NFKC-stable (checked at import).
"""
import unicodedata

from hypothesis import strategies as st

VARS = ("a", "b", "c", "d", "s", "t")
SCALARS = ("a", "b", "c", "d")
MACROS = ("m0", "m1", "m2", "m3")
NSS = ("ns", "n2")
ATTRS = ("u", "v")
LOOPATTRS = ("index", "index0", "revindex", "revindex0", "first", "last", "length", "depth", "depth0")
CMPOPS = ("==", "!=", "<", "<=", ">", ">=")
EXPR_FILTERS = ("default", "length", "upper", "lower", "join", "first")
BLOCK_FILTERS = (["upper", []], ["lower", []], ["length", []], ["default", [["str", "-"], ["bool", True]]])
# a filter *section* whose filter returns a non-string makes the template yield a non-string (TypeError in
# concat) -- not a scoping matter, so filter sections only use string-valued filters; block set may use length
SECTION_FILTERS = (["upper", []], ["lower", []], ["default", [["str", "-"], ["bool", True]]])

# Identifier pools for alpha-renaming / non-aliasing (DESIGN.md section 3.2).  Not in any pool, on purpose:
#   names Jinja's grammar reserves or gives a meaning in some position (true false none True False None and or
#   not in is if else elif recursive as with without context-less keywords of statements we print), the special
#   names loop / caller / varargs / kwargs / self / super, the default globals (range dict lipsum cycler joiner
#   namespace), and _loop_vars / _block_vars (keyword arguments of that name are a template error since the
#   fix of F23).
IDENT_CLASSES = {
    "ascii": ["x", "y", "foo", "Foo", "FOO", "x1", "x_", "_x", "__x", "_", "__", "a_b", "A", "B", "item", "value",
              "i", "j", "k", "a1", "b2", "aa", "ab", "ba"],
    "pykeyword": ["class", "def", "lambda", "while", "yield", "async", "await", "global", "nonlocal", "try",
                  "except", "finally", "raise", "pass", "del", "assert", "return", "match", "case", "type",
                  "print", "exec", "len", "str", "id", "object", "int", "list"],
    "generated": ["l_0_a", "l_1_a", "l_2_a", "l_0_b", "l_1_b", "l_0_x", "l_1_x", "l_1_loop", "l_0_loop", "t_1", "t_2",
                  "t_3", "context", "environment", "resolve", "missing", "undefined", "concat", "cond_expr_undefined",
                  "Undefined", "Markup", "escape", "str_join", "markup_join", "identity", "LoopContext",
                  "AsyncLoopContext", "Macro", "Namespace", "TemplateRuntimeError", "TemplateReference", "root",
                  "name", "blocks", "debug_info", "parent_template", "included_template", "macro", "reciter",
                  "loop_render_func", "depth", "fiter", "auto_await", "auto_aiter", "to_string", "internalcode",
                  "l_0_", "l_", "l_0", "loop_", "loops", "caller_", "callers", "self_", "kwargs_", "varargs_"],
    "dunder": ["__init__", "__class__", "__dict__", "__name__", "__builtins__", "__import__", "__x__", "__getattr__",
               "__call__", "__html__", "_Namespace__attrs", "__loader__", "__file__", "__debug__"],
    "unicode": ["\u00e9", "\u00f1and\u00fa", "\u540d\u524d", "\u043f\u0435\u0440\u0435\u043c", "\u03b1", "\u03a9", "\u00df",
                "\u0131", "x\u0327", "a\u00b7b", "\u0430", "\u0435", "\u03bf", "\u00e4b", "b\u00e4", "\u00c5", "\u4e2d",
                "\u05d0", "\u0639\u0631\u0628", "\ud55c\uae00", "\u1e93\u0308"],
}
ALL_IDENTS = [i for k in sorted(IDENT_CLASSES) for i in IDENT_CLASSES[k]]
IDENT_CLASS_OF = {i: k for k in IDENT_CLASSES for i in IDENT_CLASSES[k]}
RESERVED = {"true", "false", "none", "True", "False", "None", "and", "or", "not", "in", "is", "if", "else", "elif",
            "recursive", "loop", "caller", "varargs", "kwargs", "self", "super", "range", "dict", "lipsum", "cycler",
            "joiner", "namespace", "_loop_vars", "_block_vars"}


def nfkc_stable(s):
    return unicodedata.normalize("NFKC", s) == s


def _selfcheck():
    assert len(set(ALL_IDENTS)) == len(ALL_IDENTS), "duplicate identifier in pools"
    for i in ALL_IDENTS:
        assert i.isidentifier() and nfkc_stable(i) and i not in RESERVED, i
        assert i not in VARS and i not in MACROS and i not in NSS, i


_selfcheck()

# ---------------------------------------------------------------------------------------------------------
# printer


def _id(n, R):
    return R.get(n, n) if R else n


def _strlit(s):
    assert "'" not in s and "\\" not in s
    return "'%s'" % s


def print_expr(e, rename=None):
    R = rename
    k = e[0]
    if k == "name":
        return _id(e[1], R)
    if k == "bool":
        return "true" if e[1] else "false"
    if k == "int":
        return str(e[1])
    if k == "str":
        return _strlit(e[1])
    if k == "list":
        return "[" + ", ".join(print_expr(x, R) for x in e[1]) + "]"
    if k in ("add", "sub", "cat", "and", "or"):
        op = {"add": "+", "sub": "-", "cat": "~", "and": "and", "or": "or"}[k]
        return "(%s %s %s)" % (print_expr(e[1], R), op, print_expr(e[2], R))
    if k == "cmp":
        return "(%s %s %s)" % (print_expr(e[2], R), e[1], print_expr(e[3], R))
    if k == "not":
        return "(not %s)" % print_expr(e[1], R)
    if k == "cond":
        if e[3] is None:
            return "(%s if %s)" % (print_expr(e[1], R), print_expr(e[2], R))
        return "(%s if %s else %s)" % (print_expr(e[1], R), print_expr(e[2], R), print_expr(e[3], R))
    if k == "defined":
        return "(%s is %sdefined)" % (_id(e[1], R), "not " if e[2] else "")
    if k == "nsattr":
        return "%s.%s" % (_id(e[1], R), e[2])
    if k == "filt":
        args = ", ".join(print_expr(x, R) for x in e[3])
        return "(%s|%s%s)" % (print_expr(e[2], R), e[1], "(%s)" % args if e[3] else "")
    if k == "loopattr":
        return "loop.%s" % e[1]
    if k == "call":
        parts = [print_expr(x, R) for x in e[2]] + ["%s=%s" % (_id(kw, R), print_expr(x, R)) for kw, x in e[3]]
        return "%s(%s)" % (_id(e[1], R), ", ".join(parts))
    if k == "caller":
        return "caller(%s)" % ", ".join(print_expr(x, R) for x in e[1])
    if k == "special":
        return e[1]
    if k == "looprec":
        n = _id(e[1], R)
        return "(loop(%s) if (%s is iterable and %s is not string) else '')" % (n, n, n)
    raise ValueError("unknown expression %r" % (e,))


def _filter_src(f, R):
    name, args = f
    return name + ("(%s)" % ", ".join(print_expr(x, R) for x in args) if args else "")


def _print_block(body, R, out):
    for s in body:
        _print_stmt(s, R, out)


def _print_stmt(s, R, out):
    k = s[0]
    if k == "text":
        out.append(s[1])
    elif k == "out":
        out.append("{{ %s }}" % print_expr(s[1], R))
    elif k == "if":
        for i, (cond, body) in enumerate(s[1]):
            out.append("{%% %s %s %%}" % ("if" if i == 0 else "elif", print_expr(cond, R)))
            _print_block(body, R, out)
        if s[2] is not None:
            out.append("{% else %}")
            _print_block(s[2], R, out)
        out.append("{% endif %}")
    elif k == "for":
        _, targets, it, body, else_, test, recursive = s
        head = "{%% for %s in %s" % (", ".join(_id(t, R) for t in targets), print_expr(it, R))
        if test is not None:
            head += " if " + print_expr(test, R)
        if recursive:
            head += " recursive"
        out.append(head + " %}")
        _print_block(body, R, out)
        if else_ is not None:
            out.append("{% else %}")
            _print_block(else_, R, out)
        out.append("{% endfor %}")
    elif k in ("break", "continue"):
        out.append("{%% %s %%}" % k)
    elif k == "set":
        out.append("{%% set %s = %s %%}" % (", ".join(_id(t, R) for t in s[1]), ", ".join(print_expr(x, R) for x in s[2])))
    elif k == "setblock":
        out.append("{%% set %s%s %%}" % (_id(s[1], R), " | " + _filter_src(s[2], R) if s[2] else ""))
        _print_block(s[3], R, out)
        out.append("{% endset %}")
    elif k == "nsnew":
        out.append("{%% set %s = namespace(%s) %%}" % (_id(s[1], R), ", ".join("%s=%s" % (a, print_expr(x, R)) for a, x in s[2])))
    elif k == "nsset":
        out.append("{%% set %s.%s = %s %%}" % (_id(s[1], R), s[2], print_expr(s[3], R)))
    elif k == "with":
        binds = ", ".join("%s = %s" % (_id(n, R), print_expr(x, R)) for n, x in s[1])
        out.append("{%% with %s %%}" % binds if binds else "{% with %}")
        _print_block(s[2], R, out)
        out.append("{% endwith %}")
    elif k == "macro":
        _, name, params, defaults, body = s
        nd = len(params) - len(defaults)
        ps = [_id(p, R) if i < nd else "%s=%s" % (_id(p, R), print_expr(defaults[i - nd], R)) for i, p in enumerate(params)]
        out.append("{%% macro %s(%s) %%}" % (_id(name, R), ", ".join(ps)))
        _print_block(body, R, out)
        out.append("{% endmacro %}")
    elif k == "callblock":
        _, params, call, body = s
        out.append("{%% call%s %s %%}" % ("(%s)" % ", ".join(_id(p, R) for p in params) if params else "", print_expr(call, R)))
        _print_block(body, R, out)
        out.append("{% endcall %}")
    elif k == "filter":
        out.append("{%% filter %s %%}" % _filter_src(s[1], R))
        _print_block(s[2], R, out)
        out.append("{% endfilter %}")
    elif k == "autoescape":
        out.append("{%% autoescape %s %%}" % ("true" if s[1] else "false"))
        _print_block(s[2], R, out)
        out.append("{% endautoescape %}")
    else:
        raise ValueError("unknown statement %r" % (s,))


def print_program(prog, rename=None):
    """Jinja source of the program; ``rename`` maps identifiers to their replacement (must be injective)."""
    if rename:
        vals = list(rename.values())
        assert len(set(vals)) == len(vals), "rename map is not injective"
    out = []
    _print_block(prog, rename, out)
    return "".join(out)


def rename_data(data, rename):
    if not rename:
        return dict(data)
    return {rename.get(k, k): v for k, v in data.items()}


# ---------------------------------------------------------------------------------------------------------
# traversal helpers


def sub_bodies(s):
    """(kind, body) pairs of the statement lists nested directly in statement s."""
    k = s[0]
    if k == "if":
        r = [("if", b) for _, b in s[1]]
        if s[2] is not None:
            r.append(("if", s[2]))
        return r
    if k == "for":
        r = [("for", s[3])]
        if s[4] is not None:
            r.append(("forelse", s[4]))
        return r
    if k == "setblock":
        return [("setblock", s[3])]
    if k == "with":
        return [("with", s[2])]
    if k == "macro":
        return [("macro", s[4])]
    if k == "callblock":
        return [("callblock", s[3])]
    if k == "filter":
        return [("filter", s[2])]
    if k == "autoescape":
        return [("autoescape", s[2])]
    return []


def stmt_exprs(s):
    """Expressions appearing directly in statement s (not in nested bodies)."""
    k = s[0]
    if k == "out":
        return [s[1]]
    if k == "if":
        return [c for c, _ in s[1]]
    if k == "for":
        return [s[2]] + ([s[5]] if s[5] is not None else [])
    if k == "set":
        return list(s[2])
    if k == "nsnew":
        return [x for _, x in s[2]]
    if k == "nsset":
        return [s[3]]
    if k == "with":
        return [x for _, x in s[1]]
    if k == "macro":
        return list(s[3])
    if k == "callblock":
        return [s[2]]
    return []


def walk(prog):
    """Yield every statement of the program, depth first."""
    for s in prog:
        yield s
        for _, b in sub_bodies(s):
            yield from walk(b)


def walk_expr(e):
    yield e
    k = e[0]
    if k == "list":
        subs = e[1]
    elif k in ("add", "sub", "cat", "and", "or"):
        subs = e[1:3]
    elif k == "cmp":
        subs = e[2:4]
    elif k == "not":
        subs = [e[1]]
    elif k == "cond":
        subs = [x for x in e[1:4] if x is not None]
    elif k == "filt":
        subs = [e[2]] + list(e[3])
    elif k == "call":
        subs = list(e[2]) + [x for _, x in e[3]]
    elif k == "caller":
        subs = e[1]
    else:
        subs = []
    for x in subs:
        yield from walk_expr(x)


def expr_names(e, kwargs=False):
    """Names an expression reads (variables, macros, namespaces); with kwargs=True also keyword-argument names."""
    out = []
    for x in walk_expr(e):
        k = x[0]
        if k == "name":
            out.append(x[1])
        elif k in ("defined", "nsattr", "call", "looprec"):
            out.append(x[1])
            if k == "call" and kwargs:
                out.extend(kw for kw, _ in x[3])
    return out


def count_nodes(prog):
    return sum(1 for _ in walk(prog))


def identifiers(prog):
    ids = set()
    for s in walk(prog):
        k = s[0]
        for e in stmt_exprs(s):
            ids.update(expr_names(e, kwargs=True))
        if k == "for":
            ids.update(s[1])
        elif k == "set":
            ids.update(s[1])
        elif k in ("setblock", "nsnew", "nsset"):
            ids.add(s[1])
        elif k == "with":
            ids.update(n for n, _ in s[1])
        elif k == "macro":
            ids.add(s[1])
            ids.update(s[2])
        elif k == "callblock":
            ids.update(s[1])
    return sorted(ids)


# ---------------------------------------------------------------------------------------------------------
# strategies

_TEXTS = ("x", "-", ".", "[", "]", "<", ">", " ", "ab", ":", "|", "0")
_STRS = ("", "p", "q", "Ab", "z z")


class _Lex:
    """Lexical generation context.  ``macros`` (name -> (params, mentions caller, caller argument count, reads varargs, reads kwargs)) and ``nss`` are the macro and
    namespace names probably defined at this point; they only steer the generator towards programs that render."""

    __slots__ = ("depth", "loopctl", "loopvis", "rec", "in_macro", "mrank", "loops", "macros", "nss")

    def __init__(self, depth=0, loopctl=False, loopvis=False, rec=None, in_macro=False, mrank=len(MACROS), loops=0,
                 macros=None, nss=None):
        self.depth, self.loopctl, self.loopvis, self.rec = depth, loopctl, loopvis, rec
        self.in_macro, self.mrank, self.loops = in_macro, mrank, loops
        self.macros = {} if macros is None else macros
        self.nss = set() if nss is None else nss

    def child(self, share=False, **kw):
        c = _Lex(self.depth + 1, self.loopctl, self.loopvis, self.rec, self.in_macro, self.mrank, self.loops,
                 self.macros if share else dict(self.macros), self.nss if share else set(self.nss))
        for k, v in kw.items():
            setattr(c, k, v)
        return c


def _caller_args(body):
    """Largest argument count of a direct ``caller(...)`` call in a macro body, or None when there is none."""
    best = None
    for s in body:
        for e in stmt_exprs(s):
            for x in walk_expr(e):
                if x[0] == "caller":
                    best = max(best or 0, len(x[1]))
        for kind, b in sub_bodies(s):
            if kind not in ("macro", "callblock"):
                sub = _caller_args(b)
                if sub is not None:
                    best = max(best or 0, sub)
    return best


def _uses_special(body, which):
    for s in body:
        for e in stmt_exprs(s):
            if any(x[0] == "special" and x[1] == which for x in walk_expr(e)):
                return True
        for kind, b in sub_bodies(s):
            if kind not in ("macro", "callblock") and _uses_special(b, which):
                return True
    return False


class _Gen:
    def __init__(self, draw, max_depth, max_nodes, autoescape, errors, extras=False):
        self.draw, self.max_depth, self.budget = draw, max_depth, max_nodes
        self.autoescape, self.errors, self.extras = autoescape, errors, extras

    # -- small draws
    def i(self, lo, hi):
        return self.draw(st.integers(lo, hi))

    def chance(self, num, den):
        return self.i(1, den) <= num

    def pick(self, seq):
        return seq[self.i(0, len(seq) - 1)]

    def weighted(self, table):
        table = [t for t in table if t[1] > 0]
        total = sum(w for _, w in table)
        r = self.i(0, total - 1)
        for v, w in table:
            if r < w:
                return v
            r -= w
        raise AssertionError

    def var(self):
        return self.pick(VARS)

    def scalar(self):
        return self.pick(SCALARS)

    def target(self, lex=None):
        """Assignment / loop targets: mostly the scalar names, so that ``s`` and ``t`` usually stay sequences.
        Inside a recursive loop the loop target that ``loop(...)`` descends into is never reassigned (otherwise
        ``loop(x)`` could be handed the list it is iterating: unbounded recursion)."""
        n = self.pick(SCALARS) if self.chance(5, 6) else self.pick(VARS)
        if lex is not None and n == lex.rec:
            n = [v for v in SCALARS if v != lex.rec][self.i(0, len(SCALARS) - 2)]
        return n

    # -- expressions
    def atom(self, lex):
        k = self.weighted([("name", 6), ("int", 2), ("str", 1)])
        if k == "name":
            return ["name", self.var()]
        if k == "int":
            return ["int", self.i(0, 4)]
        return ["str", self.pick(_STRS)]

    def total_expr(self, lex, d=1):
        """An expression that cannot raise (used for loop filters, whose evaluation order relative to the
        loop body is not specified) and reads no namespace / calls no macro."""
        k = self.weighted([("name", 4), ("eq", 4), ("defined", 2), ("not", 1), ("and", 1)]) if d > 0 else "name"
        if k == "name":
            return ["name", self.var()]
        if k == "eq":
            return ["cmp", self.pick(("==", "!=")), ["name", self.var()], self.atom(lex)]
        if k == "defined":
            return ["defined", self.var(), self.chance(1, 2)]
        if k == "not":
            return ["not", self.total_expr(lex, d - 1)]
        return [self.pick(("and", "or")), self.total_expr(lex, d - 1), self.total_expr(lex, d - 1)]

    def seqish(self, lex):
        if self.chance(3, 4):
            return ["name", self.pick(("s", "t", "s", "t", "s", self.var()))]
        return ["list", [self.atom(lex) for _ in range(self.i(0, 3))]]

    def expr(self, lex, d=2):
        if d <= 0:
            return self.atom(lex)
        e = self.errors
        table = [("atom", 20), ("cat", 8), ("add", 2 if e else 0), ("sub", 1 if e else 0), ("cmp", 3), ("defined", 2),
                 ("filt", 4), ("list", 2), ("cond", 2), ("bool", 2),
                 ("nsattr", 5 if lex.nss else 0),
                 ("loopattr", 6 if lex.loopvis else 0),
                 ("call", 8 if self.callable_macros(lex) else 0),
                 ("caller", 3 if lex.in_macro else 0),
                 ("special", 4 if lex.in_macro and self.extras else 0),
                 ("looprec", 10 if lex.rec is not None else 0)]
        k = self.weighted(table)
        if k == "atom":
            return self.atom(lex)
        if k in ("add", "sub"):
            left = ["name", self.scalar()] if self.chance(3, 4) else self.expr(lex, d - 1)
            return [k, left, ["int", self.i(0, 3)] if self.chance(3, 4) else self.atom(lex)]
        if k == "cat":
            return ["cat", self.expr(lex, d - 1), self.expr(lex, d - 1)]
        if k == "cmp":
            ops = CMPOPS if e and self.chance(1, 3) else ("==", "!=")
            return ["cmp", self.pick(ops), self.expr(lex, d - 1), self.atom(lex)]
        if k == "defined":
            return ["defined", self.var(), self.chance(1, 4)]
        if k == "filt":
            f = self.pick(EXPR_FILTERS if e else ("default", "upper", "lower"))
            if f == "default":
                return ["filt", f, self.expr(lex, d - 1), [self.atom(lex)] + ([["bool", True]] if self.chance(1, 3) else [])]
            if f in ("upper", "lower"):
                return ["filt", f, self.expr(lex, d - 1), []]
            operand = self.seqish(lex) if self.chance(5, 6) else self.expr(lex, d - 1)
            return ["filt", f, operand, [["str", self.pick(("", ",", "-"))]] if f == "join" else []]
        if k == "list":
            return ["list", [self.expr(lex, d - 1) for _ in range(self.i(0, 3))]]
        if k == "cond":
            return ["cond", self.expr(lex, d - 1), self.cond(lex, d - 1), self.expr(lex, d - 1) if self.chance(2, 3) else None]
        if k == "bool":
            b = self.pick(("not", "and", "or"))
            if b == "not":
                return ["not", self.expr(lex, d - 1)]
            return [b, self.expr(lex, d - 1), self.expr(lex, d - 1)]
        if k == "nsattr":
            return ["nsattr", self.ns_name(lex), self.pick(ATTRS)]
        if k == "loopattr":
            return ["loopattr", self.pick(LOOPATTRS)]
        if k == "call":
            return self.call(lex, d)
        if k == "caller":
            return ["caller", [self.expr(lex, d - 1) for _ in range(self.weighted([(0, 2), (1, 3), (2, 1)]))]]
        if k == "looprec":
            return ["looprec", lex.rec]
        if k == "special":
            return self.special(self.pick(("varargs", "kwargs")))
        raise AssertionError(k)

    def special(self, which):
        # kwargs only under length: its keys are identifiers, printing them would (rightly) change under renaming
        if which == "kwargs":
            return ["filt", "length", ["special", "kwargs"], []]
        f = self.pick(("length", "join", "first"))
        return ["filt", f, ["special", "varargs"], [["str", ","]] if f == "join" else []]

    def surplus(self, lex, m, args, kwargs, d):
        """Surplus arguments for a macro that reads varargs / kwargs (all parameters are then passed positionally)."""
        params, _, _, va, kw = lex.macros[m]
        if va and self.chance(2, 3):
            while len(args) < len(params):
                args.append(self.expr(lex, d - 1))
            del kwargs[:]
            args.extend(self.atom(lex) for _ in range(self.i(1, 3)))
        if kw and self.chance(2, 3):
            given = set(params[: len(args)]) | {k for k, _ in kwargs}
            free = [q for q in SCALARS if q not in params and q not in given]
            for q in free[: self.i(1, 2)]:
                kwargs.append([q, self.atom(lex)])

    def cond(self, lex, d=1):
        k = self.weighted([("name", 3), ("cmp", 4), ("defined", 3), ("expr", 2)])
        if k == "name":
            return ["name", self.var()]
        if k == "cmp":
            ops = CMPOPS if self.errors and self.chance(1, 4) else ("==", "!=")
            return ["cmp", self.pick(ops), ["name", self.var()], self.atom(lex)]
        if k == "defined":
            return ["defined", self.var(), self.chance(1, 3)]
        return self.expr(lex, d)

    def ns_name(self, lex):
        if lex.nss and (not self.errors or self.chance(19, 20)):
            return self.pick(sorted(lex.nss))
        return self.pick(NSS)

    def callable_macros(self, lex):
        return [m for m in MACROS[: lex.mrank] if m in lex.macros]

    def call(self, lex, d, want_caller=False):
        known = self.callable_macros(lex)
        pref = [m for m in known if lex.macros[m][1] == want_caller]
        if pref and (not self.errors or self.chance(7, 8)):
            known = pref
        if known and (not self.errors or self.chance(19, 20)):
            m = self.pick(known)
            params = lex.macros[m][0]
            npos = self.i(0, len(params))
            args = [self.expr(lex, d - 1) for _ in range(npos)]
            kwargs = [[p, self.expr(lex, d - 1)] for p in params[npos:] if self.chance(1, 3)]
            if self.errors and self.chance(1, 25):
                args.append(self.atom(lex))  # surplus positional argument: TypeError (unless the macro reads varargs)
            if self.extras:
                self.surplus(lex, m, args, kwargs, d)
            return ["call", m, args, kwargs]
        m = MACROS[self.i(0, lex.mrank - 1)]
        args = [self.expr(lex, d - 1) for _ in range(self.i(0, 2))]
        kwargs = [[self.scalar(), self.expr(lex, d - 1)]] if self.chance(1, 4) else []
        return ["call", m, args, kwargs]

    # -- statements
    def block(self, lex, lo=0, hi=4):
        n = self.i(lo, hi)
        out = []
        defined = []
        for _ in range(n):
            if self.budget <= 0:
                break
            s = self.stmt(lex)
            out.append(s)
            if s[0] == "macro" and s[1] in MACROS[: lex.mrank]:
                defined.append((len(out) - 1, s[1]))
        # a macro defined here is usually also used here: a call (or call block) somewhere after the definition,
        # often with an assignment of a pool name in between (closure reads of later-assigned variables)
        for idx, name in reversed(defined):
            if lex.macros.get(name) is None or not self.chance(3, 4):
                continue
            self.budget -= 1
            params, has_caller, nca = lex.macros[name][:3]
            npos = self.i(0, len(params))
            call = ["call", name, [self.expr(lex, 1) for _ in range(npos)],
                    [[q, self.expr(lex, 1)] for q in params[npos:] if self.chance(1, 3)]]
            if self.extras:
                self.surplus(lex, name, call[2], call[3], 2)
            if has_caller:
                cps = list(SCALARS[: (nca if self.chance(5, 6) or not self.errors else self.i(0, 2))])
                use = ["callblock", cps, call, self.block(lex.child(loopctl=False, loopvis=False, rec=None, in_macro=False), 1, 2)]
            else:
                use = ["out", call]
            pos = self.i(idx + 1, len(out))
            out.insert(pos, use)
            if self.chance(2, 3):
                # prefer a name the macro body reads but does not bind itself
                mac = out[idx]
                free = sorted({n for st_ in walk(mac[4]) for e in stmt_exprs(st_) for n in expr_names(e) if n in VARS} - set(mac[2]))
                target = self.pick(free) if free and self.chance(4, 5) else self.var()
                if target == lex.rec:
                    target = self.target(lex)
                out.insert(self.i(idx + 1, pos), ["set", [target], [self.expr(lex, 1)]])
        return out

    def stmt(self, lex):
        self.budget -= 1
        deep = lex.depth < self.max_depth and self.budget > 0
        table = [("text", 3), ("out", 9), ("set", 8), ("nsset", 2 if lex.nss else 0), ("nsnew", 1 if lex.nss else 2),
                 ("loopctl", 3 if lex.loopctl else 0)]
        if deep:
            table += [("if", 5), ("for", 6 if lex.loops < 3 else 0), ("with", 3), ("macro", 4), ("setblock", 2), ("filter", 1),
                      ("callblock", (6 if any(lex.macros[m][1] for m in self.callable_macros(lex)) else 1) if self.callable_macros(lex) else 0), ("autoescape", 1 if self.autoescape else 0)]
        k = self.weighted(table)
        if k == "text":
            return ["text", self.pick(_TEXTS)]
        if k == "out":
            return ["out", self.expr(lex)]
        if k == "set":
            if self.chance(1, 6):
                t1, t2 = self.target(lex), self.target(lex)
                if t1 != t2:
                    return ["set", [t1, t2], [self.expr(lex, 1), self.expr(lex, 1)]]
                return ["set", [t1], [self.expr(lex)]]
            return ["set", [self.target(lex)], [self.expr(lex)]]
        if k == "nsset":
            return ["nsset", self.ns_name(lex), self.pick(ATTRS), self.expr(lex)]
        if k == "nsnew":
            attrs = [[a, self.expr(lex, 1)] for a in ATTRS if self.chance(2, 3)]
            ns = self.pick(NSS)
            lex.nss.add(ns)
            return ["nsnew", ns, attrs]
        if k == "loopctl":
            return [self.pick(("break", "continue"))]
        if k == "if":
            nb = self.weighted([(1, 6), (2, 2), (3, 1)])
            # if bodies share the enclosing scope; break/continue stay legal in if branches
            branches = [[self.cond(lex), self.block(lex.child(share=True), 1, 3)] for _ in range(nb)]
            else_ = self.block(lex.child(share=True), 1, 3) if self.chance(1, 3) else None
            return ["if", branches, else_]
        if k == "for":
            return self.for_(lex)
        if k == "with":
            binds = []
            for _ in range(self.i(0, 2)):
                n = self.target(lex)
                if n not in [b[0] for b in binds]:
                    binds.append([n, self.expr(lex)])
            return ["with", binds, self.block(lex.child(), 1, 4)]
        if k == "macro":
            return self.macro(lex)
        if k == "callblock":
            call = self.call(lex, 2, want_caller=True)
            params = []
            nca = lex.macros[call[1]][2] if call[1] in lex.macros else 0
            for _ in range(nca if self.chance(5, 6) or not self.errors else self.i(0, 2)):
                p = self.scalar()
                if p not in params:
                    params.append(p)
            while len(params) < nca and not self.errors:
                params.append([q for q in SCALARS if q not in params][0])
            # excluded by construction: `caller` inside a call block body (it names the call block's own,
            # absent, caller -- undocumented); break/continue and loop.* across the call boundary
            body = self.block(lex.child(loopctl=False, loopvis=False, rec=None, in_macro=False), 1, 4)
            return ["callblock", params, call, body]
        if k == "setblock":
            f = self.pick(BLOCK_FILTERS) if self.chance(1, 4) else None
            # break/continue inside a buffering block would drop the buffered output (undocumented): excluded
            return ["setblock", self.target(lex), f, self.block(lex.child(loopctl=False), 1, 3)]
        if k == "filter":
            return ["filter", self.pick(SECTION_FILTERS), self.block(lex.child(loopctl=False), 1, 3)]
        if k == "autoescape":
            return ["autoescape", self.chance(1, 2), self.block(lex.child(share=True), 1, 3)]
        raise AssertionError(k)

    def for_(self, lex):
        recursive = self.chance(1, 5)
        two = self.chance(1, 6) and not recursive
        t1 = self.target()
        targets = [t1]
        if two:
            t2 = self.target()
            if t2 != t1:
                targets.append(t2)
        ik = self.weighted([("s", 6), ("t", 4), ("var", 1 if self.errors else 0), ("list", 4), ("expr", 1 if self.errors else 0)])
        if recursive:
            ik = self.weighted([("t", 5), ("s", 1), ("var", 1 if self.errors else 0)])
        if ik in ("s", "t"):
            it = ["name", ik]
        elif ik == "var":
            it = ["name", self.var()]
        elif ik == "list":
            if len(targets) == 2:
                it = ["list", [["list", [self.atom(lex), self.atom(lex)]] for _ in range(self.i(0, 3))]]
            else:
                it = ["list", [self.atom(lex) for _ in range(self.i(0, 3))]]
        else:
            it = self.expr(lex, 1)
        test = self.total_expr(lex) if self.chance(1, 4) else None
        has_else = self.chance(1, 3)
        body = self.block(lex.child(loopctl=True, loopvis=True, rec=targets[0] if recursive else None,
                                    loops=lex.loops + 1), 1, 4)
        # the else branch runs outside the loop: break/continue there would address an enclosing loop (undocumented)
        else_ = self.block(lex.child(loopctl=False), 1, 2) if has_else else None
        return ["for", targets, it, body, else_, test, recursive]

    def macro(self, lex):
        k = self.i(0, len(MACROS) - 1)
        name = MACROS[k]
        params = []
        for _ in range(self.i(0, 3)):
            p = self.scalar()
            if p not in params:
                params.append(p)
        ndef = self.i(0, len(params))
        defaults = []
        for j in range(ndef):
            idx = len(params) - ndef + j
            later = set(params[idx:])
            e = self.expr(lex, 1)
            # a default that reads its own or a later parameter: which value it sees is not documented, so it is only
            # generated with extras=True (the reference then accepts "undefined" and "the enclosing variable")
            if self.extras and self.chance(1, 2):
                own = ["name", self.pick(sorted(later))] if self.chance(1, 3) else ["name", params[idx]]
                e = own if self.chance(1, 2) else ["filt", "default", own, [self.atom(lex)]]
            elif any(n in later for n in expr_names(e)) and not (self.extras and self.chance(1, 2)):
                e = self.atom_not(lex, later)
            defaults.append(e)
        # loop.* / break / continue / loop() across the macro boundary are not generated; body may call m<j>, j<k
        mlex = lex.child(loopctl=False, loopvis=False, rec=None, in_macro=True, mrank=min(k, lex.mrank))
        body = self.block(mlex, 1, 4)
        if self.chance(1, 3):
            body.insert(self.i(0, len(body)), ["out", ["caller", [self.atom(mlex) for _ in range(self.i(0, 2))]]])
        if self.extras and self.chance(1, 8):
            # a body that reads both special names (each alone is produced by the expression generator as well)
            for which in ("varargs", "kwargs") if self.chance(1, 2) else ("kwargs", "varargs"):
                body.insert(self.i(0, len(body)), ["out", self.special(which)])
        nca = _caller_args(body)
        lex.macros[name] = (params, nca is not None, nca or 0, _uses_special(body, "varargs"), _uses_special(body, "kwargs"))
        return ["macro", name, params, defaults, body]

    def atom_not(self, lex, banned):
        for n in VARS:
            if n not in banned and self.chance(1, 2):
                return ["name", n]
        return ["int", self.i(0, 4)]


@st.composite
def programs(draw, max_depth=4, max_nodes=25, autoescape=False, errors=True, extras=False):
    """Statement programs.  ``errors=False`` drops the operations that can raise on ill-typed data
    (ordering comparisons, ``+``/``-``, ``length``/``join``/``first``, calls of unknown macros) for callers that
    want programs that (almost always) render."""
    g = _Gen(draw, max_depth, max_nodes, autoescape, errors, extras)
    return g.block(_Lex(), 1, 6)


_SCALAR_VALUES = st.one_of(
    st.integers(0, 3), st.integers(0, 3), st.integers(0, 3), st.integers(0, 3), st.integers(0, 3), st.integers(0, 3),
    st.sampled_from(["", "p", "q", "Ab"]), st.lists(st.integers(0, 3), max_size=3),
)
_ITEMS = st.one_of(st.integers(0, 3), st.integers(0, 3), st.sampled_from(["", "p", "q"]))
_NESTED = st.recursive(st.integers(0, 3), lambda c: st.lists(c, max_size=3), max_leaves=6)
_SEQ_VALUES = st.one_of(
    st.lists(_ITEMS, max_size=3),
    st.lists(_ITEMS, max_size=3),
    st.lists(st.lists(_ITEMS, min_size=2, max_size=2), max_size=3),
    st.lists(_NESTED, max_size=3),
)


@st.composite
def data_dict(draw):
    d = {}
    for n in SCALARS:
        if draw(st.integers(0, 3)):
            d[n] = draw(_SCALAR_VALUES)
    for n in ("s", "t"):
        if draw(st.integers(0, 5)):
            d[n] = draw(_SEQ_VALUES)
    return d


def datas(n=3):
    """n render-data dicts over the variable pool (some names missing; ``s``/``t`` mostly lists)."""
    return st.lists(data_dict(), min_size=n, max_size=n)


@st.composite
def renamings(draw, prog, extra=()):
    """A bijective renaming of every identifier of the program (and of ``extra`` names, e.g. data keys) to
    identifiers drawn without repetition from the pools of IDENT_CLASSES plus the program's own names (so swaps occur)."""
    ids = sorted(set(identifiers(prog)) | set(extra))
    pool = ALL_IDENTS + ids
    out = {}
    used = set()
    for n in ids:
        j = draw(st.integers(0, len(pool) - 1))
        while pool[j] in used:
            j = (j + 1) % len(pool)
        used.add(pool[j])
        out[n] = pool[j]
    return out
