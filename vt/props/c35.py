"""C35 - errors point at the template line that caused them.

Case (JSON):
  {"tpls": {name: {"ext": parent name | None, "body": [node, ...]}}, "main": name,
   "fault": {"kind": "rt"|"syn", "variant": str},
   "env": {"trim": bool, "lstrip": bool, "async": bool}}
Nodes:
  ["t", text]                              text (may hold \n, \r\n, \r)
  ["ml", variant, lmod, rmod]              benign tag spanning several lines
  ["if"|"for"|"with"|"filter"|"setblock"|"call", lmod, rmod, body]
  ["macro", n, lmod, rmod, body]           definition followed by a call {{ m<n>() }}
  ["block", n, lmod, rmod, body]
  ["include", tname]  ["import", tname]    (the target template holds the fault inside / in macro m)
  ["FAULT", lmod, rmod]                    exactly one in the whole set; single-line tag
The printer computes the source of every template and the (template, line) of the fault tag by
counting line breaks itself (\r\n, \r, \n each count once): independent line arithmetic.
"""
import asyncio
import re
import traceback

from hypothesis import strategies as st

from vt import core

PID = "C35"
LEVEL = "exploration"
RULE = (
    "Hypothesis-generated template sets (main + optional parent / included / imported templates) with exactly one fault "
    "in a single-line tag at a random place inside random nesting (if/for/with/filter/set-block/call-block/macro/block/"
    "include/import/extends), neighbouring tags spanning several lines, '-'/'+' modifiers, all three line-break forms, "
    "trim/lstrip on/off, sync and async. Runtime faults: innermost template frame of the traceback must carry the "
    "faulting template's filename and the fault tag's line; syntax faults: TemplateSyntaxError.lineno/name/filename. "
    "Non-trivial = fault on line >= 3 and (a multi-line tag, a '-'-stripped or \\r-form line break precedes it, or it "
    "sits in a block/macro/call block/included/imported/parent template); distinct = distinct case."
)
ASSUMPTIONS = [
    "the fault tag occupies a single line, so 'the line of the construct' is unambiguous",
    "template line numbers count \\r\\n, \\r and \\n as one line break each (the lexer documents normalising them)",
]

MODS = ["", "-", "+"]
RT_VARIANTS = ["out", "set", "if", "for", "filter", "test", "expr", "attr", "callarg", "elif", "callhead", "recfor",
               "with", "with2", "autoesc", "trans", "trans2", "nsset", "nsset2", "include", "import", "from", "filterblock",
               "setblock", "callblock", "macrodefault"]
SYN_VARIANTS = ["unexpected_end", "unknown_tag", "bad_pipe", "unterminated_str", "missing_expr", "two_names",
                "unknown_filter", "unknown_test", "dup_kwarg", "bad_assign", "stray_end"]

RT_SRC = {
    "out": "{{%s boom() %s}}", "set": "{%%%s set q = boom() %s%%}", "if": "{%%%s if boom() %s%%}x{%% endif %%}",
    "for": "{%%%s for i in boom() %s%%}x{%% endfor %%}", "filter": "{{%s 1|boomf %s}}",
    "test": "{%%%s if 1 is boomt %s%%}x{%% endif %%}", "expr": "{{%s 1 + boom() * 2 %s}}",
    "attr": "{{%s bobj.prop %s}}", "callarg": "{{%s ok(1, boom()) %s}}",
    # "@@" marks where the raising single-line tag starts when the construct spans several lines
    "elif": "{%%%s if false %s%%}a\n\n@@{%% elif boom() %%}b\n{%% else %%}c\n{%% endif %%}",
    "callhead": "@@{%%%s call cbh(boom()) %s%%}\nbody\n\n{%% endcall %%}",
    "recfor": "@@{%%%s for rv in boom() recursive %s%%}\n{{ rv }}\n\n{%% endfor %%}",
    "with": "{%%%s with w = boom() %s%%}x{%% endwith %%}", "with2": "{%%%s with w = 1, w2 = boom() %s%%}x{%% endwith %%}",
    "autoesc": "{%%%s autoescape boom() %s%%}x{%% endautoescape %%}",
    "trans": "{%%%s trans tv=boom() %s%%}{{ tv }}{%% endtrans %%}", "trans2": "{%%%s trans ta=1, tv=boom() %s%%}{{ tv }}{%% endtrans %%}",
    # not a namespace: raises TemplateRuntimeError instead of Boom
    "nsset": "{%%%s set bobj.v = 1 %s%%}", "nsset2": "{%%%s set q1, bobj.v = 1, 2 %s%%}",
    "include": "{%%%s include boom() %s%%}", "import": "{%%%s import boom() as q2 %s%%}", "from": "{%%%s from boom() import q3 %s%%}",
    "filterblock": "{%%%s filter boomf %s%%}x{%% endfilter %%}", "setblock": "{%%%s set q4 | boomf %s%%}x{%% endset %%}",
    "callblock": "{%%%s call boom() %s%%}x{%% endcall %%}", "macrodefault": "{%%%s macro md(a=boom()) %s%%}{{ a }}{%% endmacro %%}{{ md() }}",
}
SYN_SRC = {
    "unexpected_end": "{{%s 1 + %s}}", "unknown_tag": "{%%%s frobnicate %s%%}", "bad_pipe": "{{%s x | %s}}",
    "unterminated_str": "{{%s 'abc %s}}", "missing_expr": "{%%%s if %s%%}x{%% endif %%}", "two_names": "{{%s a b %s}}",
    "unknown_filter": "{{%s x|nosuchfilter %s}}", "unknown_test": "{{%s x is nosuchtest %s}}",
    "dup_kwarg": "{{%s f(a=1, a=2) %s}}", "bad_assign": "{%%%s set 1 = 2 %s%%}", "stray_end": "{%%%s endautoescape %s%%}",
}
ML = [
    lambda l, r, n: "{%%%s set z = [1,%s 2,%s 3] %s%%}" % (l, n, n, r),
    lambda l, r, n: "{#%s%s comment {{ x }}%s%s#}" % (l, n, n, r),
    lambda l, r, n: "{%%%s raw %%}%s{{ raw }} {%% if %%}%s{%% endraw %s%%}" % (l, n, n, r),
    lambda l, r, n: '{{%s "a%sb" %s}}' % (l if l != "+" else "", n, r if r != "+" else ""),
    lambda l, r, n: "{{%s [1,%s2]|length %s}}" % (l if l != "+" else "", n, r if r != "+" else ""),
    lambda l, r, n: "{%%%s if true%s and true %s%%}y{%% endif %%}" % (l, n, r),
    lambda l, r, n: "{%%%s set z2%s=%s 5 %s%%}" % (l, n, n, r),
    lambda l, r, n: "{%%%s%sraw%s%%}{{ r }}{%%%sendraw%s%s%%}" % (l, n, n, n, n, r),
    lambda l, r, n: "{#%s c #}%s{#- d%s#}" % (l, n, n),
]
CALL_HELPER = "{% macro cbh(a=0) %}{{ caller() }}{% endmacro %}"

# ---------------------------------------------------------------------------------------------
# generator

TEXT_ATOMS = ["a", "b c", " ", "  ", "\t", "\n", "\r\n", "\r", "\n\n", " \n ", "\n  ", "x}", "%", "#", "é", "\n\t\n"]
texts = st.lists(st.sampled_from(TEXT_ATOMS), min_size=0, max_size=4).map("".join)
mods = st.sampled_from(MODS)
nls = st.sampled_from(["\n", "\r\n", "\r"])


@st.composite
def _benign(draw):
    k = draw(st.integers(0, 9))
    if k <= 4:
        return ["t", draw(texts)]
    return ["ml", draw(st.integers(0, len(ML) - 1)), draw(mods), draw(mods), draw(nls)]


@st.composite
def _body(draw, depth, want_fault, ctx):
    """ctx: dict(blocks_ok, counter list, tpls dict, allow_sub)"""
    n = draw(st.integers(1, 4))
    out = []
    fault_at = draw(st.integers(0, n - 1)) if want_fault else -1
    for i in range(n):
        out.append(draw(_benign()))
        if i == fault_at:
            out.append(draw(_fault_holder(depth, ctx)))
        elif draw(st.integers(0, 3)) == 0 and depth > 0:
            kind = draw(st.sampled_from(["if", "for", "with"]))
            out.append([kind, draw(mods), draw(mods), draw(_body(depth - 1, False, ctx))])
    out.append(draw(_benign()))
    return out


@st.composite
def _fault_holder(draw, depth, ctx):
    if depth <= 0:
        return ["FAULT", draw(mods), draw(mods)]
    choices = ["FAULT", "if", "for", "with", "filter", "setblock", "call", "macro"]
    if ctx["blocks_ok"]:
        choices.append("block")
    if ctx["allow_sub"]:
        choices += ["include", "import"]
    kind = draw(st.sampled_from(choices))
    if kind == "FAULT":
        return ["FAULT", draw(mods), draw(mods)]
    if kind in ("if", "for", "with"):
        return [kind, draw(mods), draw(mods), draw(_body(depth - 1, True, ctx))]
    if kind in ("filter", "setblock", "call", "macro"):
        inner = dict(ctx, blocks_ok=False)
        if kind == "macro":
            ctx["n"][0] += 1
            return ["macro", ctx["n"][0], draw(mods), draw(mods), draw(_body(depth - 1, True, inner))]
        return [kind, draw(mods), draw(mods), draw(_body(depth - 1, True, inner))]
    if kind == "block":
        ctx["n"][0] += 1
        return ["block", ctx["n"][0], draw(mods), draw(mods), draw(_body(depth - 1, True, ctx))]
    # include / import: the fault moves into a new template
    ctx["n"][0] += 1
    name = "%s%d" % ("inc" if kind == "include" else "lib", ctx["n"][0])
    sub = {"blocks_ok": kind == "include", "allow_sub": depth > 1, "n": ctx["n"], "tpls": ctx["tpls"]}
    if kind == "include":
        ctx["tpls"][name] = {"ext": None, "body": draw(_body(depth - 1, True, sub))}
    else:
        sub["blocks_ok"] = False
        ctx["tpls"][name] = {"ext": None, "body": [draw(_benign()), ["libmacro", draw(mods), draw(mods), draw(_body(depth - 1, True, sub))], draw(_benign())]}
    return [kind, name]


@st.composite
def cases(draw, max_depth=3):
    tpls = {}
    n = [0]
    ctx = {"blocks_ok": True, "allow_sub": True, "n": n, "tpls": tpls}
    shape = draw(st.sampled_from(["plain", "plain", "parent_fault", "child_fault"]))
    depth = draw(st.integers(0, max_depth))
    if shape == "plain":
        tpls["main"] = {"ext": None, "body": draw(_body(depth, True, ctx))}
    elif shape == "parent_fault":
        tpls["parent"] = {"ext": None, "body": draw(_body(depth, True, ctx))}
        tpls["main"] = {"ext": "parent", "body": [draw(_benign()), draw(_benign())]}
    else:
        n[0] += 1
        bn = n[0]
        tpls["parent"] = {"ext": None, "body": [draw(_benign()), ["block", bn, draw(mods), draw(mods), [draw(_benign())]], draw(_benign())]}
        tpls["main"] = {"ext": "parent", "body": [draw(_benign()), ["block", bn, draw(mods), draw(mods), draw(_body(depth, True, ctx))], draw(_benign())]}
    kind = draw(st.sampled_from(["rt", "rt", "syn"]))
    variant = draw(st.sampled_from(RT_VARIANTS if kind == "rt" else SYN_VARIANTS))
    env = {"trim": draw(st.booleans()), "lstrip": draw(st.booleans()), "async": draw(st.booleans())}
    return {"tpls": tpls, "main": "main", "fault": {"kind": kind, "variant": variant}, "env": env}


# ---------------------------------------------------------------------------------------------
# printer with independent line arithmetic

_BREAK = re.compile(r"\r\n|\r|\n")


def count_breaks(s):
    return len(_BREAK.findall(s))


class Printed:
    def __init__(self):
        self.parts = []
        self.fault_offset = None
        self.features = set()

    def add(self, s):
        self.parts.append(s)

    def mark_fault(self):
        self.fault_offset = len("".join(self.parts))


def _print_nodes(nodes, fault, p, inside):
    for nd in nodes:
        k = nd[0]
        if k == "t":
            p.add(nd[1])
        elif k == "ml":
            p.add(ML[nd[1]](nd[2], nd[3], nd[4]))
        elif k == "FAULT":
            p.features.update(inside)
            tmpl = (RT_SRC if fault["kind"] == "rt" else SYN_SRC)[fault["variant"]]
            l, r = nd[1], nd[2]
            if tmpl.startswith("{{"):
                l = "" if l == "+" else l
                r = "" if r == "+" else r
            text = tmpl % (l, r)
            if "@@" in text:
                before, text = text.split("@@", 1)
                p.add(before)
            p.mark_fault()
            p.add(text)
        elif k in ("if", "for", "with", "filter", "setblock", "call"):
            l, r, body = nd[1], nd[2], nd[3]
            head = {"if": "if true", "for": "for lv in [1]", "with": "with wv = 1", "filter": "filter upper",
                    "setblock": "set sb", "call": "call cbh()"}[k]
            tail = {"if": "endif", "for": "endfor", "with": "endwith", "filter": "endfilter", "setblock": "endset", "call": "endcall"}[k]
            p.add("{%%%s %s %s%%}" % (l, head, r))
            _print_nodes(body, fault, p, inside | ({k} if k in ("call", "setblock", "filter") else set()))
            p.add("{%% %s %%}" % tail)
            if k == "setblock":
                p.add("{{ sb }}")
        elif k == "macro":
            _, n, l, r, body = nd
            p.add("{%%%s macro m%d() %s%%}" % (l, n, r))
            _print_nodes(body, fault, p, inside | {"macro"})
            p.add("{%% endmacro %%}{{ m%d() }}" % n)
        elif k == "libmacro":
            _, l, r, body = nd
            p.add("{%%%s macro m() %s%%}" % (l, r))
            _print_nodes(body, fault, p, inside | {"macro"})
            p.add("{% endmacro %}")
        elif k == "block":
            _, n, l, r, body = nd
            p.add("{%%%s block b%d %s%%}" % (l, n, r))
            _print_nodes(body, fault, p, inside | {"block"})
            p.add("{% endblock %}")
        elif k == "include":
            p.add('{%% include "%s" %%}' % nd[1])
        elif k == "import":
            p.add('{%% import "%s" as lib_%s %%}{{ lib_%s.m() }}' % (nd[1], nd[1], nd[1]))
        else:
            raise core.HarnessError("unknown node %r" % (k,))


def print_set(case):
    """-> sources {name: src}, fault template name, fault line, feature set"""
    sources, fault_tpl, fault_line, features = {}, None, None, set()
    for name, t in case["tpls"].items():
        p = Printed()
        if t["ext"]:
            p.add('{%% extends "%s" %%}' % t["ext"])
        p.add(CALL_HELPER)
        _print_nodes(t["body"], case["fault"], p, set())
        src = "".join(p.parts)
        sources[name] = src
        if p.fault_offset is not None:
            if fault_tpl is not None:
                raise core.HarnessError("two faults")
            fault_tpl = name
            before = src[: p.fault_offset]
            fault_line = 1 + count_breaks(before)
            features = set(p.features)
            if re.search(r"\r", before):
                features.add("cr_break")
            if re.search(r"(\r\n|\r|\n)[ \t]*\{[%#{]-", before) or re.search(r"-[%#}]\}[ \t]*(\r\n|\r|\n)", before):
                features.add("stripped_break")
            if any(count_breaks(m) for m in re.findall(r"\{[%#{].*?[%#}]\}", before, re.S)):
                features.add("ml_before")
            if name != case["main"]:
                features.add("other_template")
    if fault_tpl is None:
        raise core.HarnessError("no fault in case")
    return sources, fault_tpl, fault_line, features


class Boom(Exception):
    pass


def _boom(*a, **k):
    raise Boom("boom")


class _BObj:
    @property
    def prop(self):
        raise Boom("prop")


def check_case(case):
    import jinja2

    sources, ftpl, fline, features = print_set(case)
    envo = case["env"]
    fnames = {n: "/vt-fake/%s.html" % n for n in sources}

    def load(name):
        if name not in sources:
            return None
        return sources[name], fnames[name], lambda: True

    env = jinja2.Environment(loader=jinja2.FunctionLoader(load), trim_blocks=envo["trim"], lstrip_blocks=envo["lstrip"],
                             enable_async=envo["async"], cache_size=0, extensions=["jinja2.ext.i18n"])
    env.install_null_translations()
    env.filters["boomf"] = _boom
    env.tests["boomt"] = _boom
    # globals, so that imported (context-free) templates see them too
    env.globals.update({"boom": _boom, "bobj": _BObj(), "ok": lambda *a: "ok", "f": lambda **k: "f"})
    data = {"x": 1, "a": 1, "b": 2}
    kind = case["fault"]["kind"]
    desc = "fault %s/%s expected at %s line %d; env=%r; sources=%r" % (kind, case["fault"]["variant"], ftpl, fline, envo, sources)
    try:
        t = env.get_template(case["main"])
        if envo["async"]:
            asyncio.run(t.render_async(data))
        else:
            t.render(data)
    except jinja2.TemplateSyntaxError as e:
        if kind != "syn":
            raise core.Violation("unexpected TemplateSyntaxError %s (line %s) -- %s" % (e, e.lineno, desc))
        if e.lineno != fline:
            raise core.Violation("TemplateSyntaxError.lineno=%r, offending token is on line %d (%s) -- %s" % (e.lineno, fline, e.message, desc))
        if e.name != ftpl or e.filename != fnames[ftpl]:
            raise core.Violation("TemplateSyntaxError names template %r / file %r, expected %r / %r -- %s" % (e.name, e.filename, ftpl, fnames[ftpl], desc))
    except (Boom, jinja2.TemplateRuntimeError) as e:
        deferred = case["fault"]["variant"] in ("unknown_filter", "unknown_test")
        nsset = case["fault"]["variant"] in ("nsset", "nsset2") and "non-namespace" in str(e)
        if isinstance(e, jinja2.UndefinedError) or (not isinstance(e, Boom) and not deferred and not nsset):
            raise core.Violation("unexpected %s: %s -- %s" % (type(e).__name__, e, desc))
        # an unknown filter/test inside a conditional branch is documented to fail only when reached at runtime
        if kind != "rt" and not deferred:
            raise core.Violation("syntax fault was not detected, template rendered up to a runtime error -- " + desc)
        frames = [f for f in traceback.extract_tb(e.__traceback__) if f.filename in fnames.values()]
        if not frames:
            raise core.Violation("traceback has no template frame -- " + desc)
        inner = frames[-1]
        if inner.filename != fnames[ftpl] or inner.lineno != fline:
            raise core.Violation("innermost template frame is %s line %s, the raising construct is in %s line %d -- %s"
                                 % (inner.filename, inner.lineno, fnames[ftpl], fline, desc))
    else:
        raise core.Violation("no error raised although the template contains a fault -- " + desc)
    nontrivial = fline >= 3 and bool(features)
    labels = ["kind_" + kind, "v_" + case["fault"]["variant"], "async" if envo["async"] else "sync"] + ["f_" + f for f in sorted(features)]
    if fline >= 3:
        labels.append("line>=3")
    return core.Outcome(nontrivial, labels)


def shards(tier):
    return [{"i": i} for i in range(16)]


def run_shard(spec, ctx):
    n = ctx.pick(500, 40000)
    return core.hyp_shard(cases(ctx.pick(3, 4)), check_case, ctx, n)


def floors(total, tier):
    need = ["f_block", "f_macro", "f_other_template", "f_ml_before", "f_stripped_break", "f_cr_break", "kind_syn", "kind_rt"]
    low = [k for k in need if total.labels.get(k, 0) < total.evaluations * 0.03]
    return "classes below 3%%: %s" % low if low else None
