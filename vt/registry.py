"""Registry of claimed checks -> MANIFEST.json (tools/mkmanifest.py)."""

# pid -> dict(category, technique, text, note, design_ref)
CHECKS = {
    "C21": dict(
        category="exploration",
        technique="exhaustive table-driven property test: undefined type x origin x operation x operand x route against a table transcribed from the documentation",
        text="Every cell of the documented operation table (8 undefined types incl. logging variants, 5 origins, ~55 operations in both operand orders, 9 other operands, python and rendered-template routes; 21k cases) is executed in every tier and compared with an independently written expectation table; exhaustive over that finite table, so a deleted operator alias or changed protocol method is found deterministically.",
        note="Trusts the transcription of the docstrings into the table; cells where Python asks the other operand first are not judged.",
        design_ref="DESIGN.md §4 C21",
    ),
}

CHECKS["C35"] = dict(
    category="exploration",
    technique="property-based testing: Hypothesis-generated faulted template sets, oracle = independent line arithmetic on the printed source vs. traceback / TemplateSyntaxError line",
    text="Generated multi-template sets with exactly one runtime or syntax fault in a single-line tag under random nesting, multi-line neighbour tags, whitespace modifiers, three line-break forms, trim/lstrip, sync+async; the harness computes the fault's line by counting line breaks itself and requires the innermost template traceback frame (file and line) or TemplateSyntaxError.lineno/name/filename to match. 8k sets quick, 640k thorough; kills all six line-tracking mutants tried.",
    note="Fault tags are single-line so the expected line is unambiguous; faults inside multi-line tags are not judged.",
    design_ref="DESIGN.md §4 C35",
)
CHECKS["C38"] = dict(
    category="fault_enumeration",
    technique="fault injection over enumerated event points: Hypothesis-generated template sets over instrumented data, every k-th data event raises; oracle = object identity of the propagated exception + clean re-render equality",
    text="For each generated template set (extends, import with and without context, include, macros, call/filter/set blocks, loops) a clean run counts the data events; every event index k (thorough: all; quick: up to 24 spread evenly) is then made to raise a fresh private exception and the exception leaving render/generate/stream/render_async/generate_async must be that very object; afterwards all templates are re-rendered cleanly on the same environment and must equal the clean outputs (catches half-initialised cached modules).",
    note="Exception classes are private subclasses of Exception/ArithmeticError/RuntimeError; the documented lookup signals are never injected. Event order assumed deterministic (verified per case by running the clean render twice).",
    design_ref="DESIGN.md §4 C38",
)

CHECKS["C06"] = dict(
    category="exploration",
    technique="exhaustive enumeration (itertools, 16 shards) of macro signatures x body uses x call shapes against an executable binding specification",
    text="Every signature (<=3 params quick / <=4 + one step thorough, trailing defaults over constant / earlier parameter / outer variable, 8 uses of varargs/kwargs/caller) x 7 call shapes (plain, *list, **dict, both, duplicate through **dict, call block, Python call through the template module) x 0-5 positional and <=3-4 keyword arguments is rendered and compared by text or TypeError with a binding specification written from the docs: 216k cases quick, 3.4M thorough (sync and async). Exhaustive within the bounds, so any off-by-one in Macro.__call__ is found deterministically (11/11 mutants killed).",
    note="Default Undefined; TypeError matched by class; a call block on a macro with kwargs but no caller is not judged (undocumented); source-level duplicate keywords belong to C01.",
    design_ref="DESIGN.md §4 C06",
)
CHECKS["C07"] = dict(
    category="exploration",
    technique="exhaustive enumeration of item sequences x attribute-query selections x iteration masks x 11 iterable forms, plus Hypothesis-generated filtered / else / break-continue / recursive loops, against a direct specification of the loop variable",
    text="Part 1 enumerates all sequences of length 0-4 (0-6 thorough) over 4 values x ordered selections of loop attributes x masks saying on which iterations they are queried, rendered for list/tuple/iterator/generator/sized non-sequence and (async) async-generator forms in sync and async environments; values of all 12 documented attributes and the visited items are computed from the materialised list. Part 2 draws loops with filters, else, break/continue and recursion (depth<=4) and compares with a small reference interpreter. 326k cases quick / 12.9M thorough; 19/19 mutants killed; found F31.",
    note="Iterables are single-use, do not raise, hold small ints; templates assumed stateless across renders (compiled templates are memoised per process).",
    design_ref="DESIGN.md §4 C07",
)
CHECKS["C27"] = dict(
    category="fault_enumeration",
    technique="fault enumeration (every crash point / byte offset of the cache write path, every truncation offset, foreign/stale entries, faulty memcached client) + exhaustive load/modify/clear histories, differential against a cache-less environment",
    text="tempfile/os/open as seen from jinja2.bccache are replaced in-process; every crash point of FileSystemBytecodeCache.dump_bytecode (before/after temp creation, after every byte count, after close, before/after rename; kill and OSError variants; with and without an older entry) leaves a directory snapshot that fresh environments load from; every truncation offset, zero-length, directory-in-place, stale, foreign-name, foreign-magic and trailing-bytes entry; all histories up to length 4 (5-6 thorough) over two environments sharing the directory for 4 equal and 10 differently configured pairs; MemcachedBytecodeCache over a fake client with per-call fault schedules. Oracle: text or exception class + template traceback frames equal a cache-less environment of the loader's configuration on the current source, and any file under an entry's final name is a complete entry. 50k cases quick, 670k thorough; 11/11 mutants killed.",
    note="Both sides run the same compiler; rename assumed atomic (Python-level fault model); F16 (cache key ignores compile-relevant options) is a listed known finding: loads served a differently configured writer's entry are judged only against either configuration's outcome; no corruption inside marshal data (documented unsafe).",
    design_ref="DESIGN.md §4 C27",
)
CHECKS["C28"] = dict(
    category="exploration",
    technique="exhaustive enumeration of path-fragment names + Hypothesis names/loader compositions, judged by a sys.addaudithook recorder and a manifest-based reference resolver",
    text="A sandbox tree with sentinel files next to, above and inside the package but outside the search roots; every name of up to 4 (5 thorough) segments over a 15-symbol alphabet of '..', '.', '', separators, absolute prefixes, drive letters, NUL, Unicode, joined by '/' and '\\', against 10 FileSystemLoader/PackageLoader variants: every open/listdir/scandir audit event in the call window must resolve inside a search root and the returned source / rendered text / filename must equal the reference resolver's answer (or TemplateNotFound). ChoiceLoader/PrefixLoader trees up to depth 3 are compared with a first-match, prefix-stripping resolver through get_source and load. 640k cases quick, 8.7M thorough; 12/12 non-equivalent mutants killed.",
    note="POSIX semantics only; no symlinks or zip packages; reads are visible as audit events; PrefixLoader prefixes contain no delimiter.",
    design_ref="DESIGN.md §4 C28",
)

CHECKS["C25"] = dict(
    category="exploration",
    technique="exhaustive history enumeration + Hypothesis RuleBasedStateMachine against an independent reference model of the template cache",
    text="All histories of get/select/put/delete/loader-swap operations ending in a fetch (2 names x 2 versions up to length 4, 3 names up to length 3-4; thorough +1-2 steps) x cache sizes {0,1,2,-1} x auto_reload on/off x DictLoader / FunctionLoader with and without up-to-date callback / FileSystemLoader with counter-forced mtimes, plus 100-step state-machine runs, against a reference LRU keyed by (loader, name) with per-loader staleness rules. Observed: rendered text or TemplateNotFound, number of compilations (Environment._generate override), cached key set, size bound. 420k histories quick, 9.9M thorough; 11/11 mutants killed.",
    note="The model is nondeterministic only after a failed reload of a deleted template (docs leave the cache state open); compilation counted via _generate; no bytecode cache; mtimes change on every rewrite.",
    design_ref="DESIGN.md §4 C25",
)
CHECKS["C26"] = dict(
    category="exploration",
    technique="exhaustive sequential histories + stateful Hypothesis machine against an OrderedDict model; controlled-schedule concurrency testing (settrace baton scheduler, Hypothesis-drawn pre-emption points) with a brute-force linearizability oracle",
    text="Sequential: every history of <=4 operations (21-operation alphabet incl. copy and pickle, 3 keys, capacities 1-3; thorough <=5 plus pruned 6/7) and 200-step state-machine runs agree with an OrderedDict LRU model step by step. Concurrent: 2-3 threads x 1-3 operations on a pre-populated cache run under a harness-owned scheduler that pre-empts at any line (opcode in thorough) inside LRUCache methods according to a Hypothesis-drawn, shrinkable schedule (<=3/5 pre-emptions), with _wlock replaced by a scheduler-aware lock; each execution must be linearizable w.r.t. the model respecting real-time order, exception-free and deadlock-free. 64k schedules quick, 1.3M thorough. Removing any 'with self._wlock' is found within a few hundred schedules; found F51 (unlocked __contains__).",
    note="Python line/opcode granularity under the GIL; C-level races and free-threading not covered; the lock is the instance attribute _wlock; capacity >= 1.",
    design_ref="DESIGN.md §4 C26",
)

CHECKS["C02"] = dict(
    category='exploration',
    technique='reference-model property test: type-directed Hypothesis expression trees + generated data, minimal-parenthesis printer, independent evaluator',
    text='About 38k trees per quick run (>=46% with precedence-decided grouping; 690k thorough) x 3 contexts: value and type through compile_expression (default, sandboxed, unoptimized) and rendered text (default, async) must equal an independent evaluator of the documented semantics (precedence levels, left-associative **, unary vs **, filters on unaries, comparison chains with in/not in, and/or returning operands, else-less conditional -> undefined, attribute-then-item vs item-then-attribute on probe objects with conflicting tables, undefined propagation, call binding with * and **, 30 filters and 33 tests written from the docs) or both raise the same error class. 9/9 mutants killed; found F28 and F43.',
    note='Docs-to-evaluator transcription; Python operators as the meaning of operator applications; autoescape off; corners the docs leave open are discarded and counted; magnitudes bounded (F19 never executed).',
    design_ref="DESIGN.md §4 C02",
)

CHECKS["C14"] = dict(
    category='exploration',
    technique="round-trip property test (Hypothesis) + exhaustive enumeration of short number spellings, Python's literal_eval as oracle",
    text="String literals over all code points in every escape form, both quote styles and adjacent literals; ints in four bases of either case with underscores; float spellings incl. boundary and non-finite values: each must denote exactly Python's value through compile_expression, direct output and a set block. Every string of length <=4 (quick, 245k) / <=5 (thorough, 5.4M) over 0-9 _ . e E x X o O b B + - that the lexer reads as one number token must be accepted by Python with the same value. 6/6 non-equivalent mutants killed.",
    note='Only valid Python escapes; no raw line breaks inside quotes; |n| < 10**40.',
    design_ref="DESIGN.md §4 C14",
)

CHECKS["C20"] = dict(
    category='exploration',
    technique='reference-model property test with a recording, perturbing SandboxedEnvironment subclass',
    text="Arithmetic-heavy, constant-rich trees in 8 template positions (output, set, if, inline-if, filter argument, call argument, macro default, loop filter) under sampled (quick) / all 512 (thorough) subsets of the 9 interceptable operators, sync and async, optimized or not: the hook log must equal the reference log (same applications, order, operands; nothing for non-intercepted operators) and the rendered text must reflect the hook's perturbed results, so folded or natively compiled applications are caught twice. 56k cases quick, 960k thorough; 4/4 mutants killed.",
    note='Left-to-right operand evaluation as in Python; magnitude-bounded cases only.',
    design_ref="DESIGN.md §4 C20",
)

CHECKS["C08"] = dict(
    category='exploration',
    technique='metamorphic + differential property test: constant lifting and optimized=False on Hypothesis-generated constant-rich templates',
    text='Each generated template (outputs, set, block set, if, for, with, macro defaults, filter sections, nested static and runtime-decided autoescape blocks, Markup constants, 45 filters, 30 tests, ~7% ill-typed operands) is compared with two constant-lifted variants, each under optimized=True/False, each with the runtime autoescape flag true and false, across env autoescape on/off, four finalize modes and three undefined types: all observations must agree on text, or on error class and phase (load vs render). 74% of cases actually fold something (measured by a counting CodeGenerator subclass). 21k cases quick, 324k thorough; found F35, F43, F44.',
    note='Both sides run the current tree (common-mode bugs invisible here, see C15/C16/C02); a variable holding an equal value of the same type is a faithful replacement for a constant; F19 never executed; F36 (finalize/escape order) and F40 (macro eval context across autoescape regions) are listed known findings excluded by construction.',
    design_ref="DESIGN.md §4 C08",
)

CHECKS["C11"] = dict(
    category='exploration',
    technique='exhaustive short-string enumeration + Hypothesis long texts and comment/raw skeletons against an independent round-trip / whitespace model',
    text="Every string of <=4 (quick) / <=5 (thorough, +length 6 over 10 symbols) symbols over a 15-symbol alphabet (letters, lone delimiter characters, space, tab, the three line breaks, Unicode whitespace) containing no delimiter start, under all 6 newline_sequence x keep_trailing_newline settings; Unicode texts up to 2000 characters; comment/raw skeletons with delimiter look-alikes under 6 delimiter sets. Two oracles: the whitespace model, and (no '-' and trimming off) a direct 'comments vanish, raw bodies verbatim' check. 80k cases quick; 6/6 mutants killed.",
    note='Line breaks are exactly \\r\\n, \\r, \\n; no surrogates; comment bodies do not start or end with + or -.',
    design_ref="DESIGN.md §4 C11",
)

CHECKS["C12"] = dict(
    category='exploration',
    technique='Hypothesis tag skeletons x 24 configurations against an independent whitespace-control model plus two model-free invariants',
    text='Skeletons with every modifier combination the grammar allows on block, comment, variable and raw tags, own-line tags, Unicode whitespace, line breaks inside tags, 6 delimiter sets, rendered under all 24 trim x lstrip x newline_sequence x keep_trailing_newline settings and compared with a reference model transcribed from the docs; additionally non-whitespace is never lost and variable-only templates are unaffected by the automatic options. 38k skeletons x 24 quick, 512k thorough; 6/6 mutants killed.',
    note="Model's transcription of the docs; 'whitespace' = str.isspace; lstrip_blocks with whitespace other than space/tab before the tag is not judged (docs and statement differ).",
    design_ref="DESIGN.md §4 C12",
)

CHECKS["C39"] = dict(
    category='exploration',
    technique='Hypothesis skeletons, line skeletons and fragment soups through Environment.lex against the whitespace model and independent line arithmetic',
    text="For skeletons and line-statement skeletons under all 8 trim x lstrip x keep_trailing_newline settings and 6 delimiter sets the token values must tile the normalised source exactly minus the left-removed spans predicted by the C12 model, and each token's lineno must equal 1 + the number of line breaks before it (multi-line tags, strings, comments, raw bodies, blank lines after line statements). Fragment soups that lex are judged by a greedy-alignment oracle (only whitespace may be skipped, only before a '-' token or under lstrip_blocks). 80k cases quick, 1.76M thorough; 6/6 mutants killed.",
    note='Token types are not judged for soups; the atheris target of the design was replaced by the Hypothesis fragment soup.',
    design_ref="DESIGN.md §4 C39",
)

CHECKS["C13"] = dict(
    category='exploration',
    technique='metamorphic / differential property tests over syntax configurations, each render also checked against the whitespace model',
    text='(a) the same skeleton under 6 delimiter sets renders identically; (b) line-statement / line-comment form equals block form under trim+lstrip; (c) Template(...) equals Environment(...).from_string; (d) overlay chains equal a fresh environment with the merged options incl. loader cache and extension binding; (e) isolation: 64-120 environments differing by one option each (more than the 50-entry lexer cache and the spontaneous-environment cache), created fresh / by overlay / by Template(), used in a generated interleaving plus sweeps, every render compared with the model prediction for its own configuration. 48k cases quick; 10/10 mutants killed.',
    note='Whole-line tags are followed by a non-blank line; line comments compared with the {# c +#} spelling (documented: the newline is kept); overlay steps override whole option groups.',
    design_ref="DESIGN.md §4 C13",
)

CHECKS["C33"] = dict(
    category='exploration',
    technique='property-based test with a reference renderer for trans blocks and a recording validity check for extraction',
    text='Generated templates of 1-3 translatable items (trans blocks with declared/free variables, pluralize with implicit/explicit count, context, trimmed/notrimmed/policy, bodies with literal %, %(x)s, braces, markup, line breaks; direct _/gettext/ngettext/pgettext/npgettext calls) rendered with recording identity translations in old and new gettext style x autoescape off/on under default or alternative delimiters and trim_blocks: output must equal the source text with variables substituted (values escaped, text not), trimmed as documented, singular iff count == 1; every logged call must use the right function, context and count and its message must be among extract_from_ast / babel_extract results for the same options at a plausible line. 40k cases quick, 800k thorough; 20/20 mutants killed incl. reverting F13.',
    note='Identity translations; blanks are space/tab/\\n; no whitespace-control markers inside trans blocks; % vs %% spelling of a logged block message not prescribed.',
    design_ref="DESIGN.md §4 C33",
)

CHECKS["C34"] = dict(
    category='exploration',
    technique="property-based test against a reference native_concat (Python's ast.literal_eval)",
    text='Three families of native templates: single output expressions over random values (literal-looking strings, bytes, Markup, non-literal objects, undefined); the repr of a random Python literal or near-literal, optionally damaged/padded, cut into pieces rendered as text, variable, constant or through if/for/macro; random piece trees; plus 165 enumerated fixed cases. Each runs under NativeEnvironment.render, async-environment render and render_async, and a sandboxed native environment; expected: None for no output, the identical object for one non-string piece, the literal value of the concatenated text when literal_eval(parse(text)) succeeds, the text otherwise; compared by exact type and value. 80k cases quick, 1.28M thorough; 9/9 non-equivalent mutants killed incl. reverting F14/F15.',
    note="'Single node' decided at run time; macros return native values (repo test_macro); no finalize configured; text avoids \\r and delimiter starts.",
    design_ref="DESIGN.md §4 C34",
)

CHECKS["C36"] = dict(
    category='fault_enumeration',
    technique='property-based fault enumeration: every consumer-stop, cancel and data-error point of Hypothesis-generated async template sets, judged with sys.set_asyncgen_hooks',
    text='For each generated async template set (extends chains, nested/scoped blocks with super(), includes with/without context, imports, macros, call blocks, loops over lists / async generators / async iterators, filtered loops) a dry run counts chunks, suspension points and data calls; every fault point becomes a case: consumer aclose() after k chunks, CancelledError at suspension k (own coroutine runner plus a real asyncio task for a subset), the j-th data call raising, and complete runs. Every async generator whose code belongs to a compiled template or jinja2 must be finished when the render/consumer has finished; no warning or unraisable exception after gc.collect(). 850k fault points over 16k template sets quick, 12M thorough; 6/6 mutants (each aclose site, aclosing) killed.',
    note='Awaits suspend only at harness points; data-supplied and lazy-filter generators are not judged; F26 (loop-filter generator t_N left open when the fault lands in the body of a filtered loop) is a listed known finding, those points are excluded by construction and counted.',
    design_ref="DESIGN.md §4 C36",
)

CHECKS["C37"] = dict(
    category='exploration',
    technique='differential schedule exploration: exhaustive gate-release orders (plus random long orders) of 2-3 concurrent asyncio renders vs. solo renders',
    text="2-3 asyncio tasks render generated templates on one environment (shared cached macro library with gates in the module body and in macros, call blocks, shared parent and includes, per-template globals, loop state, namespaces, cyclers, joiners, autoescape blocks); every await goes through a harness gate; all release orders up to length 6/5 (quick) or 8/7 (thorough) are enumerated per set plus random orders of up to 30 releases; each task's output must equal the same template rendered alone on a fresh environment. 230k schedules quick, 4M thorough; 7/7 non-equivalent seeded state leaks killed.",
    note='Tasks interleave only at gates; both sides run the same implementation.',
    design_ref="DESIGN.md §4 C37",
)

CHECKS["C01"] = dict(
    category='exploration',
    technique='exhaustive short-string enumeration + grammar-based generation + token-level mutation (+ atheris coverage-guided fuzzing in thorough) with a validity-predicate oracle',
    text="For each (environment, source) the entry points env.lex, env.parse, env.compile(raw=True) followed by Python's compile, and env.from_string must each return or raise TemplateSyntaxError/TemplateAssertionError with an int lineno in 1..1+line breaks, and must agree with each other; anything else (other exception type, generated code Python rejects) is a violation. Seven environments (default, custom delimiters, line statements, trim+lstrip, async, sandboxed, four extensions); streams: every concatenation of <=3 (thorough <=4, default env, 14.8M) fragments from a 62-fragment alphabet, a byte-driven grammar printer with a trouble-biased identifier pool, 15 kinds of token-level mutation over grammar output and 682 repository seed templates, and in thorough an atheris target (200k runs). 1.8M cases quick. Found F38/F46, F41/F52 and F37; 6/6 source mutants killed; every fixed C01 defect replays as a violation on the pinned snapshot.",
    note="Inputs <=400 chars, no lone surrogates, NFKC-normalised (F37 known); block nesting <15, expression nesting <30, operator chain <40 (F2 known: CPython limits); bounded numeric magnitudes (F19 unbounded folding known, never executed); 'never hangs' decided by those size bounds plus a 60 s watchdog that only yields exit 2.",
    design_ref="DESIGN.md §4 C01",
)

CHECKS["C04"] = dict(
    category='exploration',
    technique='property-based test: Hypothesis-generated inheritance chains (JSON IR) against an independent inheritance resolver',
    text='Chains of up to 5 templates and 5 block names with nested, scoped, unscoped and required blocks, super / super.super / self.x, static / conditional / variable / Template-object / if-wrapped extends, stray child output, loops, includes, call and filter blocks, assignments and macros, child blocks inside if/for/with/set-block; every chain member is rendered in sync and async mode and compared with a reference resolver that never imports jinja2: exact text, or error family (TemplateRuntimeError for an un-overridden required block, UndefinedError for a called super beyond the root). 38k cases quick, 576k thorough; 13/13 mutants killed; found F30, F32, F42.',
    note='Shared leaf-first context model (DESIGN §3.3, probe-validated); shapes the docs leave undefined are discarded or never generated (derived-context reads through self.b(), multi-level or unreachable required, inner-scope reads of later-assigned names); errors compared by family only.',
    design_ref="DESIGN.md §4 C04",
)

CHECKS["C05"] = dict(
    category='exploration',
    technique='property-based test: Hypothesis-generated library/user template sets against an independent context-propagation and module-export model',
    text='Sets of 1-3 libraries and 1-2 user templates; libraries print visibility probes and define public and _private assignments and macros at top level and under if/for/with/set-block, nested imports/includes and own-name-then-import collisions; include and import in every flag and target form (with/without context, ignore missing, name lists with missing first entries, names / lists / Template objects in variables, missing and broken targets) at top level and inside for/with/macro/set-block/call/filter scopes whose locals overlap context and globals. Rendered in sync and async mode and compared with the reference model; make_module(data) export names, scalar values and body text compared for every template. 21k cases quick, 288k thorough; 14/14 mutants killed; found F29.',
    note='DESIGN §3.4 model; only environment globals; closure and inner-scope reads of later-assigned names are discarded (~1.4%).',
    design_ref="DESIGN.md §4 C05",
)

CHECKS["C09"] = dict(
    category='exploration',
    technique='differential property-based test: the same case in two environments differing only in enable_async',
    text='Hypothesis draws cases of four families over the shared G-stmt, G-expr, G-inherit and G-modules generators plus a pipeline generator covering every filter with an async variant, custom async filters and tests, and for-loop features; each case runs in paired environments of class Environment / SandboxedEnvironment / ImmutableSandboxedEnvironment / NativeEnvironment, autoescape on or off, the async side optionally given coroutine functions, async generators, awaitable attributes and async methods producing the same results. Entry points render, render_async, generate, generate_async and make_module vs make_module_async; oracle: identical text (native: identical value and type) or an exception of exactly the same class. 32k cases quick, 390k thorough; 25/25 non-equivalent mutants killed; found F45.',
    note='A defect common to both modes is invisible here (covered by the reference-model properties); excluded, counted known classes: F27 (lazy filter result into a sync-only consumer), F41 (eager async unique/slice when their input raises), F53 (native sync render stringifies outputs while the template is still running); data showing object addresses or non-terminating programs are discarded.',
    design_ref="DESIGN.md §4 C09",
)

CHECKS["C22"] = dict(
    category='exploration',
    technique='property-based test: generated (filter, sequence, call shape) triples against executable specifications written from the docstrings, plus agreement between all invocation routes',
    text='21 collection filters on 0-12-element inputs with frequent duplicate and case-variant keys (ints, strings incl. Markup, tuples; raw or inside dicts, objects, nested), positional and keyword arguments: the result must equal the documented partition, order, selection or aggregate, identically through call_filter and a rendered template, in sync and async environments, for list, tuple, generator and async-generator inputs; inputs and arguments are deep-compared before and after. 112k cases quick, 1.7M thorough; 15/15 non-equivalent mutants killed incl. reverting F8, F11, F45.',
    note='Spec transcription (vt/ref/filterspec.py never imports jinja2.filters); keys in one input mutually comparable; min/max tie choice unspecified; async generators only for async-aware filters (anything else is the F27 class).',
    design_ref="DESIGN.md §4 C22",
)

CHECKS["C23"] = dict(
    category='exploration',
    technique='property-based test: generated values and arguments for 18 string and number filters, each judged by an exact specification or a two-directional validity predicate',
    text='Strings from chunk pools (long and hyphenated words, all line-break variants, Unicode whitespace, markup, Markup instances), numbers from 0, huge, non-finite, bools, None, containers and ~50 numeric spellings, lengths and widths around the boundary, through call_filter and templates, sync and async: truncate length/leeway/ellipsis arithmetic, wordwrap losslessness and width, indent first/blank rules, case filters, replace, format, striptags, urlencode, filesizeformat units, round directions and the never-raise/default contract of int and float. 144k cases quick, 2.1M thorough; 18/18 mutants killed incl. reverting F9/F10.',
    note='Documented preconditions (length >= len(end), width >= 1); explicitly listed undefined zones accepted either way (whitespace-only lines, case after punctuation, in-word joiners, unit boundaries); round has a float-rounding tolerance.',
    design_ref="DESIGN.md §4 C23",
)

CHECKS["C24"] = dict(
    category='exploration',
    technique='property-based / adversarial fuzz test with harness-side strict tokenizers, round trips and tracer tokens',
    text='tojson output has none of < > & \', is Markup and json.loads back to the value; xmlattr output re-parses with an HTML-attribute tokenizer to exactly the non-None items (keys/values equal after one unescape), keys with ASCII whitespace, /, > or = raise ValueError and no other key does; urlize output tokenises into text without raw < > " \' and well-formed anchors (whitespace-free href that is a prefix-completed part of an input word, escaped rel/target, text preserved, canonical URLs linked); escape/forceescape equal the MarkupSafe mapping; for indent, replace, join, format, truncate, wordwrap under autoescape no tracer token from a plain value or argument reaches the output unescaped. 72k cases quick, 1.06M thorough; 19/19 non-equivalent mutants killed incl. reverting F24.',
    note='Inputs to urlize and xmlattr are plain strings (Markup is trusted by design); valid extra_schemes; over-escaping of safe arguments is not judged.',
    design_ref="DESIGN.md §4 C24",
)

CHECKS["C17"] = dict(
    category='exploration',
    technique='grammar-based adversarial fuzzing (enumerated core + Hypothesis draws) of sandbox escape attempts against tracer/sentinel probe objects, plus an AST check of the generated Python',
    text='31 access primitives (dot, subscript, |attr, attribute arguments of map/select/sort/groupby/unique/sum/min/max/join, dotted and comma paths, str.format / format_map / Markup.format field paths, stored bound format methods, ...) x ~50 engine and 30 data receivers x their private/internal names (dir()-introspected plus a dunder list; mro, gi_*, cr_*, ag_* and code/frame/traceback attributes) x ~25 consumptions x SandboxedEnvironment/ImmutableSandboxedEnvironment x sync/async x autoescape: no private or internal attribute value may be used, printed or found defined (tracer records every dunder use; internals carry a sentinel); outcome must be output, SecurityError or UndefinedError; the compiled code of every program and of broad statement programs may contain no ast.Attribute rooted outside the surveyed internal names. A control render in an unsandboxed Environment proves each probe is live. 86k cases quick, 1.2M thorough; 15/15 mutants killed.',
    note='Property getters may run during lookup; container items are not attributes; the allowed-root list reflects the current code generator; public-but-internal classification hardcoded in the harness (not read from the code under test).',
    design_ref="DESIGN.md §4 C17",
)

CHECKS["C18"] = dict(
    category='exploration',
    technique='enumerated and Hypothesis-drawn call-path programs with recording callables, reachability-by-construction oracle, AST check that template values are never called directly',
    text='61 call paths (direct, attribute, set/with alias, macro argument, caller, loop variable, list/dict element, filter/test argument then call, call-block target, macro default, ...) x 21 callable spellings (@unsafe, alters_data, rejected by an overridden is_safe_callable, safe) x 6 argument shapes x 9 reachability wrappers x default/overriding is_safe_callable x sync/async: an unsafe callable is never invoked (recorder log empty), SecurityError is raised exactly when its site is reached, safe callables at reached sites are invoked. 45k cases quick, 1.9M thorough (full product); 6/6 mutants killed.',
    note='Reachability is known from the wrapper; functools.partial-style wrappers that hide the marking and harness filters that call their argument are out of scope.',
    design_ref="DESIGN.md §4 C18",
)

CHECKS["C19"] = dict(
    category='exploration',
    technique='complete enumeration of dir() of list/dict/set/deque x argument shapes x routes and of every built-in filter x container values, plus Hypothesis-drawn nested containers, with a deep before/after comparison of the context',
    text="Every public and dunder method name of the four exact builtin types (computed from the running interpreter) x 24 argument shapes x 18 routes (direct, alias, |attr, map('attr'), format lookups, ...) x sync/async, and every built-in filter x 11 container values x single-argument variations over its signature, in ImmutableSandboxedEnvironment: a deep snapshot of the context (exact types, order, deque maxlen) must be unchanged, mutating calls end in output, SecurityError or UndefinedError, and every documented mutator is seen mutating in plain Python (generator floor). 298k cases quick, 2.3M thorough; 9/9 mutants killed incl. reverting F6/F7, F8, F34; found F34.",
    note='Only exact builtin types are in the context; filters given nonsense arguments may raise ordinary exceptions (the data comparison runs regardless).',
    design_ref="DESIGN.md §4 C19",
)

CHECKS["C29"] = dict(
    category='exploration',
    technique='differential-in-time property test with deep input snapshots: generated interleaved render histories vs. first isolated render, plus a thread stress part',
    text="Generated fragment / G-stmt / template-set cases (container-argument filters incl. sum(start=list), default, batch/slice fill values, sort, map, groupby, unique, reverse, list, items, dictsort, copy-then-mutate, namespaces, cyclers, joiners, loop state, cached and with-context imports): every step of a generated interleaved history (>=3 renders per template over 8 sync / 7 async entry points and 2 data assignments) must equal that template's first render on a fresh environment, and after every step deep snapshots of data, environment globals and every template's globals must be unchanged; 15% of cases repeat the steps from 8-16 threads with setswitchinterval(1e-6) (reports overlapping renders and observed switches). 4.5k histories quick, 51k thorough; 9/9 non-equivalent mutants killed incl. F8.",
    note='Templates only call methods on objects they created themselves; errors compared by class, object addresses normalised; the thread part explores schedules only by chance; F54 (top-level mutable objects of a cached imported module are shared between renders) is a listed known finding excluded by construction.',
    design_ref="DESIGN.md §4 C29",
)

CHECKS["C31"] = dict(
    category='exploration',
    technique='differential property-based test: compile_templates + ModuleLoader vs. DictLoader on Hypothesis-generated template sets',
    text='Generated sets (G-inherit hierarchies or G-modules sets, optional G-stmt program with an importing wrapper, feature snippets, names renamed to path-like / non-ASCII / brace names) are compiled with compile_templates in all three zip modes into a per-case scratch target and loaded through ModuleLoader in 7 forms (str / Path / list / empty first dir / split targets / ChoiceLoader before or after a source loader), sync and async, with drawn options (autoescape, sandbox, immutable sandbox, optimized off, finalize, cache off, undefined types, i18n): every template x 2 data assignments must give the same text or exception class as a DictLoader environment with identical options, the same make_module exports and block names; also one tmpl_<sha1>.py per selected template, ignore_errors semantics, no sys.modules leak. 5.1k sets quick, 58k thorough; 5/5 design mutants + 4 more killed.',
    note='Both sides share the environment options; blind to bugs common to both paths.',
    design_ref="DESIGN.md §4 C31",
)

CHECKS["C03"] = dict(
    category='exploration',
    technique='Hypothesis-generated statement programs vs. an independent chain-of-scopes reference interpreter, alpha-renaming metamorphic check, exhaustive two-identifier non-aliasing enumeration, differential across 4 environments',
    text='About 10k generated programs per quick run (120k thorough) over a shared 6-name pool built from if/for/else/loop filter/recursive/break/continue/set/block set/namespace/with/macro/call/filter constructs, each rendered on 3 data dicts in the default, async, sandboxed and unoptimized environments: all renderings must match the reference interpreter on the decided subset (incl. error family), and each program re-rendered after a random bijective renaming into ASCII, Python-keyword, generated-code-like (l_0_x, t_1, context, ...), dunder and NFKC-stable Unicode identifiers must give identical output; 21.7k (quick) to 260k (thorough) enumerated ordered identifier pairs x 12 two-name program shapes check that no two distinct spellings share a variable. 8/8 non-equivalent scoping mutants killed; found F31 independently.',
    note="The interpreter's reading of the documented scoping rules; declined and counted classes: F38 (a nested scope reading a name the enclosing scope assigns only later ignores the outer binding - listed known finding), F1 (NFKC-unstable identifiers alias - known), and shapes the docs leave undefined (break/continue in buffering blocks, macros as values, ...); depth <=5/6, <=60 statements.",
    design_ref="DESIGN.md §4 C03",
)

CHECKS["C10"] = dict(
    category='exploration',
    technique='differential over rendering entry points + validity predicate for buffered chunking on Hypothesis-generated template sets',
    text='For about 6.7k (112k thorough) DictLoader sets (G-stmt programs alone, interleaved with include/import/from-import, or as block bodies of 2-3 level extends chains) with data chosen so that some pieces are empty or non-ASCII, in a sync and an async environment: generate, stream, buffered streams with sizes 2..8, dump to path / BytesIO / StringIO / write-only object with 11 codec and error-handler pairs incl. BOM codecs, make_module, __html__, template.module, render_async, generate_async, make_module_async must all equal render, and every buffered chunk except the last must combine exactly `size` non-empty pieces of generate(). 7/7 mutants killed incl. reverting F39.',
    note='generate() defines the pieces and render the reference text, so a bug common to all entry points is invisible here (C02-C05 cover that); when render raises, all entry points must raise the same exception type.',
    design_ref="DESIGN.md §4 C10",
)

CHECKS["C30"] = dict(
    category='exploration',
    technique='differential property test across processes: Hypothesis-generated template sources compiled under 7 PYTHONHASHSEED values x 2 compilations, byte-for-byte comparison, delta-debugging of mismatches',
    text="Seven source streams (renamed G-stmt programs, templates of G-inherit and G-modules sets, local scoping shapes, dense templates with 3-8 stores in one frame / filter-test chains / trans blocks with >=3 free variables, G-expr trees, srcgen grammar sources) compiled with Environment.compile(raw=True) twice in 7 fresh processes (PYTHONHASHSEED 0-5, 12345) under drawn environment options; all 14 generated sources must be identical. Batched per shard (one subprocess per seed, digests compared; a mismatch is re-run alone with full sources and a diff, then delta-debugged). 19.8k templates quick, 320k thorough; 5/5 'remove sorted' mutants incl. the F25 revert killed in every shard; found F50.",
    note="Determinism judged on the raw generated source; 7 hash seeds stand for 'any'; compile errors compared by class; F50b (address-bearing object turned into text by a foldable operation) is a listed known finding excluded by predicate.",
    design_ref="DESIGN.md §4 C30",
)

CHECKS["C32"] = dict(
    category='exploration',
    technique='property-based subset test with a recording Environment (context_class records lookups by owner template, join_path records loads) against jinja2.meta',
    text='Four streams of template sets (G-stmt programs, G-inherit hierarchies, G-modules include/import sets, a local generator of scoping shapes: branch stores, loop stores, macro defaults, with-bindings referring to the outer name, tuple targets, import names, dynamic template names via variables / conditionals / lists / expressions) rendered on several data assignments: per template, observed context lookups must be a subset of find_undeclared_variables(parse(T)) plus env.globals, and every observed load must be among find_referenced_templates(parse(T)) or that iterator yields None; for G-stmt programs the names the reference interpreter reads from the render data must also be reported. 38k sets quick, 400k thorough; 6/6 meta/idtracking mutants killed.',
    note="Owner of a lookup = first calling frame outside jinja2/runtime.py (a parent template's code runs with the child's context); lookups made by Python callables are not the template's; environment globals exempt; over-approximation only (extra reported names are fine).",
    design_ref="DESIGN.md §4 C32",
)

CHECKS["C15"] = dict(
    category='exploration',
    technique='property-based output scan + tracer tokens over Hypothesis-generated template sets with metacharacter-rich data under every way autoescaping can be active',
    text='Template text and identifiers are metacharacter-free; every data string and string literal is rich in < > " \' &, pre-escaped look-alikes and a unique token; programs combine every built-in filter (data-controlled arguments), operators ~ + * %, string methods, macros, caller, call/filter/set blocks, blocks with super()/self, recursive loops, includes, imports (escgen + sanitised tsets). Each case renders with autoescaping active in one of six modes (static; select_autoescape by name incl. upper-case extensions; string template; {% autoescape true %} regions; runtime flag; macros defined outside the region). Oracle: strict harness-side grammars for the markup urlize and xmlattr emit, tojson bracketed through the documented dumps policy and validated, any remaining raw < > " \' is a leak, plus an & neighbourhood rule for tracer tokens in programs that never cut strings. 22k cases quick, 240k thorough; 11/11 non-equivalent mutants killed incl. reverting F24 and F35; found F35, F47, F48, F49.',
    note='Explicit safe marking is never generated; F48 (filter sections / block-set filters emit plain results of default/join/wordwrap/striptags raw) and F49 (blocks inside autoescape regions) are listed known findings excluded by construction and counted; over-escaping is invisible here by design (C16).',
    design_ref="DESIGN.md §4 C15",
)

CHECKS["C16"] = dict(
    category='exploration',
    technique='metamorphic / differential property test: autoescape on then unescape-once must equal autoescape off, on escaping-neutral generated programs',
    text="Three generators (escgen in neutral mode, C03's G-stmt after a conservative taint rewrite, C04/C05's tsets) with data rich in metacharacters and pre-escaped look-alikes; each case renders with autoescaping on (same six modes as C15) and off and requires unescape5(on) == off (a single-pass inverse of exactly the five entities MarkupSafe emits), the same exception class and the same partial output, across macro, call block, block reference, set block, filter section, recursive loop, include, import and module boundaries. 18k cases quick, 187k thorough; 9/9 non-equivalent mutants killed (return_buffer_contents, visit_AssignBlock, BlockReference.__call__, TemplateModule.__html__, Macro.__call__/_invoke, markup_join, join).",
    note='Both sides run the current tree; the premise restrictions of DESIGN §4 C16 hold by construction; F5 (volatile ~ escapes a rendered fragment twice) and F55 (~ / join / |string over a TemplateModule escape the module body a second time) are listed known findings excluded by construction.',
    design_ref="DESIGN.md §4 C16",
)

NOT_YET = "check not built yet in this session (see DESIGN.md §8 for the order of work)"
