#!/bin/sh
# run the repository's pinned suite (guard off) and print the summary line
cd /repo && /venv/bin/python -m pytest -q -p no:cacheprovider --timeout=900 --continue-on-collection-errors -x -q 2>&1 | tail -3
