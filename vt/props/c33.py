"""C33 - translation blocks render like their source text and are fully extractable.

Case (plain JSON):
    {"cfg": {"policy_trimmed": bool, "trim_blocks": bool, "delims": "default" | "alt"},
     "styles": [[newstyle, autoescape], ...],
     "prefix": text, "items": [item, ...], "data": {name: enc}}

    item := {"t": "trans", "ctx": None | str, "trim": None | "trimmed" | "notrimmed",
             "decls": [[name, expr], ...], "sing": [seg, ...], "plur": None | [seg, ...], "pvar": None | name, "after": text}
          | {"t": "call", "fn": "_" | "gettext" | "ngettext" | "pgettext" | "npgettext", "ctx": str (p*), "msg": marg,
             "plural": marg (n*), "n": nexpr (n*), "kw": {placeholder: data name}, "auto_num": bool, "after": text}
    seg  := {"s": text} | {"v": name} | {"v": "num", "d": true}   (the last only in call messages: %(num)d)
    marg := {"segs": [seg, ...]} (a constant message) | {"n": data name} (a non-constant message)
    expr := {"k": "short"} | {"k": "var", "n": name} | {"k": "const", "v": int | str} | {"k": "len", "n": name}
          | {"k": "call", "n": name} | {"k": "safe", "n": name} | {"k": "default", "n": name, "d": str} | {"k": "attr", "n": name, "a": key, "sub": bool}
    nexpr := {"k": "var", "n": name} | {"k": "const", "v": int}
    enc  := str | int | float | bool | None | [str, ...] | {"$": "markup", "v": str} | {"$": "dict", "v": {key: enc}}

Oracle: (R) a reference renderer written from docs/templates.rst (i18n) and docs/extensions.rst (new-style gettext):
the block text with every {{ v }} replaced by the value (escaped under autoescape unless it is markup; the
template text itself never escaped), trimmed as documented, singular iff count == 1; (V) the log of the recording
identity gettext functions: one call per item, the function selected by context / plural, the documented
%(name)s placeholder form, and every logged message is among the messages of extract_from_ast(parse(src)) (through
Environment.extract_translations) and of babel_extract(...) run with the same options.
"""
import io
import re

from vt import core

PID = "C33"
LEVEL = "exploration"
RULE = (
    "Hypothesis-generated templates of 1-3 items (trans blocks with 0-3 declared variables bound to names / constants / "
    "filters / calls / attributes, 0-4 referenced variables declared or free, optional pluralize with implicit or explicit "
    "count variable incl. one literally named num, context strings, trimmed / notrimmed modifiers and the ext.i18n.trimmed "
    "policy; direct _ / gettext / ngettext / pgettext / npgettext calls with constant and non-constant messages) over text "
    "fragments with %, %s, %(x)s, braces, markup, blanks and line breaks; each case is rendered with recording identity "
    "translations in old and new gettext style x autoescape off/on, items optionally inside {% autoescape %} blocks with a "
    "constant or context-computed setting, under default or alternative delimiters and "
    "trim_blocks, and extracted with extract_from_ast and babel_extract. Non-trivial = an item whose text has a literal % or brace, or a plural, or a "
    "context string, or a declared-but-unreferenced variable; distinct = distinct serialised case."
)
ASSUMPTIONS = [
    "identity translations: gettext returns its message, ngettext the singular iff n == 1 (as gettext.NullTranslations does)",
    "the count is the explicitly named pluralize variable, else the first variable declared in the tag, else the first variable used in the singular body (docs: 'the first variable in a block')",
    "blank characters are space, tab and \\n only (other Unicode blanks and \\r are C11/C12 territory); text avoids delimiter starts",
    "old-style direct calls return plain strings (escaped as a whole under autoescape); new-style calls mark the message safe and escape parameters (docs/extensions.rst)",
    "the literal-% spelling of a logged block message (% or %%) is not prescribed, only that rendering reproduces the text; placeholders are %(name)s as documented",
    "keep_trailing_newline=True so that text after the last tag is emitted verbatim",
    "line numbers: a direct call is reported on its own line, a block somewhere between its trans tag and its endtrans tag",
]

ALL_STYLES = [[False, False], [False, True], [True, False], [True, True]]
DELIMS = {
    "default": ("{%", "%}", "{{", "}}", "{#", "#}"),
    "alt": ("<%", "%>", "${", "}", "<#", "#>"),
}
# an item may sit in {% autoescape <expr> %}...{% endautoescape %}: constant or computed from the context variable "flag"
AE_EXPR = {"true": "true", "false": "false", "flag": "flag", "notflag": "not flag"}
NAME_POOL = ["num", "count", "user", "n", "x", "context", "name", "items"]
RESERVED = {"trimmed", "notrimmed", "_", "gettext", "ngettext", "pgettext", "npgettext", "ident", "_trans"}

_state = {}


def _setup():
    if _state:
        return _state
    import jinja2
    from jinja2 import ext
    from markupsafe import Markup

    _state.update(jinja2=jinja2, ext=ext, Markup=Markup)
    return _state


class _Undef:
    def __str__(self):
        return ""

    def __eq__(self, other):
        return isinstance(other, _Undef)

    def __hash__(self):
        return 1


UNDEF = _Undef()


def ident(x):
    return x


def dec(e):
    if isinstance(e, dict):
        if e["$"] == "markup":
            return _setup()["Markup"](e["v"])
        if e["$"] == "dict":
            return {k: dec(v) for k, v in e["v"].items()}
        raise core.HarnessError("bad tag %r" % (e,))
    if isinstance(e, list):
        return [dec(x) for x in e]
    return e


def ref_escape(s):
    return s.replace("&", "&amp;").replace("<", "&lt;").replace(">", "&gt;").replace("'", "&#39;").replace('"', "&#34;")


def show(v, autoescape):
    """Text a value contributes to the output of a formatted message."""
    if v is UNDEF:
        return ""
    if not autoescape:
        return str(v)
    if isinstance(v, _setup()["Markup"]):
        return str(v)
    return ref_escape(str(v))


# ---------------------------------------------------------------------------------------
# text hygiene


def text_ok(s, delims):
    bs, _, vs, _, cs, _ = DELIMS[delims]
    if any(d in s for d in (bs, vs, cs)) or "\r" in s:
        return False
    if any(ch.isspace() and ch not in " \t\n" for ch in s):
        return False
    return not (s and s[-1] in (bs[0], vs[0], cs[0]))


def sanitize(s, delims):
    bs, _, vs, _, cs, _ = DELIMS[delims]
    starts = (bs, vs, cs)
    out = []
    for i, ch in enumerate(s):
        out.append(ch)
        nxt = s[i + 1] if i + 1 < len(s) else None
        if any(ch == d[0] and (nxt is None or nxt == d[1]) for d in starts):
            out.append(" ")
    return "".join(out)


def jstr(s):
    """A Jinja string literal denoting s (ASCII / Latin text, python-style escapes)."""
    return "'" + s.replace("\\", "\\\\").replace("'", "\\'").replace("\n", "\\n").replace("\t", "\\t") + "'"


# ---------------------------------------------------------------------------------------
# source printer


def _decl_src(name, e):
    k = e["k"]
    if k == "short":
        return name
    if k == "var":
        return "%s=%s" % (name, e["n"])
    if k == "const":
        return "%s=%s" % (name, jstr(e["v"]) if isinstance(e["v"], str) else "%d" % e["v"])
    if k == "len":
        return "%s=%s|length" % (name, e["n"])
    if k == "call":
        return "%s=ident(%s)" % (name, e["n"])
    if k == "safe":
        return "%s=%s|safe" % (name, e["n"])
    if k == "default":
        return "%s=%s|default(%s)" % (name, e["n"], jstr(e["d"]))
    if k == "attr":
        return ("%s=%s[%s]" % (name, e["n"], jstr(e["a"]))) if e.get("sub") else "%s=%s.%s" % (name, e["n"], e["a"])
    raise core.HarnessError("bad decl expr %r" % (e,))


def _msg_const(segs, doubled):
    out = []
    for s in segs:
        if "s" in s:
            out.append(s["s"].replace("%", "%%") if doubled else s["s"])
        else:
            out.append("%%(%s)%s" % (s["v"], "d" if s.get("d") else "s"))
    return "".join(out)


def _nexpr_src(n):
    return n["n"] if n["k"] == "var" else "%d" % n["v"]


def _call_uses_format(item):
    return any("v" in s for m in (item["msg"], item.get("plural")) if m and "segs" in m for s in m["segs"])


def _marg_src(m, doubled):
    return jstr(_msg_const(m["segs"], doubled)) if "segs" in m else m["n"]


def build_source(case, newstyle):
    """-> (source, spans) with spans[i] = (first line, last line, line of the tag) of item i."""
    delims = case["cfg"]["delims"]
    bs, be, vs, ve, _, _ = DELIMS[delims]
    parts = [case["prefix"]]
    if not text_ok(case["prefix"], delims):
        raise core.Discard()
    spans = []

    def lines_so_far():
        return "".join(parts).count("\n") + 1

    for item in case["items"]:
        first = lines_so_far()
        if item.get("ae"):
            if item["ae"] not in AE_EXPR:
                raise core.Discard()
            parts.append("%s autoescape %s %s" % (bs, AE_EXPR[item["ae"]], be))
        if item["t"] == "trans":
            head = ["trans"]
            if item["ctx"] is not None:
                head.append('"%s"' % item["ctx"])
                if any(c in item["ctx"] for c in "\"\\\n\r"):
                    raise core.Discard()
            if item["trim"]:
                head.append(item["trim"])
            names = [n for n, _ in item["decls"]]
            if len(set(names)) != len(names) or set(names) & RESERVED:
                raise core.Discard()
            tag = "%s %s %s" % (bs, " ".join(head), ", ".join(_decl_src(n, e) for n, e in item["decls"]))
            parts.append(tag.rstrip() + " " + be)

            def body(segs):
                for s in segs:
                    if "s" in s:
                        if not text_ok(s["s"], delims):
                            raise core.Discard()
                        parts.append(s["s"])
                    else:
                        if s["v"] in RESERVED or s.get("d"):
                            raise core.Discard()
                        parts.append("%s %s %s" % (vs, s["v"], ve))

            body(item["sing"])
            if item["plur"] is not None:
                parts.append("%s pluralize%s %s" % (bs, (" " + item["pvar"]) if item["pvar"] else "", be))
                body(item["plur"])
            parts.append("%s endtrans %s" % (bs, be))
        else:
            fn = item["fn"]
            use_format = _call_uses_format(item)
            doubled = newstyle or use_format
            args = []
            if fn in ("pgettext", "npgettext"):
                args.append(jstr(item["ctx"]))
            args.append(_marg_src(item["msg"], doubled))
            if fn in ("ngettext", "npgettext"):
                args.append(_marg_src(item["plural"], doubled))
                args.append(_nexpr_src(item["n"]))
            kw = ["%s=%s" % (k, v) for k, v in item["kw"].items()]
            if newstyle:
                call = "%s(%s)" % (fn, ", ".join(args + kw))
            else:
                call = "%s(%s)" % (fn, ", ".join(args))
                if use_format:
                    if item.get("auto_num"):
                        kw = kw + ["num=%s" % _nexpr_src(item["n"])]
                    call += "|format(%s)" % ", ".join(kw)
            parts.append("%s %s %s" % (vs, call, ve))
        if item.get("ae"):
            parts.append("%s endautoescape %s" % (bs, be))
        last = lines_so_far()
        if not text_ok(item["after"], delims):
            raise core.Discard()
        parts.append(item["after"])
        spans.append((first, last))
    return "".join(parts), spans


# ---------------------------------------------------------------------------------------
# reference semantics


def _lookup(data, name):
    return data[name] if name in data else UNDEF


def _eval_decl(name, e, data):
    k = e["k"]
    if k == "short":
        return _lookup(data, name)
    if k == "var":
        return _lookup(data, e["n"])
    if k == "const":
        return e["v"]
    if k == "len":
        return len(data[e["n"]])
    if k == "call":
        return _lookup(data, e["n"])
    if k == "safe":
        v = data[e["n"]]
        if not isinstance(v, str):
            raise core.Discard()
        return _setup()["Markup"](v)
    if k == "default":
        v = _lookup(data, e["n"])
        return e["d"] if v is UNDEF else v
    if k == "attr":
        return data[e["n"]][e["a"]]
    raise core.HarnessError("bad decl expr %r" % (e,))


_SENT = "\x00%d\x01"
_SENT_RE = re.compile("\x00(\\d+)\x01")


def ref_trim(s):
    """docs: 'replace all linebreaks and the whitespace surrounding them with a single space and remove leading
    and trailing whitespace' (blanks are space / tab / newline here)."""
    lines = s.strip(" \t\n").split("\n")
    return " ".join(p for p in (ln.strip(" \t") for ln in lines) if p != "" or len(lines) == 1)


def _skeleton(segs, trimmed, drop_first_newline):
    """Joined body with sentinels for variables, after trim_blocks and trimming."""
    out = []
    for i, s in enumerate(segs):
        if "s" in s:
            t = s["s"]
            if i == 0 and drop_first_newline and t.startswith("\n"):
                t = t[1:]
            out.append(t)
        else:
            out.append(_SENT % i)
    joined = "".join(out)
    return ref_trim(joined) if trimmed else joined


def _fill(skel, segs, fn):
    return _SENT_RE.sub(lambda m: fn(segs[int(m.group(1))]), skel)


def ref_trans(item, data, cfg, autoescape):
    """-> (expected text, expected call description)."""
    values = {}
    for name, e in item["decls"]:
        values[name] = _eval_decl(name, e, data)

    def val(name):
        return values[name] if name in values else _lookup(data, name)

    trimmed = cfg["policy_trimmed"] if item["trim"] is None else item["trim"] == "trimmed"
    tb = cfg["trim_blocks"]
    sing = _skeleton(item["sing"], trimmed, tb)
    plural = None
    count = None
    if item["plur"] is not None:
        plural = _skeleton(item["plur"], trimmed, tb)
        if item["pvar"] is not None:
            if item["pvar"] not in values:
                raise core.Discard()
            count = values[item["pvar"]]
        elif item["decls"]:
            count = values[item["decls"][0][0]]
        else:
            used = [s["v"] for s in item["sing"] if "v" in s]
            if not used:
                raise core.Discard()  # "pluralize without variables": outside the statement
            count = val(used[0])
    use_sing = plural is None or (count is not UNDEF and count == 1)
    segs, skel = (item["sing"], sing) if use_sing else (item["plur"], plural)
    text = _fill(skel, segs, lambda s: show(val(s["v"]), autoescape))
    forms = {}
    for key, (sg, sk) in {"singular": (item["sing"], sing), "plural": (item["plur"], plural)}.items():
        if sk is None:
            continue
        pl = _fill(sk.replace("%", "%%"), sg, lambda s: "%%(%s)s" % s["v"])
        pl1 = _fill(sk, sg, lambda s: "%%(%s)s" % s["v"])
        forms[key] = {pl, pl1}
    fn = ("n" if plural is not None else "") + ("p" if item["ctx"] is not None else "")
    fn = {"": "gettext", "n": "ngettext", "p": "pgettext", "np": "npgettext"}[fn]
    return text, {"fn": fn, "ctx": item["ctx"], "forms": forms, "count": count, "has_plural": plural is not None}


def ref_call(item, data, newstyle, autoescape):
    fn = item["fn"]
    n = None
    if fn in ("ngettext", "npgettext"):
        n = _lookup(data, item["n"]["n"]) if item["n"]["k"] == "var" else item["n"]["v"]
        if not isinstance(n, int) or isinstance(n, bool):
            raise core.Discard()
    use_format = _call_uses_format(item)
    doubled = newstyle or use_format
    msgs = []
    for m in (item["msg"], item.get("plural") if n is not None else None):
        if m is None:
            continue
        if "segs" in m:
            for s in m["segs"]:
                if "s" in s and not all(32 <= ord(c) < 256 or c in "\n\t" for c in s["s"]):
                    raise core.Discard()
            msgs.append((True, _msg_const(m["segs"], doubled), m))
        else:
            v = data.get(m["n"])
            if type(v) is not str or "%" in v:
                raise core.Discard()
            msgs.append((False, v, m))
    chosen = msgs[0] if (n is None or n == 1) else msgs[1]

    def pval(s):
        if s["v"] in item["kw"]:
            return _lookup(data, item["kw"][s["v"]])
        if s["v"] == "num" and n is not None and item.get("auto_num"):
            return n
        raise core.Discard()

    if chosen[0]:
        for m in msgs:  # every placeholder of every form needs a value, else the call itself is wrong
            if m[0]:
                for s in m[2]["segs"]:
                    if "v" in s:
                        v = pval(s)
                        if s.get("d") and (not isinstance(v, int) or isinstance(v, bool)):
                            raise core.Discard()
        if newstyle:
            text = "".join(s["s"] if "s" in s else show(pval(s), autoescape) for s in chosen[2]["segs"])
        else:
            plain = "".join(s["s"] if "s" in s else show(pval(s), False) for s in chosen[2]["segs"])
            text = ref_escape(plain) if autoescape else plain
    else:
        text = chosen[1] if (newstyle or not autoescape) else ref_escape(chosen[1])
    if not newstyle and not use_format and item["kw"]:
        raise core.Discard()
    strings = []
    if fn in ("pgettext", "npgettext"):
        strings.append(item["ctx"])
    strings.extend(m[1] if m[0] else None for m in msgs)
    logged = [m[1] for m in msgs]
    real = "gettext" if fn == "_" else fn
    return text, {"fn": real, "src_fn": fn, "ctx": item.get("ctx") if fn in ("pgettext", "npgettext") else None,
                  "strings": strings, "logged": logged, "count": n}


# ---------------------------------------------------------------------------------------
# the oracle


def effective_autoescape(item, data, env_autoescape):
    """docs/templates.rst 'Autoescape Overrides': inside {% autoescape x %} autoescaping is active iff x is true."""
    ae = item.get("ae")
    if not ae:
        return env_autoescape
    if ae in ("true", "false"):
        return ae == "true"
    if type(data.get("flag")) is not bool:
        raise core.Discard()
    return data["flag"] if ae == "flag" else not data["flag"]


def _make_env(case, newstyle, autoescape, log):
    st = _setup()
    cfg = case["cfg"]
    bs, be, vs, ve, cs, ce = DELIMS[cfg["delims"]]
    env = st["jinja2"].Environment(
        block_start_string=bs, block_end_string=be, variable_start_string=vs, variable_end_string=ve,
        comment_start_string=cs, comment_end_string=ce, trim_blocks=cfg["trim_blocks"], keep_trailing_newline=True,
        extensions=["jinja2.ext.i18n"], autoescape=autoescape)
    env.policies["ext.i18n.trimmed"] = cfg["policy_trimmed"]

    def gettext(m):
        log.append(("gettext", None, [m], None))
        return m

    def ngettext(s, p, n):
        log.append(("ngettext", None, [s, p], n))
        return s if n == 1 else p

    def pgettext(c, m):
        log.append(("pgettext", c, [m], None))
        return m

    def npgettext(c, s, p, n):
        log.append(("npgettext", c, [s, p], n))
        return s if n == 1 else p

    env.install_gettext_callables(gettext, ngettext, newstyle=newstyle, pgettext=pgettext, npgettext=npgettext)
    env.globals["ident"] = ident
    return env


def _norm(msg):
    return msg if isinstance(msg, tuple) else (msg,)


def _find(extracted, names, strings, span, exact_line):
    for entry in extracted:
        lineno, fn, msg = entry[0], entry[1], _norm(entry[2])
        if fn not in names or len(msg) < len(strings):
            continue
        if any(msg[i] != s for i, s in enumerate(strings)):
            continue  # (further entries stand for the count and keyword arguments: None, or the string when it is a constant)
        if (lineno == span[0]) if exact_line else (span[0] <= lineno <= span[1]):
            return True
    return False


def check_case(case):
    st = _setup()
    cfg = case["cfg"]
    data = {k: dec(v) for k, v in case["data"].items()}
    if set(data) & RESERVED:
        raise core.Discard()
    labels = set()
    nontrivial = False
    for item in case["items"]:
        if item["t"] == "trans":
            texts = "".join(s["s"] for segs in (item["sing"], item["plur"] or []) for s in segs if "s" in s)
            used = {s["v"] for segs in (item["sing"], item["plur"] or []) for s in segs if "v" in s}
            unref = [n for n, _ in item["decls"] if n not in used]
            trimmed = cfg["policy_trimmed"] if item["trim"] is None else item["trim"] == "trimmed"
            labels.add("trans")
            if "%" in texts:
                labels.add("trans_percent")
            if unref:
                labels.add("trans_unreferenced_decl")
                if "%" in texts:
                    labels.add("trans_unreferenced_decl_percent")
            if item["plur"] is not None:
                labels.add("trans_plural")
                if item["pvar"]:
                    labels.add("trans_plural_explicit")
            if item["ctx"] is not None:
                labels.add("trans_context")
            if trimmed and "\n" in texts:
                labels.add("trans_trimmed_linebreak")
            if "num" in used | {n for n, _ in item["decls"]}:
                labels.add("trans_var_num")
            if used - {n for n, _ in item["decls"]}:
                labels.add("trans_free_var")
            if any(e["k"] == "call" for _, e in item["decls"][:1]):
                labels.add("trans_first_decl_call")
            if "%" in texts or "{" in texts or "}" in texts or item["plur"] is not None or item["ctx"] is not None or unref:
                nontrivial = True
        else:
            labels.add("call_" + item["fn"])
            if "n" in item["msg"]:
                labels.add("call_nonconstant")
            texts = "".join(s["s"] for m in (item["msg"], item.get("plural") or {}) for s in m.get("segs", []) if "s" in s)
            if "%" in texts or "{" in texts or "}" in texts or item["fn"] in ("ngettext", "pgettext", "npgettext"):
                nontrivial = True
    for item in case["items"]:
        if item.get("ae"):
            labels.add("autoescape_block_%s_%s" % ("computed" if item["ae"] in ("flag", "notflag") else "constant", item["t"]))
    labels.add("delims_" + cfg["delims"])
    if cfg["trim_blocks"]:
        labels.add("trim_blocks")
    if cfg["policy_trimmed"]:
        labels.add("policy_trimmed")

    extracted_for = {}
    for newstyle, autoescape in case.get("styles", ALL_STYLES):
        src, spans = build_source(case, newstyle)
        tag = "%s/%s %r" % ("new" if newstyle else "old", "autoescape" if autoescape else "plain", src)
        expected = [case["prefix"]]
        calls = []
        for item in case["items"]:
            active = effective_autoescape(item, data, autoescape)
            if item["t"] == "trans":
                text, call = ref_trans(item, data, cfg, active)
            else:
                text, call = ref_call(item, data, newstyle, active)
            after = item["after"]
            if cfg["trim_blocks"] and (item["t"] == "trans" or item.get("ae")) and after.startswith("\n"):
                after = after[1:]
            expected.append(text)
            expected.append(after)
            calls.append(call)
        expected = "".join(expected)

        log = []
        env = _make_env(case, newstyle, autoescape, log)
        got = env.from_string(src).render(dict(data))
        if got != expected:
            raise core.Violation("%s data=%r: rendered %r, the source text with variables substituted is %r" % (tag, case["data"], got, expected))
        if len(log) != len(calls):
            raise core.Violation("%s: %d gettext calls logged for %d translatable items: %r" % (tag, len(log), len(calls), log))

        ext = st["ext"]
        # extraction does not depend on autoescape: run it once per gettext style
        if newstyle not in extracted_for:
            options = {"trimmed": "true" if cfg["policy_trimmed"] else "false", "newstyle_gettext": "true" if newstyle else "false",
                       "trim_blocks": "true" if cfg["trim_blocks"] else "false", "silent": "false", "encoding": "utf-8", "keep_trailing_newline": "true"}
            if cfg["delims"] != "default":
                bs, be, vs, ve, cs, ce = DELIMS[cfg["delims"]]
                options.update(block_start_string=bs, block_end_string=be, variable_start_string=vs, variable_end_string=ve,
                               comment_start_string=cs, comment_end_string=ce)
            extracted_for[newstyle] = (
                ("extract_from_ast (Environment.extract_translations)", list(env.extract_translations(src))),
                ("babel_extract", list(ext.babel_extract(io.BytesIO(src.encode("utf-8")), ext.GETTEXT_FUNCTIONS, [], options))),
            )
        routes = extracted_for[newstyle]

        for i, (item, call, entry, span) in enumerate(zip(case["items"], calls, log, spans)):
            fn, ctx, msgs, n = entry
            where = "%s item %d" % (tag, i)
            if fn != call["fn"]:
                raise core.Violation("%s: called %s%r, expected %s" % (where, fn, tuple(msgs), call["fn"]))
            if ctx != call["ctx"]:
                raise core.Violation("%s: context %r passed, expected %r" % (where, ctx, call["ctx"]))
            if item["t"] == "trans":
                if call["has_plural"]:
                    want_n = call["count"]
                    if want_n is UNDEF:
                        if not isinstance(n, st["jinja2"].Undefined):
                            raise core.Violation("%s: count %r passed, expected the undefined count variable" % (where, n))
                    elif not (type(n) is type(want_n) and n == want_n):
                        raise core.Violation("%s: count %r passed, expected %r" % (where, n, want_n))
                for key, m in zip(("singular", "plural"), msgs):
                    if m not in call["forms"][key]:
                        raise core.Violation("%s: %s message %r, expected one of %r" % (where, key, m, sorted(call["forms"][key])))
                strings = ([ctx] if ctx is not None else []) + list(msgs)
                names = {fn}
                exact = False
            else:
                if msgs != call["logged"]:
                    raise core.Violation("%s: messages %r passed, expected %r" % (where, msgs, call["logged"]))
                if call["count"] is not None and n != call["count"]:
                    raise core.Violation("%s: count %r passed, expected %r" % (where, n, call["count"]))
                strings = call["strings"]
                names = {call["src_fn"]}
                exact = True
            for route, extracted in routes:
                if not _find(extracted, names, strings, span, exact):
                    raise core.Violation("%s: the message %r passed to %s at render time (lines %d-%d) is not among the messages from %s: %r"
                                         % (where, strings, fn, span[0], span[1], route, extracted))
        labels.add("style_%s_%s" % ("new" if newstyle else "old", "esc" if autoescape else "plain"))
    return core.Outcome(nontrivial, sorted(labels))


# ---------------------------------------------------------------------------------------
# generator

BODY_FRAGS = ["a", "b", "Hello", "word", " ", " ", "  ", "\n", "\n", "\n  ", " \n", "\t", "%", "%", "%%", "%s", "%d", "%(x)s", "%(user)s", "100%",
              "{", "}", "{}", "}}", "{ x }", "<", ">", "<b>", "</b>", "&", "&amp;", "'", "\"", "#", "$", "%>", "\u00e9", ".", ",", "!", "\\", "\\n", "-"]
VAL_FRAGS = ["a", "Bob", " ", "<", ">", "<i>", "&", "'", "\"", "%", "%s", "%(x)s", "{", "}", "1", "\u00e9", "\n", "x y"]
CTX = ["fruit", "c t x", "100%", "<b>", "it's", "menu"]



class Tape:
    """Deterministic decision reader over Hypothesis-drawn bytes (an exhausted tape answers 0: the first option)."""

    def __init__(self, data):
        self.data, self.i = data, 0

    def byte(self):
        b = self.data[self.i] if self.i < len(self.data) else 0
        self.i += 1
        return b

    def int(self, lo, hi):
        return lo + self.byte() % (hi - lo + 1)

    def pick(self, seq):
        return seq[self.byte() % len(seq)]

    def chance(self, num, den):
        return self.byte() % den < num


def make_case(tape_bytes):
    """The generator proper: a pure function from a byte string to a case."""
    t = Tape(tape_bytes)
    delims = t.pick(["default", "default", "default", "alt"])
    cfg = {"policy_trimmed": t.pick([False, False, True]), "trim_blocks": t.pick([False, False, False, True]), "delims": delims}

    def text(lo, hi):
        return sanitize("".join(t.pick(BODY_FRAGS) for _ in range(t.int(lo, hi))), delims)

    def vstr(no_percent=False, ascii_only=False):
        s = "".join(t.pick(VAL_FRAGS) for _ in range(t.int(0, 3)))
        if no_percent:
            s = s.replace("%", "")
        if ascii_only:
            s = "".join(c for c in s if ord(c) < 128)
        return s

    def small_int():
        return t.pick([0, 1, 1, 2, 2, 3, 10])

    def value():
        k = t.int(0, 7)
        if k <= 2:
            return vstr()
        if k == 3:
            return {"$": "markup", "v": vstr()}
        if k <= 5:
            return small_int()
        if k == 6:
            return t.pick([1.5, None, True, False])
        return [vstr() for _ in range(t.int(0, 2))]

    data = {}
    for name in NAME_POOL:
        if t.chance(5, 6):
            data[name] = value()
    data["lst"] = [vstr() for _ in range(t.int(0, 3))]
    data["s1"] = vstr()
    data["s2"] = vstr(no_percent=True)
    data["i1"] = small_int()
    data["d"] = {"$": "dict", "v": {"key": value(), "k2": small_int()}}
    sources = NAME_POOL + ["s1", "s2", "i1", "missing"]

    def segs(names, lo=0, hi=5):
        out = []
        for _ in range(t.int(lo, hi)):
            if names and t.chance(1, 3):
                out.append({"v": t.pick(names)})
            else:
                s = text(1, 3)
                if out and "s" in out[-1]:
                    out[-1] = {"s": sanitize(out[-1]["s"] + s, delims)}
                else:
                    out.append({"s": s})
        return out

    def int_expr():
        k = t.pick(["const", "var", "len", "call", "attr", "short"])
        if k == "const":
            return {"k": "const", "v": small_int()}
        if k == "var":
            return {"k": "var", "n": "i1"}
        if k == "len":
            return {"k": "len", "n": "lst"}
        if k == "call":
            return {"k": "call", "n": "i1"}
        if k == "attr":
            return {"k": "attr", "n": "d", "a": "k2", "sub": t.chance(1, 2)}
        return {"k": "short"}

    def any_expr():
        k = t.pick(["short", "short", "var", "var", "const", "const", "len", "call", "safe", "default", "attr"])
        if k == "short":
            return {"k": "short"}
        if k == "var":
            return {"k": "var", "n": t.pick(sources)}
        if k == "const":
            return {"k": "const", "v": small_int() if t.chance(1, 2) else vstr(ascii_only=True)}
        if k == "len":
            return {"k": "len", "n": t.pick(["lst", "s1"])}
        if k == "call":
            return {"k": "call", "n": t.pick(sources)}
        if k == "safe":
            return {"k": "safe", "n": t.pick(["s1", "s2"])}
        if k == "default":
            return {"k": "default", "n": t.pick(["missing", "s1", "user"]), "d": t.pick(["dflt", "<d>", "%"])}
        return {"k": "attr", "n": "d", "a": t.pick(["key", "k2"]), "sub": t.chance(1, 2)}

    def trans_item():
        ctx = t.pick([None, None, None] + CTX)
        trim = t.pick([None, None, "trimmed", "trimmed", "notrimmed"])
        ndecl = t.pick([0, 0, 1, 1, 2, 3])
        pool = list(NAME_POOL)
        dnames = [pool.pop(t.int(0, len(pool) - 1)) for _ in range(ndecl)]
        plural = t.chance(4, 10)
        usable = list(dnames) + [t.pick(pool) for _ in range(t.int(0, 2))]
        if dnames and t.chance(1, 4):
            drop = t.pick(dnames)  # an unreferenced declaration
            usable = [n for n in usable if n != drop]
        if t.chance(1, 6):
            usable = []
        sing = segs(usable)
        plur = segs(usable) if plural else None
        pvar = None
        if plural:
            if dnames and t.chance(1, 2):
                pvar = t.pick(dnames)
            if not dnames and not any("v" in s for s in sing):
                sing.insert(t.int(0, len(sing)), {"v": t.pick(NAME_POOL)})
        decls = []
        count_name = pvar or (dnames[0] if dnames else None)
        for n in dnames:
            if plural and n == count_name and t.chance(8, 10):
                e = int_expr()
                if e["k"] == "short":
                    data[n] = small_int()
            else:
                e = any_expr()
            decls.append([n, e])
        if plural and count_name is None and t.chance(8, 10):
            data[[s["v"] for s in sing if "v" in s][0]] = small_int()
        return {"t": "trans", "ctx": ctx, "trim": trim, "decls": decls, "sing": sing, "plur": plur, "pvar": pvar, "after": text(0, 2)}

    def call_item():
        fn = t.pick(["_", "gettext", "gettext", "ngettext", "ngettext", "pgettext", "npgettext"])
        item = {"t": "call", "fn": fn, "kw": {}, "auto_num": False}
        isn = fn in ("ngettext", "npgettext")
        if fn in ("pgettext", "npgettext"):
            item["ctx"] = t.pick(CTX)
        pool = ["user", "x", "name", "count"]
        pnames = [pool.pop(t.int(0, len(pool) - 1)) for _ in range(t.int(0, 2))]
        if isn:
            item["n"] = t.pick([{"k": "var", "n": "i1"}, {"k": "var", "n": "i1"}, {"k": "const", "v": 1}, {"k": "const", "v": 2}, {"k": "const", "v": 0}])
            if t.chance(1, 2):
                item["auto_num"] = True
                pnames = pnames + ["num"]

        def marg():
            if t.chance(1, 7):
                return {"n": "s2"}
            out = []
            for s in segs(pnames, 0, 4):
                if "s" in s:
                    s = {"s": "".join(c for c in s["s"] if ord(c) < 256)}
                elif s["v"] == "num" and t.chance(1, 2):
                    s = {"v": "num", "d": True}
                out.append(s)
            return {"segs": out}

        item["msg"] = marg()
        if isn:
            item["plural"] = marg()
        for n in pnames:
            if n != "num":
                item["kw"][n] = t.pick(sources)
        if not any("segs" in m and any("v" in s for s in m["segs"]) for m in (item["msg"], item.get("plural")) if m):
            item["kw"] = {}
        item["after"] = text(0, 2)
        return item

    items = [trans_item() if t.chance(3, 4) else call_item() for _ in range(t.pick([1, 1, 2, 3]))]
    for it in items:
        ae = t.pick([None, None, None, None, "flag", "notflag", "true", "false"])
        if ae:
            it["ae"] = ae
    data["flag"] = t.chance(1, 2)
    used = _used_names(items)
    data = {k: v for k, v in data.items() if k in used}  # keep replay files small: only names some item can read
    return {"cfg": cfg, "styles": ALL_STYLES, "prefix": text(0, 2), "items": items, "data": data}


def _used_names(items):
    used = set()
    for it in items:
        if it.get("ae") in ("flag", "notflag"):
            used.add("flag")
        if it["t"] == "trans":
            for name, e in it["decls"]:
                used.add(e.get("n", name))
            for segs in (it["sing"], it["plur"] or []):
                used.update(s["v"] for s in segs if "v" in s)
        else:
            used.update(it["kw"].values())
            if it.get("n", {}).get("k") == "var":
                used.add(it["n"]["n"])
            for m in (it["msg"], it.get("plural")):
                if m and "n" in m:
                    used.add(m["n"])
    return used


def case_strategy():
    from hypothesis import strategies as st

    # all randomness is one Hypothesis-drawn byte string; make_case is a pure decoder (cheap to draw, shrinks towards
    # shorter / zero tapes = fewer items and first options)
    return st.binary(min_size=300, max_size=500).map(make_case)


def shards(tier):
    return [{"i": i} for i in range(16)]


def _bound_shrinking():
    """Cap the number of successful shrink steps (count-based, deterministic) so that a failing run ends quickly;
    the default (500 steps / 5 minutes per shard) costs minutes with a ~10 ms oracle."""
    try:
        import hypothesis.internal.conjecture.engine as eng

        eng.MAX_SHRINKS = 120
    except Exception:  # noqa: BLE001 - internal knob missing: keep Hypothesis' default
        pass


def run_shard(spec, ctx):
    _bound_shrinking()
    rec = core.Rec()
    strat = case_strategy()
    for b in range(ctx.pick(1, 8)):
        if rec.violations:
            break
        core.hyp_shard(strat, check_case, ctx, ctx.pick(2500, 6250), rec=rec, tag="c33-%d" % b)
    return rec


def floors(total, tier):
    lab = total.labels
    need = {"trans_percent": 300, "trans_unreferenced_decl_percent": 50, "trans_plural": 300, "trans_plural_explicit": 50, "trans_context": 200,
            "trans_trimmed_linebreak": 100, "trans_var_num": 100, "trans_free_var": 200, "trans_first_decl_call": 30, "call_ngettext": 50,
            "call_npgettext": 20, "call_nonconstant": 30, "delims_alt": 200, "trim_blocks": 200, "policy_trimmed": 200,
            "style_new_esc": 1000, "style_old_esc": 1000,
            "autoescape_block_computed_trans": 1000, "autoescape_block_constant_trans": 1000, "autoescape_block_computed_call": 200}
    low = ["%s=%d<%d" % (k, lab.get(k, 0), v) for k, v in need.items() if lab.get(k, 0) < v]
    return ", ".join(low) or None
