"""G-data: context data for generated expressions / programs (DESIGN.md section 3.1, "Data").

Tagged JSON encoding of template data
-------------------------------------
A *case* must be plain JSON, so every Python value that is handed to a template is written in
this encoding (``encode_data`` / ``decode_data`` are inverse to each other):

    None, True/False, int, str        as themselves (str may hold lone surrogates)
    finite float                      JSON number (Python's json round-trips repr exactly, incl. -0.0)
    non-finite float                  {"$": "float", "v": "inf" | "-inf" | "nan"}
    list                              JSON list of encoded items
    tuple                             {"$": "tuple", "v": [items]}
    dict                              {"$": "dict", "v": [[key, value], ...]}   (insertion order kept, any hashable key)
    markupsafe.Markup                 {"$": "markup", "v": "text"}
    probe object                      {"$": "obj", "id": "o1", "attrs": {name: value}, "items": [[key, value], ...]}
    probe callable                    {"$": "fn", "name": "f1"}
    "not in the context"              {"$": "missing"}   (only as a top-level context value: the name is left out)

``Obj(ident, attrs, items)`` has exactly the attributes ``attrs`` and answers ``obj[key]`` from ``items``
(KeyError otherwise): attribute table and item table are independent, so ``o.a`` and ``o['a']`` can be told
apart.  It is not iterable, has no length, compares by identity and prints as ``Obj<ident>``.

``Fn(name)`` is a callable that returns ``(name, args, sorted kwargs)`` as a tuple, so the way call
arguments were bound is visible in the value.

``canon_value(v, undefined_types)`` maps a Python value (from the implementation *or* from a reference
model) to a JSON-able normal form that can be compared with ``==``: type and value, floats by repr,
NaN == NaN, undefined objects of any of the given classes as ["undefined"].

Strategies
----------
``contexts(schema, ...)`` draws an encoded context for a schema ``{name: type}`` with types
int smallint float str bool list_int list_str list_any dict tuple obj markup none fn undef any.
"""
import math

from markupsafe import Markup

__all__ = [
    "Obj", "Fn", "decode_data", "encode_data", "decode_context", "canon_value", "canon_contains",
    "scalars", "values", "contexts", "DEFAULT_SCHEMA", "ATTR_NAMES",
]


class Obj:
    """Probe object: independent attribute and item tables."""

    __iter__ = None  # not iterable (Python would otherwise fall back to __getitem__(0), (1), ...)

    def __init__(self, ident, attrs, items):
        object.__setattr__(self, "_vt_id", ident)
        object.__setattr__(self, "_vt_items", dict(items))
        for k, v in attrs.items():
            object.__setattr__(self, k, v)

    def __getitem__(self, key):
        return self._vt_items[key]  # KeyError for a missing key, TypeError for an unhashable one

    def __repr__(self):
        return "Obj<%s>" % self._vt_id

    __str__ = __repr__


class Fn:
    """Probe callable: returns how it was called."""

    def __init__(self, name):
        self._vt_name = name

    def __call__(self, *args, **kwargs):
        return (self._vt_name, tuple(args), tuple(sorted(kwargs.items())))

    def __repr__(self):
        return "<fn %s>" % self._vt_name

    __str__ = __repr__


MISSING = object()


def decode_data(j):
    """Tagged JSON -> Python value."""
    if isinstance(j, list):
        return [decode_data(x) for x in j]
    if isinstance(j, dict):
        tag = j["$"]
        if tag == "float":
            return float(j["v"])
        if tag == "tuple":
            return tuple(decode_data(x) for x in j["v"])
        if tag == "dict":
            return {decode_data(k): decode_data(v) for k, v in j["v"]}
        if tag == "markup":
            return Markup(j["v"])
        if tag == "obj":
            return Obj(j["id"], {k: decode_data(v) for k, v in j["attrs"].items()},
                       [(decode_data(k), decode_data(v)) for k, v in j["items"]])
        if tag == "fn":
            return Fn(j["name"])
        if tag == "missing":
            return MISSING
        raise ValueError("unknown tag %r" % (tag,))
    return j


def decode_context(j):
    """Encoded context {name: encoded value} -> {name: value}; "missing" entries are dropped."""
    out = {}
    for k, v in j.items():
        d = decode_data(v)
        if d is not MISSING:
            out[k] = d
    return out


def encode_data(v):
    """Python value -> tagged JSON (inverse of decode_data)."""
    if v is None or isinstance(v, (bool, int)):
        return v
    if isinstance(v, float):
        if math.isfinite(v):
            return v
        return {"$": "float", "v": "nan" if v != v else ("inf" if v > 0 else "-inf")}
    if isinstance(v, Markup):
        return {"$": "markup", "v": str(v)}
    if isinstance(v, str):
        return v
    if isinstance(v, list):
        return [encode_data(x) for x in v]
    if isinstance(v, tuple):
        return {"$": "tuple", "v": [encode_data(x) for x in v]}
    if isinstance(v, dict):
        return {"$": "dict", "v": [[encode_data(k), encode_data(x)] for k, x in v.items()]}
    if isinstance(v, Obj):
        attrs = {k: encode_data(x) for k, x in v.__dict__.items() if not k.startswith("_vt_")}
        return {"$": "obj", "id": v._vt_id, "attrs": attrs,
                "items": [[encode_data(k), encode_data(x)] for k, x in v._vt_items.items()]}
    if isinstance(v, Fn):
        return {"$": "fn", "name": v._vt_name}
    if v is MISSING:
        return {"$": "missing"}
    raise TypeError("cannot encode %r" % (type(v),))


_BUILTIN_METHOD = type("".upper)


def canon_value(v, undefined_types=()):
    """Comparable, JSON-able normal form of a value (see module docstring).

    Values whose identity/representation is not determined by the semantics (iterators, views,
    arbitrary objects) become ["opaque", typename]; use canon_contains(c, "opaque") to detect them.
    """
    if undefined_types and isinstance(v, undefined_types):
        return ["undefined"]
    if v is None:
        return ["none"]
    if v is True or v is False:
        return ["bool", v]
    t = type(v)
    if t is int:
        return ["int", v]
    if t is float:
        return ["float", repr(v)]
    if t is complex:
        return ["complex", repr(v)]
    if t is str:
        return ["str", v]
    if t is Markup:
        return ["markup", str(v)]
    if t is list:
        return ["list", [canon_value(x, undefined_types) for x in v]]
    if t is tuple:
        return ["tuple", [canon_value(x, undefined_types) for x in v]]
    if t is dict:
        return ["dict", [[canon_value(k, undefined_types), canon_value(x, undefined_types)] for k, x in v.items()]]
    if t is Obj:
        return ["obj", v._vt_id]
    if t is Fn:
        return ["fn", v._vt_name]
    if t is range:
        return ["range", v.start, v.stop, v.step]
    if t is _BUILTIN_METHOD and not isinstance(v.__self__, type(math)):
        return ["method", canon_value(v.__self__, undefined_types), v.__name__]
    if isinstance(v, (int, float, str)):  # other subclasses: keep the class name visible
        return ["sub:" + t.__name__, repr(v)]
    return ["opaque", t.__name__]


def canon_contains(c, tag):
    """True when the normal form contains a node with the given tag."""
    t = c[0]
    if t == tag:
        return True
    if t in ("list", "tuple"):
        return any(canon_contains(x, tag) for x in c[1])
    if t == "dict":
        return any(canon_contains(k, tag) or canon_contains(v, tag) for k, v in c[1])
    if t == "method":
        return canon_contains(c[1], tag)
    return False


# ---------------------------------------------------------------------------------------------------
# Hypothesis strategies (imported lazily so that decode/canon are usable without hypothesis)

ATTR_NAMES = ["a", "b", "k", "x"]          # attribute / item names used by Obj probes and dict keys
DICT_KEYS = ["a", "b", "k", "items", "keys", "n"]
STR_POOL = ["", "a", "b", "ab", "Ab", "AB", "abc", "hello world", "x y", " a ", "12", "7", "3.5", "-4", "0x1f", "1e3",
            "<b>", "a&b", "\"q\"", "it's", "%s", "%d", "%s-%s", "é", "ß", "Σx", "\U0001f600", "a\nb", "inf", "nan", "True",
            "k", "x", "items"]
TEXT_ALPHABET = "abcxyzABZ019 _-.,%<>&'\"\\/éßΣı\U0001f600\n\t"

DEFAULT_SCHEMA = {
    "i": "int", "j": "int", "n": "smallint", "f": "float", "g": "float", "s": "str", "t": "str", "b": "bool",
    "l": "list_int", "ls": "list_str", "lm": "list_any", "d": "dict", "tu": "tuple", "o": "obj", "p": "obj",
    "m": "markup", "z": "none", "fn": "fn", "u": "undef", "w": "undef", "x": "any", "y": "any",
}


def _st():
    import hypothesis.strategies as st

    return st


def ints(big=True):
    st = _st()
    opts = [st.integers(-3, 12), st.sampled_from([0, 1, 2, -1, 3, 7, 10, 255, -17])]
    if big:
        opts.append(st.integers(-10**6, 10**6))
    return st.one_of(*opts)


def floats(nonfinite=True):
    st = _st()
    opts = [st.sampled_from([0.0, 0.5, 1.0, 1.5, 2.0, -0.0, -2.5, 3.25, 1e22, 1e-7, 0.1, 42.55]),
            st.floats(-1e6, 1e6, allow_nan=False, allow_infinity=False, width=32)]
    if nonfinite:
        opts.append(st.sampled_from([{"$": "float", "v": "inf"}, {"$": "float", "v": "-inf"}, {"$": "float", "v": "nan"},
                                     1.7976931348623157e308, 5e-324]))
    return st.one_of(*opts)


def texts():
    st = _st()
    return st.one_of(st.sampled_from(STR_POOL), st.text(alphabet=TEXT_ALPHABET, max_size=6))


def scalars(nonfinite=True):
    """Encoded scalar values: int, float, str, bool, None, Markup."""
    st = _st()
    return st.one_of(ints(), floats(nonfinite), texts(), st.booleans(), st.none(),
                     st.builds(lambda s: {"$": "markup", "v": s}, texts()))


def values(nonfinite=True, depth=2):
    """Encoded values of any supported kind, nested up to ``depth``."""
    st = _st()
    if depth <= 0:
        return scalars(nonfinite)
    sub = values(nonfinite, depth - 1)
    return st.one_of(
        scalars(nonfinite), scalars(nonfinite),
        st.lists(sub, max_size=3),
        st.builds(lambda v: {"$": "tuple", "v": v}, st.lists(sub, max_size=3)),
        dicts(sub),
        objs(sub, "ov"),
    )


def dicts(sub=None):
    st = _st()
    sub = sub if sub is not None else scalars()
    keys = st.one_of(st.sampled_from(DICT_KEYS), st.sampled_from(DICT_KEYS), st.integers(0, 3), texts())
    return st.builds(lambda kv: {"$": "dict", "v": _dedup(kv)}, st.lists(st.tuples(keys, sub).map(list), max_size=4))


def _dedup(kv):
    """Keys are JSON scalars (str / int); keep the first of equal keys so decode/encode stay inverse."""
    seen = {}
    for k, v in kv:
        if k not in seen:
            seen[k] = v
    return [[k, v] for k, v in seen.items()]


def objs(sub=None, ident="o"):
    """Probe objects: attribute table and item table over the same small name pool.  For every attribute
    the item table gets, with probability 1/2, an entry of the same name with its own value, so
    attribute-vs-item preference is observable."""
    st = _st()
    sub = sub if sub is not None else scalars()
    leaf = st.one_of(sub, sub, st.just({"$": "fn", "name": "meth"}))
    attrs = st.dictionaries(st.sampled_from(ATTR_NAMES), leaf, max_size=3)
    extra = st.lists(st.tuples(st.one_of(st.sampled_from(ATTR_NAMES), st.integers(0, 2)), sub).map(list), max_size=2)
    shadow = st.lists(st.tuples(st.booleans(), sub), min_size=3, max_size=3)

    def build(a, sh, ex):
        items = [[k, v] for k, (on, v) in zip(a, sh) if on]
        return {"$": "obj", "id": ident, "attrs": a, "items": _dedup(items + ex)}

    return st.builds(build, attrs, shadow, extra)


_of_type_cache = {}


def of_type(ty, name="v", nonfinite=True):
    """Encoded value strategy for one schema type (built once per distinct request)."""
    key = (ty, name, nonfinite)
    if key not in _of_type_cache:
        _of_type_cache[key] = _of_type(ty, name, nonfinite)
    return _of_type_cache[key]


def _of_type(ty, name, nonfinite):
    st = _st()
    if ty == "int":
        return ints()
    if ty == "smallint":
        return st.integers(0, 6)
    if ty == "float":
        return floats(nonfinite)
    if ty == "str":
        return texts()
    if ty == "bool":
        return st.booleans()
    if ty == "list_int":
        return st.lists(ints(big=False), max_size=5)
    if ty == "list_str":
        return st.lists(texts(), max_size=4)
    if ty == "list_any":
        return st.lists(values(nonfinite, 1), max_size=4)
    if ty == "dict":
        return dicts(values(nonfinite, 1))
    if ty == "tuple":
        return st.builds(lambda v: {"$": "tuple", "v": v}, st.lists(scalars(nonfinite), max_size=3))
    if ty == "obj":
        return objs(values(nonfinite, 1), name)
    if ty == "markup":
        return st.builds(lambda s: {"$": "markup", "v": s}, texts())
    if ty == "none":
        return st.none()
    if ty == "fn":
        return st.just({"$": "fn", "name": name})
    if ty == "undef":
        return st.just({"$": "missing"})
    if ty == "any":
        return values(nonfinite, 2)
    if ty == "any1":
        return values(nonfinite, 1)
    if ty == "pct":
        return st.integers(0, 99)
    raise ValueError(ty)


def contexts(schema=None, nonfinite=True, p_wrong=0.06, p_missing=0.03):
    """Cached front end of _contexts (building a @composite strategy costs milliseconds)."""
    schema = DEFAULT_SCHEMA if schema is None else schema
    key = ("ctx", tuple(sorted(schema.items())), nonfinite, p_wrong, p_missing)
    if key not in _of_type_cache:
        _of_type_cache[key] = _contexts(schema, nonfinite, p_wrong, p_missing)
    return _of_type_cache[key]


def _contexts(schema, nonfinite, p_wrong, p_missing):
    """Encoded context for a schema: each name gets a value of its type, with a small probability a value
    of another type (ill-typed operands exercise the error classes) or no binding at all (undefined)."""
    st = _st()
    names = sorted(schema)
    pct = of_type("pct")
    wrong = of_type("any1", "v", nonfinite)

    @st.composite
    def ctx(draw):
        out = {}
        for name in names:
            ty = schema[name]
            r = draw(pct)
            if ty == "undef":
                continue
            r = 99 - r  # the minimal draw means "a value of the declared type"
            if r < int(p_missing * 100):
                continue
            if r < int((p_missing + p_wrong) * 100) and ty != "fn":
                out[name] = draw(wrong)
            else:
                out[name] = draw(of_type(ty, name, nonfinite))
        return out

    return ctx()
