"""C39 - the raw token stream (Environment.lex) is lossless and line-accurate.

Cases
  {"kind": "skel", "sk": abstract skeleton, "syn", "ls", "lc"}          block-tag skeleton (multi-line tags, every modifier)
  {"kind": "lines", "lsk": line skeleton, "form": "line"|"block", "syn", "ls", "lc"}   line statements / line comments
  {"kind": "soup", "src": source, "syn", "ls", "lc"}                      arbitrary fragment soup; judged only when it lexes

Oracle (skel, lines): S = source with line breaks normalised and the trailing newline dropped per
configuration; the whitespace model predicts the spans removed on the left side of tags; the token
values, laid end to end, must cover S exactly except for those spans, and every token's lineno must
be 1 + number of line breaks in S before its first character.
Oracle (soup): same walk, but the skipped spans are not predicted: a skip must be whitespace only,
must stand directly before a token that carries '-' after its start delimiter (or lstrip_blocks is
on and the skip contains no line break), and line numbers must be exact.
"""
from vt import core
from vt.gen import skel
from vt.ref import ws

PID = "C39"
LEVEL = "exploration"
RULE = (
    "Hypothesis-generated skeletons (vt.gen.skel) with multi-line expressions / statements / string literals inside tags, comments and raw "
    "bodies with line breaks, every modifier, the three line-break forms, printed under a delimiter set fixed per shard (default, 5 custom "
    "sets, line-statement and line-comment prefixes), lexed with Environment.lex under all 8 trim x lstrip x keep_trailing_newline settings; "
    "plus line skeletons in line-statement form (with blank lines) and fragment soups of delimiters, modifiers, quotes and brackets (judged "
    "when they lex). Non-trivial = some token other than template data starts on a line > 1 after a stripped line break or inside a "
    "multi-line tag (a removed span or a non-data token contains a line break); distinct = distinct case JSON."
)
ASSUMPTIONS = [
    "the left-removed whitespace is predicted by the C12 model (vt.ref.ws); right-side removals are part of the end-tag token value",
    "token *types* are not judged, only values, order, completeness and line numbers",
    "soup cases that raise TemplateSyntaxError are counted but not judged (C01 owns totality)",
    "lstrip_blocks before a tag preceded on its line by whitespace other than spaces/tabs is not judged (configuration skipped, counted)",
    "environments are reused across cases inside a worker (configuration objects only)",
    "each of a case's 8 configurations is realised by one creation route (fresh Environment / overlay of a used default environment / "
    "overlay of a used same-delimiter environment), rotating with a hash of the source",
]

CONFIGS = [(t, l, k) for t in (False, True) for l in (False, True) for k in (False, True)]
_envs = {}


ROUTES = ["fresh", "overlay", "overlay-ws"]


def get_env(syn_name, ls, lc, trim, lstrip, nls, ktn, route="fresh"):
    """The configuration is realised by one of three creation routes (the property quantifies over configurations however
    they were created): 'fresh' = Environment(**options); 'overlay' = overlay(**all options) of a default environment that
    has already lexed and rendered; 'overlay-ws' = overlay(whitespace options) of a used environment with the same delimiters."""
    key = (syn_name, ls, lc, trim, lstrip, nls, ktn, route)
    env = _envs.get(key)
    if env is None:
        from jinja2 import Environment

        kw = skel.env_kwargs(skel.syntax(syn_name, ls, lc))
        wsopts = dict(trim_blocks=trim, lstrip_blocks=lstrip, newline_sequence=nls, keep_trailing_newline=ktn)
        if route == "fresh":
            env = Environment(**wsopts, **kw)
        else:
            base = Environment() if route == "overlay" else Environment(**kw)
            warm = [tuple(t) for t in base.lex("warm\n  up\n")]
            if warm != [(1, "data", "warm\n  up")] or base.from_string("warm\n").render() != "warm":
                raise core.Violation("a default-option environment does not lex/render plain text: %r" % (warm,))
            env = base.overlay(**wsopts, **kw) if route == "overlay" else base.overlay(**wsopts)
        _envs[key] = env
    return env


def _route(src, j):
    return ROUTES[(sum(map(ord, src)) + len(src) + j) % len(ROUTES)]


def _check_linenos(placed, S, src, cfg):
    for lineno, typ, val, start in placed:
        exp = 1 + S.count("\n", 0, start)
        if lineno != exp:
            raise core.Violation("token %s %r starts on line %d of the source but reports lineno %d\n source: %r\n config: %s"
                                 % (typ, val, exp, lineno, src, cfg))


def _structured(case, csk, syn_name, ls, lc):
    syn = skel.syntax(syn_name, ls, lc)
    src = skel.source(csk, syn)
    pr = skel.printer(syn)
    nls = ws.NL_SEQS[len(src) % 3]
    labels = {"syn:" + syn_name, "kind:" + case["kind"]}
    nontrivial = False
    for trim, lstrip, ktn in CONFIGS:
        try:
            a = ws.analyse(csk, pr, trim, lstrip, ktn)
        except ws.Decline:
            raise core.Discard()
        cfg = "trim_blocks=%s lstrip_blocks=%s keep_trailing_newline=%s newline_sequence=%r syntax=%s ls=%r lc=%r" % (trim, lstrip, ktn, nls, syn_name, ls, lc)
        if a.ambiguous:
            labels.add("lstrip:ambiguous-ws(config skipped)")
            continue
        route = _route(src, CONFIGS.index((trim, lstrip, ktn)))
        cfg += " environment=" + route
        tokens = [tuple(t) for t in get_env(syn_name, ls, lc, trim, lstrip, nls, ktn, route).lex(src)]
        placed, err = ws.walk_tokens(a.S, a.spans, tokens)
        if placed is None:
            raise core.Violation("token stream is not the source minus the whitespace the model removes: %s\n source: %r\n config: %s\n removed spans: %r\n tokens: %r"
                                 % (err, src, cfg, a.spans, tokens))
        _check_linenos(placed, a.S, src, cfg)
        span_nl = any("\n" in a.S[x:y] for x, y in a.spans)
        tag_nl = any("\n" in val for _, typ, val, _ in placed if typ != "data")
        later = any(lineno > 1 for lineno, typ, _, _ in placed if typ != "data")
        if span_nl:
            labels.add("stripped-linebreak")
        if tag_nl:
            labels.add("linebreak-inside-tag")
        if any(typ == "string" and "\n" in val for _, typ, val, _ in placed):
            labels.add("string-with-linebreak")
        if a.spans:
            labels.add("left-removed")
        for _, typ, _, _ in placed:
            if typ in ("linestatement_begin", "linecomment_begin", "raw_begin", "comment_begin"):
                labels.add("tok:" + typ)
        if later and (span_nl or tag_nl):
            nontrivial = True
    return core.Outcome(nontrivial, sorted(labels))


def _soup(case):
    from jinja2 import TemplateSyntaxError

    syn_name, ls, lc = case.get("syn", "default"), case.get("ls"), case.get("lc")
    syn = skel.syntax(syn_name, ls, lc)
    src = case["src"]
    labels = {"kind:soup", "syn:" + syn_name}
    nontrivial = False
    nls = ws.NL_SEQS[len(src) % 3]
    for trim, lstrip, ktn in CONFIGS:
        S = ws.norm(src)
        if not ktn and S.endswith("\n"):
            S = S[:-1]
        cfg = "trim_blocks=%s lstrip_blocks=%s keep_trailing_newline=%s syntax=%s ls=%r lc=%r" % (trim, lstrip, ktn, syn_name, ls, lc)
        route = _route(src, CONFIGS.index((trim, lstrip, ktn)))
        cfg += " environment=" + route
        try:
            tokens = [tuple(t) for t in get_env(syn_name, ls, lc, trim, lstrip, nls, ktn, route).lex(src)]
        except TemplateSyntaxError:
            labels.add("soup:syntax-error")
            continue
        labels.add("soup:lexes")
        pos = 0
        placed = []
        for lineno, typ, val in tokens:
            if not S.startswith(val, pos):
                j = pos
                while j < len(S) and S[j].isspace() and not S.startswith(val, j):
                    j += 1
                if not S.startswith(val, j):
                    raise core.Violation("token %s %r does not continue the source at offset %d (only whitespace may be skipped)\n source: %r\n config: %s\n tokens: %r"
                                         % (typ, val, pos, src, cfg, tokens))
                skipped = S[pos:j]
                starts = [syn[k] for k in ("bs", "vs", "cs")] + [p for p in (ls, lc) if p]
                minus = any(val.lstrip(" \t\x0b\x0c\xa0").startswith(d + "-") or val.endswith(d + "-") for d in starts)
                if not minus and not (lstrip and "\n" not in skipped and typ != "variable_begin"):
                    raise core.Violation("whitespace %r before token %s %r was dropped although nothing asks for it\n source: %r\n config: %s\n tokens: %r"
                                         % (skipped, typ, val, src, cfg, tokens))
                labels.add("soup:skip")
                pos = j
            placed.append((lineno, typ, val, pos))
            pos += len(val)
        if pos != len(S):
            raise core.Violation("tokens end at offset %d but the source has %d characters (lost: %r)\n source: %r\n config: %s\n tokens: %r"
                                 % (pos, len(S), S[pos:pos + 40], src, cfg, tokens))
        _check_linenos(placed, S, src, cfg)
        if any(lineno > 1 and typ != "data" for lineno, typ, _, _ in placed) and any("\n" in v for _, typ, v, _ in placed if typ != "data"):
            nontrivial = True
    return core.Outcome(nontrivial, sorted(labels))


def check_case(case):
    kind = case["kind"]
    syn_name, ls, lc = case.get("syn", "default"), case.get("ls"), case.get("lc")
    syn = skel.syntax(syn_name, ls, lc)
    if kind == "soup":
        return _soup(case)
    if kind == "skel":
        return _structured(case, skel.instantiate(case["sk"], syn), syn_name, ls, lc)
    if kind == "lines":
        ask = skel.line_form(case["lsk"]) if case["form"] == "line" else skel.block_form(case["lsk"])
        return _structured(case, skel.instantiate(ask, syn), syn_name, ls, lc)
    raise core.HarnessError("unknown case kind %r" % kind)


SHARD_SYN = [("default", None, None)] * 2 + [("prefixvar", None, None)] + [("blockbr", None, None), ("parens", None, None), ("latex", "#", "##")] + [
    ("php", None, None), ("erb", None, None), ("brackets", None, None), ("three", None, None), ("ops", None, None),
    ("default", "#", "##"), ("erb", "%%", "##"), ("php", ">>>", "##"), ("brackets", "#", None), ("default", "%%", "##"),
]


def strategies(syn_name, ls, lc, max_segs=8):
    from hypothesis import strategies as st

    syn = skel.syntax(syn_name, ls, lc)
    alpha = skel.alpha_ws(syn)
    tag = lambda d: dict(d, syn=syn_name, ls=ls, lc=lc)  # noqa: E731
    sk = skel.skeletons(alpha, max_segs=max_segs, multiline=True, lexonly=True).map(lambda s: tag({"kind": "skel", "sk": s}))
    soup = skel.fragment_soup(syn).map(lambda s: tag({"kind": "soup", "src": s}))
    res = [sk, sk, sk, soup]
    if ls and lc:
        lines = st.builds(lambda l, f: tag({"kind": "lines", "lsk": l, "form": f}), skel.line_skeletons(blank=True, vt_indent=True), st.sampled_from(["line", "line", "block"]))
        res += [lines, lines, lines]
    return st.one_of(res)


def shards(tier):
    return [{"syn": s[0], "ls": s[1], "lc": s[2]} for s in SHARD_SYN]


def run_shard(spec, ctx):
    return skel.hyp_chunks(strategies(spec["syn"], spec["ls"], spec["lc"], ctx.pick(8, 10)), check_case, ctx, ctx.pick(5000, 110000), core.Rec(), "lex", chunk=5000)


def floors(total, tier):
    need = ["stripped-linebreak", "linebreak-inside-tag", "string-with-linebreak", "tok:linestatement_begin", "tok:linecomment_begin",
            "tok:raw_begin", "tok:comment_begin", "soup:lexes", "soup:skip", "kind:lines"]
    low = [k for k in need if total.labels.get(k, 0) < 50]
    return ("labels below floor of 50: %s" % low) if low else None
