"""C18 - a sandboxed template never calls a callable the sandbox deems unsafe.

Case: {"env": "default"|"override", "async": bool, "src": template, "loader": {name: source},
       "callable": recorder name, "marking": "unsafe"|"alters"|"delete"|"safe",
       "reached": bool, "levels": int, "path": path key}

World: recording callables -- methods / functions / callable objects / a class marked with
``@unsafe`` or ``alters_data = True``, callables whose ``__name__`` starts with ``delete`` (rejected only
by an environment overriding ``is_safe_callable``), and safe ones.  Every invocation appends to a log.

Oracle: a callable the environment deems unsafe is never in the log; when its call site is reached
(known by construction of the enclosing if / for wrapper) SecurityError is raised, and the safe call
``sfn('pre')`` before it did run; when the site is not reached the template renders and both
``sfn('pre')`` and ``sfn('post')`` ran.  A safe callable at a reached site *is* invoked.
Plus a structural check of the generated code: no call whose function is a template-controlled value
(everything goes through ``environment.call``).
"""
import ast
import re

from vt import core
from vt.gen import sandbox_gen as g

PID = "C18"
LEVEL = "exploration"
RULE = (
    "programs = recording callable (unsafe / alters_data method, function, static and class method, callable object, "
    "class; markers held in the instance dict, on the class, inherited, as a property, in __slots__ or served by __getattr__; "
    "callable objects and functions whose call is decorated with pass_context / pass_eval_context / pass_environment; "
    "callables flagged alters_data / unsafe_callable only after a first safe use; C-implemented builtin functions and "
    "bound methods rejected by name by the overriding environment (effect on the data observed); bound methods the "
    "overriding environment rejects because of their instance (__self__ marked) or by a block list of bound methods; "
    "name-based rejection by an overridden is_safe_callable; safe controls; reached by name, attribute, "
    "subscript, attr filter, map(attribute), container element, nested object) x call path (direct, set/with alias, "
    "macro positional/keyword/default/varargs/kwargs argument, enclosing scope of a macro, call-block target with and "
    "without arguments, inside a call block, via caller(), loop variable incl. recursive loops and scoped blocks, "
    "set / with / for target / macro parameter / context variable named like an engine-special name (caller, varargs, "
    "kwargs, self, super, loop, context, environment, ...), list/tuple/dict/namespace element, result of default/first/last/select/list filters, conditional and boolean "
    "expressions, loop.cycle, returned by another call, argument of filters/tests/calls/macros, if/for/set/with/filter "
    "block/autoescape/do positions, the i18n extension's _() alias with the callable bound to `gettext` by set (top level, "
    "loop, block scope) or as a context variable, blocks and self.block(), included template, imported macro, child block and "
    "super()) x argument shape (none, positional, keyword, *args, **kwargs) x reachability wrapper (if/else/elif, "
    "empty loop, loop else, filtered loop) x safe calls made before the call site (safe bound-method calls on the same "
    "object directly / in a loop / through a macro, earlier renders on the same environment object) x "
    "{default, overriding is_safe_callable} x {sync, async}; quick: all path x "
    "callable x environment combinations are enumerated with rotating argument shapes and wrappers, plus Hypothesis "
    "draws from the full product; thorough: the full product, also with two nested wrappers, is enumerated.  Non-trivial = the call site is reached, the environment deems the callable unsafe, and "
    "the callable arrives through at least one level of indirection; distinct = distinct case."
)
ASSUMPTIONS = [
    "reachability of the call site is known by construction of the wrapper (if yes/no, empty / non-empty loops), not computed by the engine",
    "an object wrapping an unsafe callable without exposing unsafe_callable / alters_data (e.g. functools.partial) is deemed safe by the sandbox and is outside the property",
    "a harness-defined filter that itself calls its argument is outside the property (not a call written in the template)",
    "which callables are unsafe per environment is a table in the harness: @unsafe and alters_data=True always (from the moment the marker is set); names starting with 'delete' and the listed builtin names only under the overriding environment",
    "builtin callables are only used with the overriding environment (under the default policy they are allowed and would really run with arbitrary arguments)",
]

_st = {}


def _setup():
    if _st:
        return _st
    import jinja2
    from jinja2.exceptions import SecurityError
    from jinja2.sandbox import SandboxedEnvironment, unsafe

    class Override(SandboxedEnvironment):
        def is_safe_callable(self, obj):
            name = getattr(obj, "__name__", "")
            if name.startswith("delete") or name in g.BUILTIN_REJECTED_NAMES:
                return False
            # policies that look at the bound method itself: no method of a marked instance, and a block list
            if getattr(getattr(obj, "__self__", None), "vt_model", False):
                return False
            if any(obj == b for b in getattr(self, "vt_blocklist", ())):
                return False
            return super().is_safe_callable(obj)

    _st.update(jinja2=jinja2, SecurityError=SecurityError, SandboxedEnvironment=SandboxedEnvironment, Override=Override, unsafe=unsafe)
    return _st


class _Awaitable:
    def __await__(self):
        return iter(())


def make_world():
    """-> (context, log).  Every recorder appends (name, nargs, sorted kwarg names) to log and returns 'ret:<name>'."""
    unsafe = _setup()["unsafe"]
    log = []

    def rec(name, a, k):
        log.append((name, len(a), sorted(k)))
        return "ret:" + name

    class Box:
        def __init__(self, prefix=""):
            self._prefix = prefix

        @unsafe
        def boom(self, *a, **k):
            return rec(self._prefix + "boom", a, k)

        def wipe(self, *a, **k):
            return rec("wipe", a, k)

        wipe.alters_data = True

        def delete_x(self, *a, **k):
            return rec("delete_x", a, k)

        def ok(self, *a, **k):
            return rec(self._prefix + "ok" if self._prefix.startswith("mdl") else "ok", a, k)

        def ping(self, *a, **k):
            return rec("ping", a, k)

        def save(self, *a, **k):
            return rec(self._prefix + "save", a, k)

        def listed(self, *a, **k):
            return rec("listed", a, k)

        def late(self, *a, **k):
            type(self).late.alters_data = True  # safe when first used, flagged from then on
            return rec("late", a, k)

        @unsafe
        def aboom(self, *a, **k):
            rec("aboom", a, k)
            return _Awaitable()

        @staticmethod
        @unsafe
        def static_boom(*a, **k):
            return rec("static_boom", a, k)

        def _class_wipe(cls, *a, **k):
            return rec("class_wipe", a, k)

        _class_wipe.alters_data = True
        class_wipe = classmethod(_class_wipe)

        def give(self, name):
            return table[name]

        def __repr__(self):
            return "<box>"

    @unsafe
    def ufn(*a, **k):
        return rec("ufn", a, k)

    def afn(*a, **k):
        return rec("afn", a, k)

    afn.alters_data = True

    def delete_fn(*a, **k):
        return rec("delete_fn", a, k)

    def late_fn(*a, **k):
        late_fn.alters_data = True
        return rec("late_fn", a, k)

    def sfn(*a, **k):
        return rec("sfn:" + (str(a[0]) if a and isinstance(a[0], str) and a[0] in ("pre", "post") else "x"), a, k)

    def sfn2(*a, **k):
        return rec("sfn2", a, k)

    class CallObj:
        def __init__(self, name, **marks):
            self._name = name
            for m, v in marks.items():
                setattr(self, m, v)

        def __call__(self, *a, **k):
            return rec(self._name, a, k)

        def __repr__(self):
            return "<callobj %s>" % self._name

    class UCls:
        unsafe_callable = True

        def __init__(self, *a, **k):
            rec("UCls", a, k)

        def __repr__(self):
            return "<ucls>"

    class ACls:
        alters_data = True

        def __init__(self, *a, **k):
            rec("ACls", a, k)

        def __repr__(self):
            return "<acls>"

    # callable objects whose marker does not live in the instance __dict__
    class ClassAlters(CallObj):
        alters_data = True

    class ClassUnsafe(CallObj):
        unsafe_callable = True

    class InheritedUnsafe(ClassUnsafe):
        pass

    class InheritedAlters(ClassAlters):
        pass

    class PropAlters(CallObj):
        @property
        def alters_data(self):
            return True

    class PropUnsafe(CallObj):
        @property
        def unsafe_callable(self):
            return True

    class Slots:
        __slots__ = ("_name", "unsafe_callable", "alters_data")

        def __init__(self, name, **marks):
            self._name = name
            for m in ("unsafe_callable", "alters_data"):
                setattr(self, m, marks.get(m, False))

        def __call__(self, *a, **k):
            return rec(self._name, a, k)

        def __repr__(self):
            return "<slots %s>" % self._name

    class GetattrUnsafe(CallObj):
        def __getattr__(self, name):
            if name == "unsafe_callable":
                return True
            raise AttributeError(name)

    class Box2(Box):
        pass

    class LateObj(CallObj):
        def __call__(self, *a, **k):
            self.unsafe_callable = True
            return rec(self._name, a, k)

    Box.inherited_boom = unsafe(lambda self, *a, **k: rec("inherited_boom", a, k))
    u = Box2()
    u.child = Box("child.")
    uobj, aobj = CallObj("uobj", unsafe_callable=True), CallObj("aobj", alters_data=True)
    extra = {
        "cobj_class_alters": ClassAlters("cobj_class_alters"), "cobj_class_unsafe": ClassUnsafe("cobj_class_unsafe"),
        "cobj_inherited_unsafe": InheritedUnsafe("cobj_inherited_unsafe"), "cobj_inherited_alters": InheritedAlters("cobj_inherited_alters"),
        "cobj_prop_alters": PropAlters("cobj_prop_alters"), "cobj_prop_unsafe": PropUnsafe("cobj_prop_unsafe"),
        "cobj_slots_unsafe": Slots("cobj_slots_unsafe", unsafe_callable=True), "cobj_slots_alters": Slots("cobj_slots_alters", alters_data=True),
        "cobj_getattr_unsafe": GetattrUnsafe("cobj_getattr_unsafe"), "ACls": ACls, "cobj_plain": CallObj("cobj_plain"),
    }
    table = {
        "boom": u.boom, "wipe": u.wipe, "delete_x": u.delete_x, "ok": u.ok, "ufn": ufn, "afn": afn, "delete_fn": delete_fn,
        "sfn2": sfn2, "uobj": uobj, "aobj": aobj, "UCls": UCls, "aboom": u.aboom, "static_boom": u.static_boom,
        "class_wipe": u.class_wipe, "child.boom": u.child.boom, "inherited_boom": u.inherited_boom,
    }
    import os

    bl, bd, bs = [0], {"a": 1}, "abc"
    late_obj = LateObj("late_obj")
    extra.update({"late_fn": late_fn, "late_obj": late_obj, "bl": bl, "bd": bd, "bs": bs, "getcwd": os.getcwd, "blen": len})
    from jinja2 import pass_context, pass_environment, pass_eval_context

    def pc_class(deco, **class_marks):
        class PC:
            def __init__(self, name, **marks):
                self._name = name
                for m, v in marks.items():
                    setattr(self, m, v)

            @deco
            def __call__(self, injected, *a, **k):
                # the engine passes the context / eval context / environment first
                return rec(self._name, a, k)

            def __repr__(self):
                return "<pc %s>" % self._name

        for m, v in class_marks.items():
            setattr(PC, m, v)
        return PC

    @unsafe
    @pass_context
    def pcfn_ctx_unsafe(injected, *a, **k):
        return rec("pcfn_ctx_unsafe", a, k)

    @pass_environment
    def pcfn_env_alters(injected, *a, **k):
        return rec("pcfn_env_alters", a, k)

    pcfn_env_alters.alters_data = True
    pcs = {
        "pc_ctx_unsafe": pc_class(pass_context)("pc_ctx_unsafe", unsafe_callable=True),
        "pc_ctx_class_alters": pc_class(pass_context, alters_data=True)("pc_ctx_class_alters"),
        "pc_eval_unsafe": pc_class(pass_eval_context)("pc_eval_unsafe", unsafe_callable=True),
        "pc_eval_class_unsafe": pc_class(pass_eval_context, unsafe_callable=True)("pc_eval_class_unsafe"),
        "pc_env_alters": pc_class(pass_environment)("pc_env_alters", alters_data=True),
        "pc_env_class_unsafe": pc_class(pass_environment, unsafe_callable=True)("pc_env_class_unsafe"),
        "pc_ctx_listed": pc_class(pass_context)("pc_ctx_listed"),
        "pc_env_listed": pc_class(pass_environment)("pc_env_listed"),
        "pc_ctx_plain": pc_class(pass_context)("pc_ctx_plain"),
        "pc_env_plain": pc_class(pass_environment)("pc_env_plain"),
        "pcfn_ctx_unsafe": pcfn_ctx_unsafe,
        "pcfn_env_alters": pcfn_env_alters,
    }
    extra.update(pcs)
    extra["pcd"] = {"f": pcs["pc_ctx_unsafe"]}
    mdl = Box("mdl.")
    mdl.vt_model = True
    mdl.child = Box("mdl.child.")
    mdl.child.vt_model = True
    mdl_ok = mdl.ok
    extra.update({"mdl": mdl, "cd2": {"m": mdl.save}})
    table.update(extra)
    table.update({"mdl.ok": mdl.ok, "mdl.save": mdl.save, "mdl.child.save": mdl.child.save, "listed": u.listed})
    table.update({"late": u.late, "bl.append": bl.append, "bl.extend": bl.extend, "bd.clear": bd.clear, "bd.update": bd.update,
                  "bd.pop": bd.pop, "bs.upper": bs.upper})
    ctx = {
        "u": u, "ufn": ufn, "afn": afn, "delete_fn": delete_fn, "sfn": sfn, "sfn2": sfn2, "uobj": uobj, "aobj": aobj,
        "UCls": UCls, "cd": {"f": ufn, "d": delete_fn}, "cl": [afn], "yes": True, "no": False,
    }
    ctx.update(extra)
    return ctx, log, table


def blocked(marking, envkind):
    return marking in ("unsafe", "alters", "late") or (marking in ("delete", "builtin", "model") and envkind == "override")


# --- structural oracle: every call of a template value goes through environment.call ------------

def call_structure_violations(code):
    out = []
    for node in ast.walk(ast.parse(code)):
        if not isinstance(node, ast.Call):
            continue
        r = g._root(node.func)
        if isinstance(r, ast.Name):
            if r.id.startswith("l_"):
                out.append("direct call of template value: %s" % ast.unparse(node)[:160])
            continue
        if isinstance(r, ast.Call):
            fn = ast.unparse(r.func)
            if fn in ("environment.getattr", "environment.getitem", "environment.call", "context.call", "auto_await") or re.match(r"^t_\d+$", fn):
                out.append("direct call of a looked-up value: %s" % ast.unparse(node)[:160])
    return out


def _make_env(case):
    s = _setup()
    cls = s["Override"] if case["env"] == "override" else s["SandboxedEnvironment"]
    loader = s["jinja2"].DictLoader(dict(case.get("loader") or {}))
    return cls(enable_async=case["async"], loader=loader, extensions=["jinja2.ext.do", "jinja2.ext.i18n"], cache_size=0)


def check_case(case):
    s = _setup()
    env = _make_env(case)
    src, name, marking = case["src"], case["callable"], case["marking"]
    is_blocked = blocked(marking, case["env"])
    reached = case["reached"]
    where = "\n  env=%s async=%s callable=%s (%s) reached=%s\n  template: %s" % (case["env"], case["async"], name, marking, reached, src)

    for tname, tsrc in [("<main>", src)] + sorted((case.get("loader") or {}).items()):
        bad = call_structure_violations(env.compile(tsrc, raw=True))
        if bad:
            raise core.Violation("generated code calls a template value without environment.call: %s (template %s)%s" % (bad[0], tname, where))

    ctx, log, table = make_world()
    env.vt_blocklist = [ctx["u"].listed, ctx["pc_ctx_listed"], ctx["pc_env_listed"]]
    for cname, pyname in (case.get("ctxbind") or {}).items():
        ctx[cname] = table[pyname]  # the recorder is a context variable with an engine-special name
    for prior in case.get("prior") or ():
        g.render(env, prior, ctx)  # earlier renders on the same environment: safe calls only
    prior_log = list(log)
    del log[:]
    try:
        out, err = g.render(env, src, ctx), None
    except s["SecurityError"] as e:
        out, err = None, e
    except (TypeError, KeyError, ValueError) as e:
        if marking != "builtin":
            raise
        # a C-implemented callable complaining about its arguments has been called
        raise core.Violation("builtin callable rejected by the overriding is_safe_callable was called (it raised %s: %s)%s" % (type(e).__name__, e, where))
    called = [e for e in log if e[0] == name]
    names = [e[0] for e in log]
    # no callable the environment deems unsafe may ever run, whichever one the case is about
    unsafe_py = {pyname for pyname, mk in g.CALLABLES.values() if blocked(mk, case["env"]) and mk != "late"}
    ran_unsafe = [e for e in log if e[0] in unsafe_py]
    if ran_unsafe:
        raise core.Violation("unsafe callable was invoked: %r (log %r)%s" % (ran_unsafe[:3], log[:6], where))
    if marking == "late":
        # exactly the one first use (made by the prelude) may have run
        n_late = len([e for e in prior_log + log if e[0] == name])
        if n_late != 1:
            raise core.Violation("callable flagged alters_data after its first use ran %d times (expected once) (log %r)%s" % (n_late, (prior_log + log)[:8], where))
        called = [] if not reached else called
    if marking == "builtin" and (ctx["bl"] != [0] or ctx["bd"] != {"a": 1}):
        raise core.Violation("builtin method rejected by the overriding is_safe_callable ran: bl=%r bd=%r%s" % (ctx["bl"], ctx["bd"], where))
    if case.get("prelude") and not [e for e in prior_log + log if e[0] in ("ping", name)]:
        raise core.Violation("the safe calls preceding the call site did not run (log %r)%s" % ((prior_log + log)[:6], where))
    if "sfn:pre" not in names:
        raise core.Violation("the safe call before the call site did not run (log %r)%s" % (log[:6], where))
    if reached and is_blocked:
        if err is None:
            raise core.Violation("call site of an unsafe callable was reached but no SecurityError was raised; output %r%s" % (out, where))
    else:
        if err is not None:
            raise core.Violation("SecurityError although no unsafe call site is reached: %s%s" % (err, where))
        if "sfn:post" not in names:
            raise core.Violation("the safe call after the call site did not run (log %r)%s" % (log[:6], where))
        if reached and not called:
            raise core.Violation("the safe callable at a reached call site was not invoked (log %r)%s" % (log[:6], where))
        if not reached and called:
            raise core.Violation("callable invoked although its call site is not reached (log %r)%s" % (log[:6], where))
    nontrivial = reached and is_blocked and case["levels"] >= 1
    labels = [
        case["env"] + ("_async" if case["async"] else "_sync"),
        "mark_" + marking,
        "reached" if reached else "unreached",
        "blocked" if is_blocked else "allowed",
        "levels_%d" % min(case["levels"], 3),
        "path_" + case["path"],
        "prelude_" + case.get("prelude", "none"),
    ]
    return core.Outcome(nontrivial, labels)


def shards(tier):
    return [{"i": i} for i in range(16)]


def run_shard(spec, ctx):
    rec = core.Rec()
    if ctx.quick:
        core.enum_shard(core.sliced(g.call_core_cases(), ctx.index, ctx.nshards), check_case, ctx, rec=rec)
        if not rec.violations:
            core.hyp_shard(g.call_case(), check_case, ctx, 2500, rec=rec, tag="call")
    else:
        # thorough: the complete product of the grammar with up to two nested wrappers (about 2e6 programs)
        core.enum_shard(core.sliced(g.call_full_cases(), ctx.index, ctx.nshards), check_case, ctx, rec=rec)
    return rec


def floors(total, tier):
    lab = total.labels
    for k in ("default_sync", "default_async", "override_sync", "override_async", "mark_unsafe", "mark_alters", "mark_delete",
              "mark_safe", "mark_late", "mark_builtin", "mark_model", "unreached", "levels_2", "prelude_prior_render", "prelude_method_before"):
        if lab.get(k, 0) < 200:
            return "class %s has only %d cases" % (k, lab.get(k, 0))
    missing = [p for p in g.CALL_PATHS if lab.get("path_" + p, 0) < 20]
    if missing:
        return "call paths barely exercised: %s" % missing
    return None
