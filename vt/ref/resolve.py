"""Reference inheritance resolver and reference context-propagation / module-export model.

This is an *independent* interpreter for the small template language of ``vt.gen.tsets`` (JSON IR):
it never imports jinja2.  It decides

* template inheritance (DESIGN.md 3.3): block stacks most-derived first, ``super()``,
  ``super.super()``, ``self.b()``, scoped blocks, required blocks, static / conditional /
  variable / template-object ``extends``, suppression of stray child output, the one shared
  context that every template of a chain writes its top-level names into;
* include / import visibility and module exports (DESIGN.md 3.4): with context = render context
  + the includer's local variables, without context = environment globals only, module
  attributes = public top-level macros and assignments that were executed, ``ignore missing``,
  name lists, template objects.

Public entry points
-------------------
``resolve(ir, data) -> {entry name: {"out": text} | {"err": exception class name}}``
``module_exports(ir, name, data) -> {"names": sorted public export names, "values": {name: printable value}} | {"err": ...}``
``Interp(ir, data)`` gives access to ``events`` (set of labels describing what the case exercised).

``Ambiguous`` is raised when the case touches behaviour that the documentation does not define
(callers count the case as discarded):

* a block body run through ``self.b()`` or through a *non-scoped* nested placement inside a scoped
  block's context reads a name that exists only because of that derived context;
* a macro (closure) read of a top-level name of its own template that is assigned somewhere in the
  template but not yet at call time while an outer binding exists (DESIGN.md 3.2);
* ``super()`` reaching a ``required`` definition; printing a macro / module / template object.

Error classes are reported by family name: "UndefinedError", "TemplateRuntimeError" (strictly, not
the UndefinedError subclass), "TemplateNotFound" (includes TemplatesNotFound), "TemplateSyntaxError".

IR (all JSON)
-------------
ir = {"kind": "inherit"|"modules", "templates": {name: [node, ...] | {"broken": source}},
      "entries": [names], "globals": {name: value}, "modules": [names whose export set is checked],
      "autoescape": False | True | {"on_for": [template names]}  (optional; the last form is a callable by name),
      "tglobals": {entry name: {name: value}}  (optional; template-level globals the entry is loaded with)}

Template-level globals (``get_template(name, globals=...)``) belong to the entry's own context: the
entry, its with-context includes/imports and its *direct* imports without context see them (the
imported module sees the importing template's globals).  Whether anything further away sees them
(include without context, imports made by an imported/included template or from a scoped block's
derived context) is not documented: a lookup of such a name that finds nothing is Ambiguous.

Escaping model: every function (template root, block, macro) escapes its own ``{{ }}`` outputs iff
autoescaping is on *lexically* (the template's setting, changed by ``{% autoescape %}`` sections);
results of super() / self.b() / macro calls / caller() / set blocks are safe markup whenever
autoescaping is on where they are produced, so they are never escaped again; ``a + b`` and ``a ~ b``
with one safe operand escape the other one.  Where the run-time setting of the context and the lexical
setting disagree *and* that would be visible (a block called from inside a section that switches
escaping off and itself printing a block reference; block references in + / ~) the case is Ambiguous.

expressions  ["add", e, e]  (``a + b`` on strings / markup)
             ["caller"]  (``caller()`` inside a macro invoked by a call block)
             ["c", const] ["n", name] ["cat", e, e] ["cond", test, e, e] ["call", name, [e..]] ["attr", name, attr]
             ["mcall", name, attr, [e..]] ["super", depth] ["self", block] ["loopidx"] ["defd", e] ["not", e]
statements   ["setmulti", [names], [e..]]  (``{% set a, _b = e1, e2 %}``)
             ["text", s] ["comment", s] ["out", e] ["probe", [names]] ["set", name, e] ["setblock", name, body]
             ["if", e, body, else_body] ["for", var, [const..], body] ["with", name, e, body]
             ["macro", name, [params], body] ["block", name, {"scoped":b, "required":b}, body]
             ["extends", e] ["include", target, {"ctx": None|True|False, "im": bool}]
             ["import", target, alias, ctx] ["from", target, [[name, alias|None]..], ctx]
             ["callblock", macro, [e..], body] ["filter", "upper"|"default_D", body]
             ["autoescape", bool, body]  (a scope of its own; blocks are never placed inside)
targets      an expression, or ["names", [e..]] for a literal list
data values  str / int / bool / None / list of these / {"$": "template", "name": n}
"""
from __future__ import annotations

MAX_DEPTH = 40


class Ambiguous(Exception):
    """The documentation does not define the behaviour this case touches."""


class TplError(Exception):
    def __init__(self, family, msg=""):
        super().__init__("%s: %s" % (family, msg))
        self.family = family


class _U:
    """Default Undefined: prints '', false, not defined, calling / attribute access fails."""

    __slots__ = ()

    def __repr__(self):
        return "U"


U = _U()


class Safe(str):
    """Markup: text that is not escaped again."""

    __slots__ = ()


def escape(text):
    return text.replace("&", "&amp;").replace("<", "&lt;").replace(">", "&gt;").replace("'", "&#39;").replace('"', "&#34;")


class Macro:
    __slots__ = ("name", "params", "body", "ctx", "scopes", "tname", "tl", "ae")

    def __init__(self, name, params, body, ctx, scopes, tname, tl, ae=False):
        self.name, self.params, self.body, self.ctx, self.scopes, self.tname, self.tl = name, params, body, ctx, scopes, tname, tl
        self.ae = ae


class Module:
    __slots__ = ("tname", "exports", "body")

    def __init__(self, tname, exports, body):
        self.tname, self.exports, self.body = tname, exports, body


class TplObj:
    __slots__ = ("name",)

    def __init__(self, name):
        self.name = name


class Caller:
    """The ``caller`` of a call block: its body, closed over the frame the call block stands in."""

    __slots__ = ("body", "frame")

    def __init__(self, body, frame):
        self.body, self.frame = body, frame


def uses_caller(x):
    if isinstance(x, list):
        if len(x) == 1 and x[0] == "caller":
            return True
        return any(uses_caller(y) for y in x)
    return False


class Loop:
    __slots__ = ("index",)

    def __init__(self, index):
        self.index = index


class Ctx:
    """One render context: ``parent`` (read only), ``vars`` (top-level assignments), ``exported``,
    ``blocks`` name -> [(template name, block node)] most-derived first.  ``extra`` = names that are
    in ``parent`` only because this is a derived (scoped-block) context."""

    def __init__(self, parent, blocks=None, extra=frozenset(), dyn=None):
        self.dyn = dyn  # [bool]: the context's run-time autoescape setting (shared with derived contexts)
        self.gextra = {}  # template-level globals of the template owning this context
        self.parent = parent
        self.vars = {}
        self.exported = set()
        self.blocks = blocks if blocks is not None else {}
        self.extra = extra

    def flat(self):
        d = dict(self.parent)
        d.update(self.vars)
        return d


class Frame:
    """Lexical state of one generated function (template root, block, macro, set-block)."""

    def __init__(self, ctx, tname, scopes=None, toplevel=False, root=None, block=None, ok=frozenset(), own=0):
        self.ctx = ctx
        self.tname = tname
        self.scopes = scopes if scopes is not None else []  # innermost last
        self.toplevel = toplevel  # True only for the template's root function (if/else keep it)
        self.root = root  # RootState when output of this frame is subject to the extends check
        self.block = block  # (name, index in stack)
        self.ok = ok  # names of ctx.extra this frame may legitimately read
        self.own = own  # index into scopes: scopes[own:] belong to this function (closure scopes before)
        self.closure = False  # True inside a macro body (reads of enclosing names are closure reads)
        self.tl = root  # RootState of the template root function this frame is lexically nested in (or None)
        self.ae = False  # lexical autoescape setting


class RootState:
    """Run-time state of one template root function: the parent set by ``extends`` and the
    top-level names this function has assigned so far."""

    __slots__ = ("parent", "assigned")

    def __init__(self):
        self.parent = None
        self.assigned = set()


class Scope(dict):
    """One lexical level (loop body, with body, macro body, set block, block body); ``declared`` =
    names this level assigns somewhere in its own statements."""

    __slots__ = ("declared",)

    def __init__(self, values, declared):
        super().__init__(values)
        self.declared = declared


def static_stores(body):
    """Names assigned at this scope level (if/else bodies included, nested scopes not)."""
    out = set()
    for n in body:
        k = n[0]
        if k in ("set", "setblock", "macro"):
            out.add(n[1])
        elif k == "setmulti":
            out.update(n[1])
        elif k == "import":
            out.add(n[2])
        elif k == "from":
            for name, alias in n[2]:
                out.add(alias or name)
        elif k == "if":
            out |= static_stores(n[2]) | static_stores(n[3])
    return out


def find_blocks(body, acc=None):
    acc = {} if acc is None else acc
    for n in body:
        k = n[0]
        if k == "block":
            acc[n[1]] = n
            find_blocks(n[3], acc)
        elif k == "if":
            find_blocks(n[2], acc)
            find_blocks(n[3], acc)
        elif k in ("for", "with", "macro", "callblock"):
            find_blocks(n[3], acc)
        elif k in ("setblock", "filter", "autoescape"):
            find_blocks(n[2], acc)
    return acc


def decode(v):
    if isinstance(v, dict):
        if v.get("$") == "template":
            return TplObj(v["name"])
        raise ValueError("unknown tagged value %r" % (v,))
    if isinstance(v, list):
        return [decode(x) for x in v]
    return v


def to_text(v):
    if v is U:
        return ""
    if isinstance(v, bool):
        return "True" if v else "False"
    if isinstance(v, (int, str)):
        return str(v)
    if v is None:
        return "None"
    if isinstance(v, Module):
        return Safe(v.body)
    raise Ambiguous("printing %s" % type(v).__name__)


def truth(v):
    if v is U:
        return False
    if isinstance(v, (Macro, Module, TplObj)):
        return True
    return bool(v)


class Interp:
    def __init__(self, ir, data):
        self.ir = ir
        self.templates = ir["templates"]
        self.globals = {k: decode(v) for k, v in (ir.get("globals") or {}).items()}
        self.data = {k: decode(v) for k, v in data.items()}
        self.events = set()
        self.default_modules = {}
        self.depth = 0
        self._tl = {}
        self._blocks = {}
        self.autoescape = ir.get("autoescape") or False
        self.tglobals = {k: {n: decode(v) for n, v in d.items()} for k, d in (ir.get("tglobals") or {}).items()}
        self.cur_tg_names = frozenset()

    def autoescape_for(self, tname):
        a = self.autoescape
        if isinstance(a, dict):
            return tname in a["on_for"]
        return bool(a)

    def printed(self, v, frame):
        """Text a ``{{ }}`` output of value ``v`` contributes in ``frame``."""
        t = to_text(v)
        if frame.ae and not isinstance(t, Safe) and not isinstance(v, Safe):
            return escape(t)
        return str(t)

    def produced(self, text, frame, direct):
        """Result of a block reference / macro call / caller(): markup iff the context's run-time
        setting is on.  ``direct`` = the result is printed as it is by the calling frame."""
        dyn = frame.ctx.dyn[0]
        if direct:
            if frame.ae and not dyn:
                raise Ambiguous("block reference printed where lexical autoescape is on but the context's is off")
        elif dyn != frame.ae:
            raise Ambiguous("block reference used in an expression where lexical and run-time autoescape differ")
        return Safe(text) if dyn else text

    # -- template table ------------------------------------------------------------------
    def load(self, name):
        """-> template name; raises TemplateNotFound / TemplateSyntaxError like a loader would."""
        if isinstance(name, TplObj):
            name = name.name
        elif name is U:
            raise TplError("UndefinedError", "template name is undefined")
        elif not isinstance(name, str):
            raise Ambiguous("template name of type %s" % type(name).__name__)
        t = self.templates.get(name)
        if t is None:
            raise TplError("TemplateNotFound", name)
        if isinstance(t, dict):
            raise TplError("TemplateSyntaxError", name)
        return name

    def tl_stores(self, tname):
        if tname not in self._tl:
            self._tl[tname] = static_stores(self.templates[tname])
        return self._tl[tname]

    def blocks_of(self, tname):
        if tname not in self._blocks:
            self._blocks[tname] = find_blocks(self.templates[tname])
        return self._blocks[tname]

    # -- entry points --------------------------------------------------------------------
    def render(self, tname):
        tg = self.tglobals.get(tname, {})
        self.cur_tg_names = frozenset(tg)
        base = dict(self.globals)
        base.update(tg)
        base.update(self.data)
        ctx = Ctx(base)
        ctx.gextra = tg
        out = []
        self.run_template(self.load(tname), ctx, out)
        return "".join(out)

    def run_template(self, tname, ctx, out):
        """Run a template as the start of a (possible) inheritance chain in ``ctx``."""
        for bname, node in self.blocks_of(tname).items():
            ctx.blocks.setdefault(bname, []).append((tname, node))
        if ctx.dyn is None:
            ctx.dyn = [self.autoescape_for(tname)]
        cur = tname
        seen = 0
        while cur is not None:
            seen += 1
            if seen > 12:
                raise Ambiguous("inheritance cycle")
            root = RootState()
            frame = Frame(ctx, cur, toplevel=True, root=root)
            frame.ae = self.autoescape_for(cur)
            self.body(self.templates[cur], frame, out)
            cur = root.parent
        return ctx

    def make_module(self, tname, parent, extra=frozenset(), gextra=None):
        ctx = Ctx(parent, extra=extra)
        ctx.gextra = gextra or {}
        out = []
        self.run_template(tname, ctx, out)
        return Module(tname, {k: ctx.vars[k] for k in ctx.exported}, "".join(out))

    def default_module(self, tname):
        if tname not in self.default_modules:
            self.default_modules[tname] = self.make_module(tname, dict(self.globals))
        return self.default_modules[tname]

    # -- name lookup ---------------------------------------------------------------------
    def lookup(self, name, frame):
        scopes = frame.scopes
        n = len(scopes)
        ctx = frame.ctx
        for i in range(n - 1, -1, -1):
            s = scopes[i]
            if name in s:
                return s[name]
            if i < n - 1 and name in s.declared:
                # an enclosing level assigns the name, but not yet: the inner read finds nothing, even
                # when a binding exists further out -- not defined by the documentation (DESIGN.md 3.2)
                if any(name in scopes[j] for j in range(i)) or name in ctx.vars or name in ctx.parent:
                    raise Ambiguous("inner-scope read of later-assigned name %r" % name)
                return U
        if frame.tl is not None and n > 0 and name in self.tl_stores(frame.tname) and name not in frame.tl.assigned:
            if name in ctx.vars or name in ctx.parent:
                raise Ambiguous("inner-scope read of later-assigned top-level name %r" % name)
            return U
        if name in ctx.vars:
            return ctx.vars[name]
        if name in ctx.parent:
            if name in ctx.extra and name not in frame.ok:
                raise Ambiguous("block reads %r through a derived context it was not scoped into" % name)
            return ctx.parent[name]
        if name in self.cur_tg_names:
            raise Ambiguous("template-level global %r not visible here" % name)
        return U

    def visible(self, frame):
        """Flattened view used for `with context` and for scoped blocks: context + local variables
        of the current function (closure scopes included, as the generated code captures them)."""
        if frame.ctx.extra - frame.ok:
            raise Ambiguous("context passed on from a derived context")
        d = frame.ctx.flat()
        local = {}
        for s in frame.scopes:
            for k, v in s.items():
                local[k] = v
        d.update(local)
        return d, local

    # -- expressions ---------------------------------------------------------------------
    def ev(self, e, frame, direct=False):
        k = e[0]
        if k == "c":
            return e[1]
        if k == "n":
            return self.lookup(e[1], frame)
        if k == "cat":
            va, vb = self.ev(e[1], frame), self.ev(e[2], frame)
            a, b = to_text(va), to_text(vb)
            sa, sb = isinstance(va, Safe) or isinstance(a, Safe), isinstance(vb, Safe) or isinstance(b, Safe)
            if frame.ae and (sa or sb):
                return Safe((a if sa else escape(a)) + (b if sb else escape(b)))
            return str(a) + str(b)
        if k == "add":
            a, b = self.ev(e[1], frame), self.ev(e[2], frame)
            if not isinstance(a, str) or not isinstance(b, str):
                raise Ambiguous("+ on non-strings")
            if isinstance(a, Safe) or isinstance(b, Safe):
                return Safe((a if isinstance(a, Safe) else escape(a)) + (b if isinstance(b, Safe) else escape(b)))
            return a + b
        if k == "not":
            return not truth(self.ev(e[1], frame))
        if k == "cond":
            return self.ev(e[2], frame) if truth(self.ev(e[1], frame)) else self.ev(e[3], frame)
        if k == "defd":
            return self.ev(e[1], frame) is not U if e[1][0] == "n" else self.ev_attr_defined(e[1], frame)
        if k == "call":
            fn = self.lookup(e[1], frame)
            args = [self.ev(a, frame) for a in e[2]]
            return self.produced(self.call(fn, args, e[1]), frame, direct)
        if k == "attr":
            return self.getattr(self.lookup(e[1], frame), e[2], e[1])
        if k == "mcall":
            fn = self.getattr(self.lookup(e[1], frame), e[2], e[1])
            args = [self.ev(a, frame) for a in e[3]]
            return self.produced(self.call(fn, args, e[2]), frame, direct)
        if k == "caller":
            c = self.lookup("caller", frame)
            if c is U:
                raise TplError("UndefinedError", "caller is undefined")
            if not isinstance(c, Caller):
                raise Ambiguous("'caller' bound to data")
            return self.produced(self.run_caller(c), frame, direct)
        if k == "loopidx":
            lp = self.lookup("loop", frame)
            if lp is U:
                raise TplError("UndefinedError", "loop is undefined")
            if not isinstance(lp, Loop):
                raise Ambiguous("'loop' bound to data")
            return lp.index
        if k == "super":
            return self.produced(self.ev_super(e[1], frame), frame, direct)
        if k == "self":
            return self.produced(self.ev_self(e[1], frame), frame, direct)
        raise ValueError("unknown expression %r" % (e,))

    def ev_attr_defined(self, e, frame):
        if e[0] == "attr":
            return self.getattr(self.lookup(e[1], frame), e[2], e[1]) is not U
        raise ValueError("defd of %r" % (e,))

    def getattr(self, obj, attr, what):
        if obj is U:
            raise TplError("UndefinedError", "%s is undefined" % what)
        if isinstance(obj, Module):
            return obj.exports.get(attr, U)
        raise Ambiguous("attribute of %s" % type(obj).__name__)

    def run_caller(self, c):
        f = c.frame
        self.enter()
        try:
            sub = Frame(f.ctx, f.tname, scopes=f.scopes + [Scope({}, static_stores(c.body))], block=f.block, ok=f.ok, own=f.own)
            sub.closure = True
            sub.tl = f.tl
            sub.ae = f.ae
            buf = []
            self.body(c.body, sub, buf)
            return "".join(buf)
        finally:
            self.depth -= 1

    def call(self, fn, args, what, caller=None):
        if fn is U:
            raise TplError("UndefinedError", "%s is undefined" % what)
        if not isinstance(fn, Macro):
            raise Ambiguous("calling %s" % type(fn).__name__)
        if len(args) > len(fn.params):
            raise Ambiguous("too many macro arguments")
        self.enter()
        try:
            scope = Scope({p: (args[i] if i < len(args) else U) for i, p in enumerate(fn.params)},
                          static_stores(fn.body) | set(fn.params))
            if caller is not None:
                if not uses_caller(fn.body):
                    raise Ambiguous("call block on a macro without caller")
                scope["caller"] = caller
            elif uses_caller(fn.body):
                scope["caller"] = U
            scopes = list(fn.scopes) + [scope]
            frame = Frame(fn.ctx, fn.tname, scopes=scopes, own=len(fn.scopes))
            frame.closure = True
            frame.tl = fn.tl
            frame.ae = fn.ae
            out = []
            self.body(fn.body, frame, out)
            return "".join(out)
        finally:
            self.depth -= 1

    def enter(self):
        self.depth += 1
        if self.depth > MAX_DEPTH:
            raise Ambiguous("recursion")

    def ev_super(self, depth, frame):
        if frame.block is None:
            raise Ambiguous("super outside a block")
        name, idx = frame.block
        stack = frame.ctx.blocks.get(name, [])
        for d in range(1, depth + 1):
            if idx + d >= len(stack):
                raise TplError("UndefinedError", "no parent block %r" % name)
        target = idx + depth
        if stack[target][1][2].get("required"):
            raise Ambiguous("super() reaches a required block")
        self.events.add("super%d" % depth)
        return self.run_block(name, target, frame.ctx, frame.ok)

    def ev_self(self, bname, frame):
        stack = frame.ctx.blocks.get(bname)
        if not stack:
            raise TplError("UndefinedError", "self has no block %r" % bname)
        if stack[0][1][2].get("required"):
            raise Ambiguous("self.b() of a required block")
        self.events.add("selfcall")
        return self.run_block(bname, 0, frame.ctx, frozenset())

    def run_block(self, name, idx, ctx, ok):
        self.enter()
        try:
            tname, node = ctx.blocks[name][idx]
            frame = Frame(ctx, tname, scopes=[Scope({}, static_stores(node[3]))], block=(name, idx), ok=ok)
            frame.ae = self.autoescape_for(tname)
            out = []
            self.body(node[3], frame, out)
            return "".join(out)
        finally:
            self.depth -= 1

    # -- statements ----------------------------------------------------------------------
    def emit(self, frame, out, text):
        if frame.root is not None and frame.root.parent is not None:
            self.events.add("stray_output_suppressed")
            return
        out.append(text)

    def assign(self, frame, name, value, discard=False):
        if frame.toplevel and len(frame.scopes) == 0:
            ctx = frame.ctx
            ctx.vars[name] = value
            frame.root.assigned.add(name)
            if discard:
                if not name.startswith("_"):
                    ctx.exported.discard(name)
            elif not name.startswith("_"):
                ctx.exported.add(name)
            else:
                self.events.add("private_toplevel")
            if frame.root is not None and frame.root.parent is not None:
                self.events.add("stray_assignment_executed")
        else:
            frame.scopes[-1][name] = value
            self.events.add("local_assignment")

    def body(self, nodes, frame, out):
        for n in nodes:
            self.stmt(n, frame, out)

    def stmt(self, n, frame, out):
        k = n[0]
        if k == "text":
            self.emit(frame, out, n[1])
        elif k == "comment":
            pass
        elif k == "out":
            if frame.root is not None and frame.root.parent is not None:
                # compiled out (static extends) or skipped at run time: not even evaluated
                self.events.add("stray_output_suppressed")
                return
            self.emit(frame, out, self.printed(self.ev(n[1], frame, direct=True), frame))
        elif k == "probe":
            if frame.root is not None and frame.root.parent is not None:
                return
            parts = []
            for name in n[1]:
                v = self.lookup(name, frame)
                parts.append("%s=%s:%s;" % (name, "True" if v is not U else "False", self.printed(v, frame)))
            self.emit(frame, out, "".join(parts))
        elif k == "set":
            self.assign(frame, n[1], self.ev(n[2], frame))
        elif k == "setmulti":
            values = [self.ev(e, frame) for e in n[2]]
            if len(values) != len(n[1]):
                raise ValueError("setmulti arity")
            self.events.add("multi_target_assignment")
            if any(x.startswith("_") for x in n[1]) and not all(x.startswith("_") for x in n[1]):
                self.events.add("multi_target_mixed_private")
            for name, v in zip(n[1], values):
                self.assign(frame, name, v)
        elif k == "setblock":
            sub = Frame(frame.ctx, frame.tname, scopes=frame.scopes + [Scope({}, static_stores(n[2]))], block=frame.block,
                        ok=frame.ok, own=frame.own)
            sub.closure = frame.closure
            sub.tl = frame.tl
            sub.ae = frame.ae
            buf = []
            self.body(n[2], sub, buf)
            if frame.ctx.dyn[0] != frame.ae:
                raise Ambiguous("set block where lexical and run-time autoescape differ")
            text = "".join(buf)
            self.assign(frame, n[1], Safe(text) if frame.ae else text)
        elif k == "if":
            self.body(n[2] if truth(self.ev(n[1], frame)) else n[3], frame, out)
        elif k == "for":
            items = n[2]
            for idx, item in enumerate(items):
                frame.scopes.append(Scope({n[1]: item, "loop": Loop(idx + 1)}, static_stores(n[3]) | {n[1]}))
                try:
                    self.body(n[3], frame, out)
                finally:
                    frame.scopes.pop()
        elif k == "with":
            v = self.ev(n[2], frame)
            frame.scopes.append(Scope({n[1]: v}, static_stores(n[3]) | {n[1]}))
            try:
                self.body(n[3], frame, out)
            finally:
                frame.scopes.pop()
        elif k == "macro":
            m = Macro(n[1], n[2], n[3], frame.ctx, list(frame.scopes), frame.tname, frame.tl, frame.ae)
            if not (frame.toplevel and len(frame.scopes) == 0):
                self.events.add("nested_macro")
            self.assign(frame, n[1], m)
        elif k == "autoescape":
            flag = bool(n[1])
            old_dyn, old_ae = frame.ctx.dyn[0], frame.ae
            frame.ctx.dyn[0] = frame.ae = flag
            was_top = frame.toplevel
            frame.toplevel = False  # the section is a scope of its own: assignments inside are local
            frame.scopes.append(Scope({}, static_stores(n[2])))
            self.events.add("autoescape_section_%s" % ("on" if flag else "off"))
            if flag != old_ae:
                self.events.add("autoescape_section_flips")
            try:
                self.body(n[2], frame, out)
            finally:
                frame.scopes.pop()
                frame.toplevel = was_top
                frame.ctx.dyn[0], frame.ae = old_dyn, old_ae
        elif k == "callblock":
            if frame.root is not None and frame.root.parent is not None:
                self.events.add("stray_callblock_suppressed")
                return
            fn = self.lookup(n[1], frame)
            args = [self.ev(a, frame) for a in n[2]]
            self.events.add("callblock")
            self.emit(frame, out, self.call(fn, args, n[1], caller=Caller(n[3], frame)))
        elif k == "filter":
            if frame.root is not None and frame.root.parent is not None:
                self.events.add("stray_filterblock_suppressed")
                return
            sub = Frame(frame.ctx, frame.tname, scopes=frame.scopes + [Scope({}, static_stores(n[2]))], block=frame.block,
                        ok=frame.ok, own=frame.own)
            sub.closure = frame.closure
            sub.tl = frame.tl
            sub.ae = frame.ae
            buf = []
            self.body(n[2], sub, buf)
            text = "".join(buf)
            if n[1] == "upper":
                text = text.upper()
            elif n[1] == "default_D":
                text = text if text else "D"
            else:
                raise ValueError("unknown filter %r" % (n[1],))
            self.events.add("filterblock")
            self.emit(frame, out, text)
        elif k == "block":
            self.block_site(n, frame, out)
        elif k == "extends":
            if not frame.toplevel:
                raise ValueError("extends below top level")
            if frame.root.parent is not None:
                raise TplError("TemplateRuntimeError", "extended multiple times")
            parent = self.load(self.ev(n[1], frame))
            for bname, node in self.blocks_of(parent).items():
                frame.ctx.blocks.setdefault(bname, []).append((parent, node))
            frame.root.parent = parent
            self.events.add("extends_" + n[1][0])
        elif k == "include":
            self.include(n, frame, out)
        elif k == "import":
            mod = self.import_module(n[1], n[3], frame)
            self.assign(frame, n[2], mod, discard=True)
        elif k == "from":
            mod = self.import_module(n[1], n[3], frame)
            for name, alias in n[2]:
                v = mod.exports.get(name, U)
                if v is U:
                    self.events.add("from_unexported")
                self.assign(frame, alias or name, v, discard=True)
        else:
            raise ValueError("unknown statement %r" % (n,))

    def block_site(self, n, frame, out):
        name, flags = n[1], n[2]
        if frame.root is not None and frame.root.parent is not None:
            if frame.scopes:
                self.events.add("child_block_in_local_scope")
            return  # a child only *defines* the block (also inside its top-level if / for / with)
        ctx = frame.ctx
        stack = ctx.blocks[name]
        if frame.ae != self.autoescape_for(frame.tname):
            raise Ambiguous("block placed inside an autoescape section")
        if flags.get("required"):
            if len(stack) <= 1:
                raise TplError("TemplateRuntimeError", "required block %r not found" % name)
            self.events.add("required_overridden")
        if stack[0][1][2].get("required"):
            # a more-derived template re-declares the block as required: multi-level `required`
            raise Ambiguous("most-derived definition is itself required")
        if flags.get("scoped"):
            flatd, local = self.visible(frame)
            own_local = set(local)
            sub = Ctx(flatd, blocks=ctx.blocks, extra=frozenset(ctx.extra | own_local), dyn=ctx.dyn)
            ok = frozenset(frame.ok | own_local)
            if own_local:
                self.events.add("scoped_with_locals")
            text = self.run_block(name, 0, sub, ok)
        else:
            if any(frame.scopes) and any(k != "loop" for s in frame.scopes for k in s):
                self.events.add("unscoped_in_local_scope")
            text = self.run_block(name, 0, ctx, frozenset())
        if len(stack) > 1:
            self.events.add("override_depth_%d" % min(len(stack), 4))
        out.append(text)

    def resolve_target(self, target, frame):
        """-> list of candidate names/objects, is_list"""
        if target[0] == "names":
            return [self.ev(e, frame) for e in target[1]], True
        v = self.ev(target, frame)
        if isinstance(v, list):
            return v, True
        return [v], False

    def include(self, n, frame, out):
        target, opts = n[1], n[2]
        if frame.root is not None and frame.root.parent is not None:
            # stray content of a child template: like any other output it is not rendered
            self.events.add("stray_include_suppressed")
            return
        cands, is_list = self.resolve_target(target, frame)
        tname = None
        try:
            if is_list:
                if not cands:
                    raise TplError("TemplateNotFound", "empty list")
                for i, c in enumerate(cands):
                    try:
                        tname = self.load(c)
                    except TplError as e:
                        if e.family in ("TemplateNotFound", "UndefinedError"):
                            if i == 0:
                                self.events.add("list_first_missing")
                            continue
                        raise
                    break
                if tname is None:
                    raise TplError("TemplateNotFound", "none of the templates exist")
            else:
                tname = self.load(cands[0])
        except TplError as e:
            if e.family == "TemplateNotFound" and opts.get("im"):
                self.events.add("ignored_missing")
                return
            raise
        if isinstance(cands[0], TplObj) or any(isinstance(c, TplObj) for c in cands):
            self.events.add("template_object")
        wc = opts.get("ctx")
        wc = True if wc is None else wc
        self.enter()
        try:
            if wc:
                flatd, local = self.visible(frame)
                self.note_locals(frame, local, "include")
                ctx = Ctx(flatd)
                buf = []
                self.run_template(tname, ctx, buf)
                text = "".join(buf)
            else:
                self.events.add("include_without_context")
                if any(frame.scopes) or frame.ctx.vars or self.data:
                    self.events.add("include_nocontext_hides")
                text = self.default_module(tname).body
        finally:
            self.depth -= 1
        self.emit(frame, out, text)

    def note_locals(self, frame, local, what):
        base = frame.ctx.flat()
        for k, v in local.items():
            if k == "loop":
                continue
            if k not in base or base[k] is not v and base[k] != v:
                self.events.add(what + "_sees_local")
                if k in base:
                    self.events.add(what + "_local_shadows_context")

    def import_module(self, target, wc, frame):
        tname = self.load(self.ev(target, frame))
        wc = bool(wc)
        self.enter()
        try:
            if wc:
                flatd, local = self.visible(frame)
                self.note_locals(frame, local, "import")
                self.events.add("import_with_context")
                return self.make_module(tname, flatd)
            self.events.add("import_without_context")
            gx = frame.ctx.gextra
            if gx:
                # the imported module sees the importing template's globals: a fresh, uncached module
                self.events.add("import_sees_template_globals")
                parent = dict(self.globals)
                parent.update(gx)
                return self.make_module(tname, parent)
            return self.default_module(tname)
        finally:
            self.depth -= 1


def _guard(fn):
    try:
        return {"out": fn()}
    except TplError as e:
        return {"err": e.family}


def resolve(ir, data):
    """Expected result of rendering every entry template of ``ir`` with ``data``.

    -> {name: {"out": text} | {"err": family}}; raises Ambiguous when any entry is undecided."""
    res = {}
    for name in ir["entries"]:
        it = Interp(ir, data)
        res[name] = _guard(lambda: it.render(name))
    return res


def resolve_with_events(ir, data):
    res, events = {}, set()
    for name in ir["entries"]:
        it = Interp(ir, data)
        res[name] = _guard(lambda: it.render(name))
        events |= it.events
    return res, events


def module_exports(ir, name, data):
    """Expected public attributes of ``get_template(name).make_module(data)``."""
    it = Interp(ir, data)

    def run():
        tg = it.tglobals.get(name, {})
        it.cur_tg_names = frozenset(tg)
        base = dict(it.globals)
        base.update(tg)
        base.update(it.data)
        mod = it.make_module(it.load(name), base, gextra=tg)
        vals = {}
        for k, v in mod.exports.items():
            vals[k] = to_text(v) if isinstance(v, (str, int, bool)) or v is U else {"kind": type(v).__name__}
        return {"names": sorted(mod.exports), "values": vals, "body": mod.body}

    try:
        return run()
    except TplError as e:
        return {"err": e.family}
