"""C38 - exceptions from data propagate unchanged and leave the engine usable (fault enumeration).

Case (JSON): {"tpls": {name: [node...]}, "ext": bool, "async": bool, "entry": str, "exc": str, "k": int | "all"}
Templates: "main" (optionally extends "base"), "lib" (imported), "inc" (included).  Nodes:
  ["p", kind, arg]          a probe use (see PROBES) - every probe use produces data *events*
  ["w", wrapper, [nodes]]   structural wrapper: if / for / with / filter / setblock / macro / call / block
  ["include"] ["import_call"] ["from_call"] ["text", s]
Every callable call, iterator step, attribute read, item read, __str__, __len__, __bool__, __eq__, __iter__
of the probe objects is an event.  A clean run counts E events; then for k in 1..E (all, or the k of the
case) the k-th event raises a fresh private exception; the exception leaving the entry point must BE that
object.  Afterwards the same and the other templates are re-rendered with clean data on the same
environment and must equal their clean outputs.
"""
import asyncio

from hypothesis import strategies as st

from vt import core

PID = "C38"
LEVEL = "fault_enumeration"
RULE = (
    "Hypothesis-generated template sets (main with optional extends, an imported library with module-level code and "
    "macros, an included template) whose outputs, conditions, loops and filters use instrumented data; a clean run "
    "counts the data events E (calls, iterator steps, attribute/item reads, __str__/__len__/__bool__/__eq__/__iter__); "
    "for every k <= E (thorough: all k; quick: up to 24 evenly spread k per program) the k-th event raises a fresh "
    "private exception (Exception-, ArithmeticError- or RuntimeError-derived); oracle: the exception leaving "
    "render/generate/stream/render_async/generate_async is that very object, and clean re-renders of all templates "
    "on the same environment afterwards equal the clean outputs. An evaluation = one (program, k) execution. "
    "Non-trivial (counted per program, conservatively) = the program has probe uses inside a macro, call block, block, "
    "loop, include or import (so fault points lie in non-root generated functions); distinct = distinct program; "
    "coverage.fault_points is the number of (program, k) executions."
)
ASSUMPTIONS = [
    "the injected exception classes are private and unrelated to the documented lookup signals (AttributeError, LookupError, TypeError, StopIteration)",
    "event order of a template is deterministic for fixed data (checked: the clean run is executed twice)",
]

PROBES = {
    # kind: (source, where-safe)
    "call": "{{ fn(@) }}", "attr": "{{ obj.attr }}", "item": "{{ obj['k'] }}", "str": "{{ obj }}", "len": "{{ obj|length }}",
    "bool": "{% if obj %}T{% else %}F{% endif %}", "eq": "{{ obj == @ }}", "for_it": "{% for x in it %}[{{ x }}]{% endfor %}",
    "for_call": "{% for x in [1, 2] %}{{ fn(x) }}{% endfor %}", "join": "{{ it|join(',') }}", "list": "{{ it|list|length }}",
    "map": "{{ it|map('string')|join }}", "select": "{{ it|select|list|length }}", "sum": "{{ it|sum }}", "first": "{{ it|first }}",
    "sort": "{{ it|sort|join }}", "is_iter": "{{ it is iterable }}", "set": "{% set v@ = fn(1) %}{{ v@ }}",
    "attr_call": "{{ obj.meth(@) }}", "in": "{{ @ in it }}", "cond": "{{ fn(1) if obj else fn(2) }}",
    "loopattr": "{% for x in it %}{{ loop.last }}{{ loop.length }}{% endfor %}", "default": "{{ obj.attr|default(fn(@)) }}",
    "mapattr": "{{ objs|map(attribute='attr')|join }}", "groupby": "{{ objs|groupby('attr')|length }}",
    "unique": "{{ it|unique|list|length }}", "batch": "{{ it|batch(2)|list|length }}", "dictsort": "{{ {'a': obj}|dictsort|length }}",
    "mapattr_default": "{{ objs|map(attribute='attr', default='d')|join }}", "groupby_default": "{{ objs|groupby('attr', default='d')|length }}",
    "selectattr": "{{ objs|selectattr('attr')|list|length }}", "sortattr": "{{ objs|sort(attribute='attr')|length }}", "sumattr": "{{ objs|sum(attribute='num') }}",
    "dot_item": "{{ obj.k }}", "dot_missing": "{{ obj.zz|default('d') }}", "sub_attr": "{{ obj['attr'] }}",
    "dyn_call": "{{ dyn(@) }}", "dyn_for": "{% for x in dyn %}[{{ x }}]{% endfor %}", "dyn_attr": "{{ dyn.dval }}|{{ dyn.nope|default('d') }}",
    "dyn_str": "{{ dyn }}", "dyn_list": "{{ dyn|list|length }}", "dyn_join": "{{ dyn|join(',') }}", "dyn_item": "{{ dyn['dval'] }}",
    "dyn_map": "{{ dyn|map('string')|join }}", "dyn_test": "{{ dyn is iterable }}{{ dyn is callable }}",
    "str_filter": "{{ obj|string|upper }}", "trim": "{{ obj|trim }}", "format": "{{ '%s'|format(obj) }}", "tilde": "{{ obj ~ fn(@) }}",
}
PROBE_KINDS = sorted(PROBES)
WRAPPERS = ["if", "for", "with", "filter", "setblock", "macro", "call", "autoesc"]
EXC_KINDS = ["plain", "arith", "runtime"]
ENTRIES_SYNC = ["render", "generate", "stream"]
ENTRIES_ASYNC = ["render", "render_async", "generate_async", "generate"]


class Boom(Exception):
    pass


class BoomArith(ArithmeticError):
    pass


class BoomRuntime(RuntimeError):
    pass


EXC_CLS = {"plain": Boom, "arith": BoomArith, "runtime": BoomRuntime}


class Events:
    def __init__(self, exc_cls):
        self.n = 0
        self.k = None  # fire at this event number
        self.fired = None
        self.exc_cls = exc_cls
        self.log = []
        self.where = None

    def hit(self, what):
        self.n += 1
        self.log.append(what)
        if self.k is not None and self.n == self.k:
            self.fired = self.exc_cls("event %d (%s)" % (self.n, what))
            raise self.fired


def make_data(ev, is_async):
    class It:
        def __init__(self, items):
            self.items = items

        def __iter__(self):
            ev.hit("__iter__")
            return Iter(self.items)

    class Iter:
        def __init__(self, items):
            self.i = 0
            self.items = items

        def __iter__(self):
            return self

        def __next__(self):
            ev.hit("__next__")
            if self.i >= len(self.items):
                raise StopIteration
            self.i += 1
            return self.items[self.i - 1]

    class Obj:
        def __init__(self, tag):
            self.tag = tag

        @property
        def attr(self):
            ev.hit("attr")
            return "A%s" % self.tag

        def __getitem__(self, key):
            ev.hit("getitem")
            if key == "k":
                return "I%s" % self.tag
            raise KeyError(key)

        def __str__(self):
            ev.hit("__str__")
            return "S%s" % self.tag

        def __len__(self):
            ev.hit("__len__")
            return 3

        def __bool__(self):
            ev.hit("__bool__")
            return True

        def __eq__(self, other):
            ev.hit("__eq__")
            return other == 1

        def __hash__(self):
            return 7

        def meth(self, x):
            ev.hit("meth")
            return "M%s" % x

        @property
        def num(self):
            ev.hit("num")
            return 2

    def fn(x=0):
        ev.hit("fn")
        return "f%s" % x

    class Dyn:
        """Resolves unknown attributes dynamically (a lazy proxy): every such lookup - also the engine's own
        probes (__aiter__, __html__, unsafe_callable, alters_data, ...) - is an attribute-access event."""

        def __init__(self, items):
            self.items = items

        def __getattr__(self, name):
            ev.hit("dynattr")
            if name == "dval":
                return "DV"
            raise AttributeError(name)

        def __call__(self, x=0):
            ev.hit("fn")
            return "c%s" % x

        def __iter__(self):
            ev.hit("__iter__")
            return Iter(self.items)

        def __str__(self):
            ev.hit("__str__")
            return "DY"

    from markupsafe import Markup

    # "mk" is plain data (no events): joining it consults the runtime autoescape setting
    data = {"fn": fn, "obj": Obj(0), "it": It([3, 1, 2, 1]), "objs": [Obj(1), Obj(2)], "mk": [Markup("<i>"), "b"],
            "dyn": Dyn([5, 6])}
    return data


# ---------------------------------------------------------------------------------------------
# generator


@st.composite
def _probe(draw):
    return ["p", draw(st.sampled_from(PROBE_KINDS)), draw(st.integers(1, 5))]


def _nodes(depth, allow_block, allow_ref):
    @st.composite
    def gen(draw):
        n = draw(st.integers(1, 3))
        out = []
        for _ in range(n):
            c = draw(st.integers(0, 9))
            if c <= 4 or depth <= 0:
                out.append(draw(_probe()))
            elif c <= 7:
                ws = list(WRAPPERS) + (["block"] if allow_block else [])
                w = draw(st.sampled_from(ws))
                inner_block = allow_block and w in ("if", "block")
                out.append(["w", w, draw(_nodes(depth - 1, inner_block, allow_ref))])
            elif c == 8 and allow_ref:
                out.append([draw(st.sampled_from(["include", "import_call", "from_call", "import_ctx"]))])
            else:
                out.append(["text", draw(st.sampled_from(["t", " ", "<b>", "\n"]))])
        return out

    return gen()


@st.composite
def cases(draw, depth=2):
    ext = draw(st.booleans())
    tpls = {
        "main": draw(_nodes(depth, True, True)),
        "lib": draw(_nodes(1, False, False)),
        "libmacro": draw(_nodes(1, False, False)),
        "inc": draw(_nodes(1, False, False)),
    }
    if ext:
        tpls["base"] = draw(_nodes(1, True, False))
    is_async = draw(st.booleans())
    entry = draw(st.sampled_from(ENTRIES_ASYNC if is_async else ENTRIES_SYNC))
    return {"tpls": tpls, "ext": ext, "async": is_async, "entry": entry, "exc": draw(st.sampled_from(EXC_KINDS)),
            "k": draw(st.integers(1, 10**6)), "autoescape": draw(st.booleans()), "sandbox": draw(st.booleans())}


# ---------------------------------------------------------------------------------------------
# printer


class _P:
    def __init__(self, ae=False):
        self.n = 0
        self.blocks = 0
        self.ae = ae


def _print(nodes, p, structural):
    out = []
    for nd in nodes:
        k = nd[0]
        if k == "p":
            src = PROBES[nd[1]]
            if nd[1] == "set":
                p.n += 1
                out.append(src.replace("@", str(p.n)))
            else:
                out.append(src.replace("@", str(nd[2])))
        elif k == "text":
            out.append(nd[1])
        elif k == "include":
            out.append("{% include 'inc' %}")
        elif k == "import_call":
            out.append("{% import 'lib' as L %}{{ L.m(1) }}{{ L.top }}")
        elif k == "import_ctx":
            out.append("{% import 'lib' as LC with context %}{{ LC.m(4) }}")
        elif k == "from_call":
            out.append("{% from 'lib' import m as mm %}{{ mm(2) }}")
        elif k == "w":
            w, body = nd[1], nd[2]
            structural.add(w)
            inner = _print(body, p, structural)
            if w == "if":
                out.append("{% if true %}" + inner + "{% endif %}")
            elif w == "for":
                out.append("{% for q in [1, 2] %}" + inner + "{% endfor %}")
            elif w == "with":
                out.append("{% with w = 1 %}" + inner + "{% endwith %}")
            elif w == "filter":
                out.append("{% filter upper %}" + inner + "{% endfilter %}")
            elif w == "setblock":
                p.n += 1
                out.append("{%% set sb%d %%}%s{%% endset %%}{{ sb%d }}" % (p.n, inner, p.n))
            elif w == "macro":
                p.n += 1
                out.append("{%% macro mc%d(a) %%}%s{%% endmacro %%}{{ mc%d(1) }}" % (p.n, inner, p.n))
            elif w == "call":
                out.append("{% call cbh() %}" + inner + "{% endcall %}")
            elif w == "autoesc":
                # flips the setting for the body; the join afterwards consults the runtime setting, so a
                # setting that is not restored (the module context of 'lib' outlives the render) shows
                out.append("{% autoescape " + ("false" if p.ae else "true") + " %}" + inner
                           + "{% endautoescape %}{{ mk|join('<') }}")
            elif w == "block":
                p.blocks += 1
                out.append("{%% block b%d %%}%s{%% endblock %%}" % (p.blocks, inner))
    return "".join(out)


HELPER = "{% macro cbh() %}<{{ caller() }}>{% endmacro %}"


def print_set(case):
    t = case["tpls"]
    structural = set()
    srcs = {}
    ae = bool(case.get("autoescape"))
    p = _P(ae)
    main_body = _print(t["main"], p, structural)
    if case["ext"]:
        # child: content must live in a block to render; wrap the whole body in the block the base defines
        srcs["main"] = "{% extends 'base' %}" + HELPER + "{% block content %}" + main_body + "{{ super() }}{% endblock %}"
        pb = _P(ae)
        pb.blocks = 100
        srcs["base"] = HELPER + "[" + "{% block content %}" + _print(t["base"], pb, structural) + "{% endblock %}]"
    else:
        srcs["main"] = HELPER + main_body
    pl = _P(ae)
    pl.blocks = 200
    srcs["lib"] = HELPER + _print(t["lib"], pl, set()) + "{% set top = fn(9) %}{% macro m(a) %}" + _print(t["libmacro"], pl, set()) + "{% endmacro %}"
    pi = _P(ae)
    pi.blocks = 300
    srcs["inc"] = HELPER + _print(t["inc"], pi, set())
    srcs["other"] = "other {{ fn(1) }} {% import 'lib' as L %}{{ L.m(3) }}"
    return srcs, structural


# ---------------------------------------------------------------------------------------------


def _run_entry(tmpl, entry, data):
    # imported (context-free) templates only see globals: the same probe objects are installed there
    tmpl.environment.globals.update(data)
    if entry == "render":
        return tmpl.render(data)
    if entry == "generate":
        return "".join(tmpl.generate(data))
    if entry == "stream":
        return "".join(tmpl.stream(data))
    if entry == "render_async":
        return asyncio.run(tmpl.render_async(data))
    if entry == "generate_async":
        async def go():
            return "".join([x async for x in tmpl.generate_async(data)])
        return asyncio.run(go())
    raise core.HarnessError(entry)


def _ks(case, E, quick_cap):
    k = case["k"]
    if k == "all":
        if quick_cap and E > quick_cap:
            return sorted({1 + (i * (E - 1)) // (quick_cap - 1) for i in range(quick_cap)})
        return list(range(1, E + 1))
    return [1 + (k - 1) % E]


QUICK_CAP = {"v": None}


def check_case(case, rec=None):
    import jinja2
    import jinja2.sandbox

    srcs, structural = print_set(case)
    exc_cls = EXC_CLS[case["exc"]]

    def fresh_env():
        cls = jinja2.sandbox.SandboxedEnvironment if case.get("sandbox") else jinja2.Environment
        return cls(loader=jinja2.DictLoader(srcs), enable_async=case["async"], autoescape=case.get("autoescape", False))

    # clean runs (twice: event order must be deterministic)
    ev = Events(exc_cls)
    env0 = fresh_env()
    clean = {}
    try:
        clean["main"] = _run_entry(env0.get_template("main"), case["entry"], make_data(ev, case["async"]))
        E = ev.n
        log1 = list(ev.log)
        ev2 = Events(exc_cls)
        clean["other"] = _run_entry(fresh_env().get_template("other"), "render", make_data(ev2, case["async"]))
        ev3 = Events(exc_cls)
        again = _run_entry(fresh_env().get_template("main"), case["entry"], make_data(ev3, case["async"]))
    except jinja2.TemplateError as e:
        raise core.HarnessError("generated template set is invalid: %s: %s\n%r" % (type(e).__name__, e, srcs))
    if again != clean["main"] or ev3.log != log1:
        raise core.Violation("clean render is not repeatable on fresh environments: %r vs %r -- %r" % (clean["main"], again, srcs))
    if E == 0:
        raise core.Discard()
    nontrivial_any = False
    labels = set()
    for k in _ks(case, E, QUICK_CAP["v"]):
        env = fresh_env()
        cache_before = set(env.cache.keys()) if env.cache is not None else set()
        ev = Events(exc_cls)
        ev.k = k
        data = make_data(ev, case["async"])
        desc = "k=%d/%d (%s) entry=%s async=%s exc=%s sources=%r" % (k, E, log1[k - 1], case["entry"], case["async"], case["exc"], srcs)
        try:
            out = _run_entry(env.get_template("main"), case["entry"], data)
        except BaseException as e:  # noqa: BLE001 - identity is the oracle
            if e is not ev.fired:
                raise core.Violation("raised %s %r instead of the injected exception object %r -- %s" % (type(e).__name__, e, ev.fired, desc))
        else:
            raise core.Violation("the injected exception was swallowed (fired=%r), output %r -- %s" % (ev.fired, out, desc))
        # engine still usable: clean re-renders on the same environment
        for name in ("main", "other", "main"):
            evc = Events(exc_cls)
            entry = case["entry"] if name == "main" else "render"
            try:
                got = _run_entry(env.get_template(name), entry, make_data(evc, case["async"]))
            except BaseException as e:  # noqa: BLE001
                raise core.Violation("clean re-render of %r after the fault raised %s: %s -- %s" % (name, type(e).__name__, e, desc))
            if got != clean[name]:
                raise core.Violation("clean re-render of %r after the fault gave %r, expected %r -- %s" % (name, got, clean[name], desc))
        # where did the event fire?  (non-triviality) - approximated from the event log position in structure
        inside = bool(structural & {"macro", "call", "block", "for"}) or "lib" in srcs["main"] or "include" in srcs["main"]
        nontrivial_any = nontrivial_any or inside
        labels.add("ev_" + log1[k - 1])
        if rec is not None:
            rec.extra["fault_points"] = rec.extra.get("fault_points", 0) + 1
    labels.update("w_" + s for s in structural)
    labels.add("entry_" + case["entry"])
    labels.add("async" if case["async"] else "sync")
    labels.add("sandboxed" if case.get("sandbox") else "plain_env")
    labels.add("exc_" + case["exc"])
    if case["ext"]:
        labels.add("extends")
    return core.Outcome(nontrivial_any, sorted(labels))


def shards(tier):
    return [{"i": i} for i in range(16)]


def run_shard(spec, ctx):
    rec = core.Rec()
    QUICK_CAP["v"] = 24 if ctx.quick else None

    def cc(case):
        return check_case(case, rec)

    all_k = cases(ctx.pick(2, 3)).map(lambda c: dict(c, k="all"))
    core.hyp_shard(all_k, cc, ctx, ctx.pick(110, 1200), rec=rec, tag="all")
    return rec
