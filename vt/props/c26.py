"""C26 - LRUCache behaves like a least-recently-used map, sequentially and under concurrent use.

Two kinds of cases, both judged by ``check_case``:

  {"kind": "seq", "cap": 2, "ops": [["set", "a"], ["getitem", "b"], ["copy"], ...]}
      A sequential history.  The value stored by the i-th operation is i.  Every result is compared
      with an OrderedDict model; ``copy``/``pickle`` continue on the copy and the original is
      re-observed at the end (it must not have changed).

  {"kind": "conc", "cap": 2, "init": [["a", 1], ["b", 2]], "gran": "line" | "opcode",
   "threads": [[["set", "c", 11], ["in", "a"]], [["del", "a"]]],
   "first": 0, "pre": [[3, 0]], "forced": [1]}
      2-3 threads run their operations on one pre-populated cache under the harness-owned baton
      scheduler (vt/ref/sched.py): a thread can be pre-empted at every line (opcode) inside the
      LRUCache methods, every lock the cache creates is a scheduler-aware lock.  Oracle: linearizability
      against the model (brute force over all orders compatible with program order and the
      observed real-time order), results and final state; no call raises anything but the
      KeyError the model predicts; no deadlock.
"""
import collections
import copy as _copy
import itertools
import pickle
import types

from vt import core
from vt.ref import sched as _sched

PID = "C26"
LEVEL = "exploration"
EXHAUSTIVE = (
    "sequential part: every history of length 1..4 over the 24-operation alphabet (get/[]/set/del/setdefault x 3 keys, "
    "'a' in, len, clear, copy, pickle round trip, full observation, open an iterator / a reversed iterator, one step of the "
    "open iterator) x capacities 1..3 = 1 038 600 histories is executed in "
    "every tier; the concurrent part is a sampled exploration"
)
RULE = (
    "sequential: exhaustive histories (length <= 4 quick; <= 5 plus all length-6/7 histories over the 13 mutating "
    "operations with keys in first-use order, thorough) over 3 keys x capacities 1-3, plus Hypothesis "
    "RuleBasedStateMachine histories (8 keys, capacities 1-6, up to 200 steps) against an OrderedDict model; "
    "non-trivial = the model performs an eviction or changes the recency order of an existing key. "
    "concurrent: Hypothesis draws capacity, pre-population, 2-3 threads x 1-3 operations from "
    "{get, [], set, del, in, clear} and a schedule (first thread, <= 3 (quick) / <= 5 (thorough) pre-emptions "
    "given as [delay, target] at line granularity - opcode granularity in half of the thorough shards -, forced-switch "
    "choices); oracle = linearizability by brute force; non-trivial = at least one pre-emption happened inside "
    "__getitem__/__setitem__/__delitem__/clear after the method had started; distinct = distinct case."
)
ASSUMPTIONS = [
    "the OrderedDict model is the specification of 'least recently used': get/[]/set/setdefault make the key most recent, "
    "a set on a full cache evicts the least recent key, keys()/items()/values()/iter list most recent first, reversed() oldest first",
    "iter(cache) / reversed(cache) yield the keys as they were when the iterator was created; later mutations neither change nor break it "
    "(`for k in cache: cache[k]` must work)",
    "capacity >= 1 (Environment never builds an LRUCache(0): create_cache returns None for size 0)",
    "concurrency is explored at Python line (thorough: also opcode) granularity under the GIL with a deterministic scheduler; "
    "races inside C-level deque/dict operations (free-threading) are out of reach",
    "the cache's lock is made scheduler-aware by substituting jinja2.utils.Lock (the name LRUCache._postinit calls) for the duration of a "
    "concurrent case, so a lock created or replaced in the middle of a schedule is scheduler-aware too; a lock obtained some other way "
    "(e.g. threading.Lock() spelled out) can only end in the wall-clock watchdog (exit 2, never a violation)",
    "pre-emption bound 3 (quick) / 5 (thorough); at most 9 concurrent operations",
]

KEYS3 = "abc"
KEYS8 = "abcdefgh"
CKEYS = "abcd"


# ---------------------------------------------------------------------------------------------------
# reference model


class Model:
    """Least-recently-used map; ``d`` holds the keys oldest first."""

    def __init__(self, cap, items=()):
        self.cap = cap
        self.d = collections.OrderedDict(items)
        self.evicted = False
        self.reordered = False

    def _touch(self, k):
        if next(reversed(self.d)) != k:
            self.reordered = True
        self.d.move_to_end(k)

    def getitem(self, k):
        if k in self.d:
            self._touch(k)
            return self.d[k]
        raise KeyError(k)

    def get(self, k, default=None):
        if k in self.d:
            self._touch(k)
            return self.d[k]
        return default

    def set(self, k, v):
        if k in self.d:
            self._touch(k)
        elif len(self.d) >= self.cap:
            self.d.popitem(last=False)
            self.evicted = True
        self.d[k] = v

    def delete(self, k):
        del self.d[k]

    def setdefault(self, k, v):
        if k in self.d:
            self._touch(k)
            return self.d[k]
        self.set(k, v)
        return v

    def clear(self):
        self.d.clear()

    def obs(self):
        ks = list(reversed(self.d))
        return {
            "keys": ks,
            "values": [self.d[k] for k in ks],
            "items": [[k, self.d[k]] for k in ks],
            "iter": ks,
            "reversed": list(self.d),
            "len": len(self.d),
            "capacity": self.cap,
        }


def _observe(real):
    return {
        "keys": list(real.keys()),
        "values": list(real.values()),
        "items": [list(kv) for kv in real.items()],
        "iter": list(iter(real)),
        "reversed": list(reversed(real)),
        "len": len(real),
        "capacity": real.capacity,
    }


# ---------------------------------------------------------------------------------------------------
# sequential runner (shared by check_case and the state machine)


class SeqRun:
    def __init__(self, cap):
        from jinja2.utils import LRUCache

        if not isinstance(cap, int) or cap < 1:
            raise core.HarnessError("capacity %r outside the decided domain" % (cap,))
        self.cls = LRUCache
        self.cap = cap
        self.real = LRUCache(cap)
        self.model = Model(cap)
        self.frozen = []  # (description, real object, expected observation)
        self.nstep_mut = 0  # number of state-changing steps so far
        self.it_born = 0  # ... when the open iterator was created
        self.it = None  # open iterator over the real cache
        self.snap = None  # what the model says the open iterator still has to yield
        self.nstep = 0
        self.labels = set()

    def _fail(self, op, what):
        raise core.Violation("capacity %d, step %d %r: %s" % (self.cap, self.nstep, op, what))

    def step(self, op):
        real, model = self.real, self.model
        name = op[0]
        i = self.nstep
        exp_exc = None
        exp = None
        try:
            if name == "get":
                exp = model.get(op[1])
            elif name == "getd":
                exp = model.get(op[1], "dflt")
            elif name == "getitem":
                exp = model.getitem(op[1])
            elif name == "set":
                model.set(op[1], i)
            elif name == "del":
                model.delete(op[1])
            elif name == "setdefault":
                exp = model.setdefault(op[1], i)
            elif name == "in":
                exp = op[1] in model.d
            elif name == "len":
                exp = len(model.d)
            elif name == "clear":
                model.clear()
            elif name in ("copy", "copymod", "pickle"):
                pass
            elif name == "obs":
                exp = model.obs()
            elif name == "iter":
                self.snap = list(reversed(model.d))
            elif name == "riter":
                self.snap = list(model.d)
            elif name == "next":
                # an iterator yields the keys as they were when it was created, whatever happened since
                exp = "noiter" if self.snap is None else ["key", self.snap.pop(0)] if self.snap else "stop"
            else:
                raise core.HarnessError("unknown operation %r" % (op,))
        except KeyError:
            exp_exc = KeyError
        try:
            if name == "get":
                got = real.get(op[1])
            elif name == "getd":
                got = real.get(op[1], "dflt")
            elif name == "getitem":
                got = real[op[1]]
            elif name == "set":
                real[op[1]] = i
                got = None
            elif name == "del":
                del real[op[1]]
                got = None
            elif name == "setdefault":
                got = real.setdefault(op[1], i)
            elif name == "in":
                got = op[1] in real
            elif name == "len":
                got = len(real)
            elif name == "clear":
                got = real.clear()
            elif name in ("copy", "copymod", "pickle"):
                if name == "copy":
                    new = real.copy()
                elif name == "copymod":
                    new = _copy.copy(real)
                else:
                    proto = op[1] if len(op) > 1 else pickle.DEFAULT_PROTOCOL
                    new = pickle.loads(pickle.dumps(real, proto))
                if type(new) is not self.cls or new is real:
                    self._fail(op, "produced %r, not a new %s" % (new, self.cls.__name__))
                self.frozen.append(("original before step %d %r" % (i, op), real, model.obs()))
                self.real = real = new
                self.labels.add(name if name != "copymod" else "copy")
                got = None
            elif name == "obs":
                got = _observe(real)
            elif name == "iter":
                self.it = iter(real)
                self.labels.add("iterator")
                got = None
            elif name == "riter":
                self.it = reversed(real)
                self.labels.add("iterator")
                got = None
            elif name == "next":
                if self.it is None:
                    got = "noiter"
                else:
                    try:
                        got = ["key", next(self.it)]
                    except StopIteration:
                        got = "stop"
                    if self.nstep_mut > self.it_born:
                        self.labels.add("iterator_after_mutation")
        except KeyError:
            if exp_exc is not KeyError:
                self._fail(op, "raised KeyError, the model returns %r" % (exp,))
            got = None
        else:
            if exp_exc is not None:
                self._fail(op, "returned %r, the model raises KeyError" % (got,))
        if exp_exc is None and got != exp:
            self._fail(op, "returned %r, the model returns %r" % (got, exp))
        n = len(real)
        if n > self.cap:
            self._fail(op, "cache holds %d entries, capacity is %d" % (n, self.cap))
        if n != len(model.d):
            self._fail(op, "len() is %d afterwards, the model holds %d entries" % (n, len(model.d)))
        self.nstep = i + 1
        if name in ("iter", "riter"):
            self.it_born = self.nstep_mut
        elif name not in ("next", "len", "in", "obs"):
            self.nstep_mut += 1

    def finish(self):
        if self.it is not None:
            rest = list(self.it)
            if rest != self.snap:
                raise core.Violation("capacity %d: draining the open iterator after %d steps gave %r, its snapshot still holds %r" % (self.cap, self.nstep, rest, self.snap))
        got, exp = _observe(self.real), self.model.obs()
        if got != exp:
            raise core.Violation("capacity %d, final observation after %d steps: got %r, the model has %r" % (self.cap, self.nstep, got, exp))
        for what, obj, exp in self.frozen:
            got = _observe(obj)
            if got != exp:
                raise core.Violation("capacity %d: the %s changed afterwards: now %r, was %r" % (self.cap, what, got, exp))
        labels = set(self.labels)
        if self.model.evicted:
            labels.add("evict")
        if self.model.reordered:
            labels.add("recency")
        return core.Outcome(self.model.evicted or self.model.reordered, ["seq", "cap=%d" % min(self.cap, 4)] + sorted(labels))


def _check_seq(case):
    run = SeqRun(case["cap"])
    for op in case["ops"]:
        run.step(op)
    return run.finish()


# ---------------------------------------------------------------------------------------------------
# concurrent part

_state = {}
_watchdog_fired = [False]
_MISSING = object()

MUTATORS = ("__getitem__", "__setitem__", "__delitem__", "clear")


def _setup():
    if not _state:
        from jinja2.utils import LRUCache

        import jinja2.utils

        _state["cls"] = LRUCache
        _state["utils"] = jinja2.utils
        _state["codes"] = frozenset(f.__code__ for f in vars(LRUCache).values() if isinstance(f, types.FunctionType))
    return _state


def _apply_real(cache, op):
    k = op[0]
    if k == "get":
        return ["ok", cache.get(op[1])]
    if k == "getitem":
        return ["ok", cache[op[1]]]
    if k == "set":
        cache[op[1]] = op[2]
        return ["ok", None]
    if k == "del":
        del cache[op[1]]
        return ["ok", None]
    if k == "in":
        return ["ok", op[1] in cache]
    if k == "clear":
        cache.clear()
        return ["ok", None]
    raise core.HarnessError("unknown concurrent operation %r" % (op,))


def _apply_model(state, cap, op):
    """state: tuple of (key, value) oldest first -> (new state, result)."""
    k = op[0]
    if k in ("get", "getitem"):
        for i, (key, val) in enumerate(state):
            if key == op[1]:
                return state[:i] + state[i + 1:] + ((key, val),), ["ok", val]
        return state, (["ok", None] if k == "get" else ["KeyError"])
    if k == "set":
        for i, (key, _val) in enumerate(state):
            if key == op[1]:
                return state[:i] + state[i + 1:] + ((key, op[2]),), ["ok", None]
        if len(state) >= cap:
            state = state[1:]
        return state + ((op[1], op[2]),), ["ok", None]
    if k == "del":
        for i, (key, _val) in enumerate(state):
            if key == op[1]:
                return state[:i] + state[i + 1:], ["ok", None]
        return state, ["KeyError"]
    if k == "in":
        return state, ["ok", any(key == op[1] for key, _ in state)]
    if k == "clear":
        return (), ["ok", None]
    raise core.HarnessError("unknown concurrent operation %r" % (op,))


def linearizable(threads, results, before, init, cap, final_items):
    """Is there a total order of all operations, compatible with each thread's program order and with
    ``before`` (set of ((t, i), (u, j)) pairs: the first returned before the second was called), under
    which the model yields ``results`` and ends with ``final_items`` (most recent first)?"""
    n = len(threads)
    want_final = tuple((k, v) for k, v in reversed([tuple(x) for x in final_items]))
    must = collections.defaultdict(list)
    for a, b in before:
        must[b].append(a)
    seen = set()

    def dfs(pos, state):
        if (pos, state) in seen:
            return None
        seen.add((pos, state))
        if all(pos[t] == len(threads[t]) for t in range(n)):
            return [] if state == want_final else None
        for t in range(n):
            i = pos[t]
            if i >= len(threads[t]):
                continue
            if any(pos[u] <= j for (u, j) in must[(t, i)]):
                continue
            st2, res = _apply_model(state, cap, threads[t][i])
            if res != results[(t, i)]:
                continue
            rest = dfs(pos[:t] + (i + 1,) + pos[t + 1:], st2)
            if rest is not None:
                return [(t, i)] + rest
        return None

    return dfs((0,) * n, tuple((k, v) for k, v in init))


def in_known_class(case):
    """Input classes of listed known findings; none at present (F28, the unlocked __contains__, was fixed in
    /repo by fe93702 - its class is generated and judged, its minimal schedule is replays/C26/f28_*.json)."""
    return False


def _check_conc(case, exclude_known=True):
    st = _setup()
    if _watchdog_fired[0]:
        raise core.HarnessError("scheduler watchdog fired earlier in this process")
    cap, init, threads = case["cap"], [tuple(x) for x in case["init"]], case["threads"]
    n = len(threads)
    if not (2 <= n <= 3 and all(1 <= len(o) <= 3 for o in threads) and 1 <= len(init) <= cap):
        raise core.HarnessError("concurrent case outside the decided domain")
    if any(k not in CKEYS for k, _ in init) or any(op[1] not in CKEYS for ops in threads for op in ops if len(op) > 1):
        raise core.HarnessError("concurrent case uses keys outside %r" % CKEYS)
    if exclude_known and in_known_class(case):
        raise core.Excluded()
    s = _sched.Scheduler(n, case["first"], case["pre"], case["forced"], st["codes"], opcode=(case.get("gran") == "opcode"), max_steps=4000)
    # Every lock the cache creates while the case runs (LRUCache._postinit uses the module global ``Lock``) must be
    # scheduler-aware, also one created by a method that re-initialises the cache in the middle of the schedule.
    utils = st["utils"]
    saved = getattr(utils, "Lock", _MISSING)
    utils.Lock = s.make_lock
    try:
        return _run_conc(case, st, s, cap, init, threads, n)
    finally:
        if saved is _MISSING:
            del utils.Lock
        else:
            utils.Lock = saved


def _run_conc(case, st, s, cap, init, threads, n):
    cache = st["cls"](cap)
    if not isinstance(getattr(cache, "_wlock", None), _sched.SLock):
        cache._wlock = s.make_lock()
    for k, v in init:
        cache[k] = v
    log = []

    def body(t):
        for i, op in enumerate(threads[t]):
            log.append(("call", t, i))
            try:
                r = _apply_real(cache, op)
            except KeyError:
                r = ["KeyError"]
            except Exception as e:  # noqa: BLE001 - any exception of a call is an observation, judged below
                r = ["EXC", type(e).__name__, str(e)]
            log.append(("ret", t, i, r))

    try:
        s.run([body] * n)
    except _sched.WatchdogTimeout as e:
        _watchdog_fired[0] = True
        raise core.HarnessError("inconclusive: %s" % e) from e
    desc = "capacity %d, initial %r, threads %r, schedule first=%r pre=%r forced=%r (%s); pre-emptions %r" % (
        cap, init, threads, case["first"], case["pre"], case["forced"], case.get("gran", "line"), s.preemptions)
    for w in s.workers:
        if w.error is not None:
            if isinstance(w.error, core.HarnessError):
                raise w.error
            raise core.Violation("%s: thread %d died with %r" % (desc, w.idx, w.error))
    if s.deadlock:
        raise core.Violation("%s: deadlock: %s" % (desc, s.deadlock))
    if s.overrun:
        raise core.Violation("%s: the operations did not finish within %d line steps" % (desc, s.max_steps))
    if any(lk.owner is not None for lk in s.locks):
        raise core.Violation("%s: a cache lock is still held after all calls returned" % desc)
    results = {}
    before = set()
    returned = []
    for ev in log:
        if ev[0] == "call":
            for r in returned:
                if r[0] != ev[1]:
                    before.add((r, (ev[1], ev[2])))
        else:
            returned.append((ev[1], ev[2]))
            results[(ev[1], ev[2])] = ev[3]
    if len(results) != sum(len(o) for o in threads):
        raise core.Violation("%s: only %d calls returned" % (desc, len(results)))
    shown = sorted(results.items())
    for (t, i), r in shown:
        if r[0] == "EXC":
            raise core.Violation("%s: thread %d call %r raised %s: %s" % (desc, t, threads[t][i], r[1], r[2]))
    try:
        final = [list(kv) for kv in cache.items()]
        flen = len(cache)
        fkeys = [k for k in CKEYS if k in cache]
    except Exception as e:  # noqa: BLE001
        raise core.Violation("%s: results %r; observing the final cache raised %s: %s" % (desc, shown, type(e).__name__, e))
    if flen != len(final) or sorted(k for k, _ in final) != fkeys or flen > cap:
        raise core.Violation("%s: results %r; inconsistent final cache: items %r, len %d, members %r" % (desc, shown, final, flen, fkeys))
    order = linearizable(threads, results, before, init, cap, final)
    if order is None:
        raise core.Violation("%s: not linearizable: results %r, final items (most recent first) %r" % (desc, shown, final))
    inside = [p for p in s.preemptions if p[1] in MUTATORS and p[3] >= 1]
    labels = ["conc", "threads=%d" % n, "pre=%d" % len(s.preemptions), "gran=" + case.get("gran", "line")]
    if inside:
        labels.append("pre_in_mutator")
    if any(lk.contended for lk in s.locks):
        labels.append("lock_contended")
    if not isinstance(getattr(cache, "_wlock", None), _sched.SLock):
        labels.append("foreign_lock")
    if any(r == ["KeyError"] for r in results.values()):
        labels.append("keyerror")
    if len(final) < min(cap, len(init)) or any(op[0] == "set" and len(init) >= cap for ops in threads for op in ops):
        labels.append("evict_or_shrink")
    return core.Outcome(bool(inside), labels)


def check_case(case):
    kind = case.get("kind")
    if kind == "seq":
        return _check_seq(case)
    if kind == "conc":
        return _check_conc(case)
    raise core.HarnessError("unknown case kind %r" % (kind,))


def check_known(entry):
    case = entry["case"]
    if case.get("kind") == "conc":
        return _check_conc(case, exclude_known=False)
    return check_case(case)


# ---------------------------------------------------------------------------------------------------
# generators

ALPHABET = (
    [["get", k] for k in KEYS3] + [["getitem", k] for k in KEYS3] + [["set", k] for k in KEYS3]
    + [["del", k] for k in KEYS3] + [["setdefault", k] for k in KEYS3]
    + [["in", "a"], ["len"], ["clear"], ["copy"], ["pickle"], ["obs"], ["iter"], ["riter"], ["next"]]
)
MUTATING = [[n, k] for n in ("getitem", "set", "del", "setdefault") for k in KEYS3] + [["clear"]]


def seq_exhaustive(maxlen):
    for cap in (1, 2, 3):
        for n in range(1, maxlen + 1):
            for hist in itertools.product(ALPHABET, repeat=n):
                yield {"kind": "seq", "cap": cap, "ops": list(hist)}


def _canonical_key_order(hist):
    nxt = 0
    for op in hist:
        if len(op) > 1:
            i = KEYS3.index(op[1])
            if i > nxt:
                return False
            if i == nxt:
                nxt += 1
    return True


def seq_pruned(length):
    """All histories of the given length over the 13 mutating operations whose keys appear in first-use
    order a, b, c (every other history is a key renaming of one of these)."""
    for hist in itertools.product(MUTATING, repeat=length):
        if _canonical_key_order(hist):
            for cap in (1, 2, 3):
                yield {"kind": "seq", "cap": cap, "ops": list(hist)}


def _run_machine(ctx, rec, max_examples, steps, tag):
    import hypothesis
    from hypothesis import HealthCheck, Phase, settings
    from hypothesis import strategies as st
    from hypothesis.stateful import RuleBasedStateMachine, initialize, invariant, rule, run_state_machine_as_test

    holder = {"fail": None}
    keys = st.sampled_from(KEYS8)

    class LRUMachine(RuleBasedStateMachine):
        def __init__(self):
            super().__init__()
            self.run_ = None
            self.ops = []
            self.failed = False

        def _case(self):
            return {"kind": "seq", "cap": self.run_.cap, "ops": list(self.ops)}

        def _do(self, op):
            self.ops.append(op)
            try:
                self.run_.step(op)
            except BaseException:
                self.failed = True
                holder["fail"] = self._case()
                raise

        @initialize(cap=st.integers(1, 6))
        def start(self, cap):
            self.run_ = SeqRun(cap)

        @rule(name=st.sampled_from(["get", "getd", "getitem", "set", "set", "set", "del", "setdefault", "in"]), k=keys)
        def keyed(self, name, k):
            self._do([name, k])

        @rule(name=st.sampled_from(["len", "obs", "obs", "copy", "copymod", "clear", "iter", "riter", "next", "next", "next"]))
        def plain(self, name):
            self._do([name])

        @rule(proto=st.integers(0, pickle.HIGHEST_PROTOCOL))
        def pickled(self, proto):
            self._do(["pickle", proto])

        @invariant()
        def same_keys(self):
            if self.run_ is not None and not self.failed:
                got, exp = list(self.run_.real.keys()), list(reversed(self.run_.model.d))
                if got != exp:
                    self.failed = True
                    self.ops.append(["obs"])
                    holder["fail"] = self._case()
                    raise core.Violation("keys() %r, the model has %r" % (got, exp))

        def teardown(self):
            if self.run_ is not None and not self.failed and self.ops:
                try:
                    rec.run(check_case, self._case(), reraise=True)
                except BaseException:
                    holder["fail"] = self._case()
                    raise

    machine = hypothesis.seed(ctx.derive(tag))(LRUMachine)
    cfg = settings(
        max_examples=max_examples, stateful_step_count=steps, database=None, deadline=None, derandomize=False,
        report_multiple_bugs=False, suppress_health_check=list(HealthCheck), phases=[Phase.generate, Phase.shrink],
        print_blob=False, verbosity=hypothesis.Verbosity.quiet,
    )
    nviol = len(rec.violations)
    try:
        run_state_machine_as_test(machine, settings=cfg)
    except core.HarnessError:
        raise
    except BaseException as e:  # noqa: BLE001 - any failure of the machine is re-judged by check_case below
        del rec.violations[nviol:]
        fail = holder["fail"]
        if fail is None:
            raise core.HarnessError("state machine failed outside a step: %r" % (e,)) from e
        rec.run(check_case, fail)
        if len(rec.violations) == nviol:
            raise core.HarnessError("state machine failure does not reproduce through check_case: %r / %r" % (e, fail)) from e
    return rec


def conc_cases(max_pre, gran):
    from hypothesis import strategies as st

    max_delay = 12 if gran == "line" else 45

    @st.composite
    def case(draw):
        cap = draw(st.sampled_from([1, 2, 2, 2, 3, 3]))
        fill = cap if draw(st.integers(0, 3)) else max(1, cap - 1)
        init = [[CKEYS[i], i + 1] for i in range(fill)]
        if fill > 1 and draw(st.booleans()):
            init.reverse()
        nthreads = draw(st.sampled_from([2, 2, 2, 3]))
        keys = st.sampled_from(CKEYS[: cap + 1])
        threads = []
        for t in range(nthreads):
            nops = draw(st.integers(1, 3 if nthreads == 2 else 2)) if draw(st.integers(0, 4)) else 3
            ops = []
            for i in range(nops):
                kind = draw(st.sampled_from(["set", "set", "set", "set", "del", "del", "getitem", "getitem", "get", "in", "in", "clear"]))
                if kind == "set":
                    ops.append([kind, draw(keys), 10 * (t + 1) + i])
                elif kind == "clear":
                    ops.append([kind])
                else:
                    ops.append([kind, draw(keys)])
            threads.append(ops)
        npre = draw(st.integers(1, max_pre)) if draw(st.integers(0, 7)) else 0
        pre = [[draw(st.integers(0, max_delay if j == 0 else max_delay * 2 // 3)), draw(st.integers(0, 1))] for j in range(npre)]
        forced = draw(st.lists(st.integers(0, 2), min_size=0, max_size=4))
        return {"kind": "conc", "cap": cap, "init": init, "gran": gran, "threads": threads,
                "first": draw(st.integers(0, nthreads - 1)), "pre": pre, "forced": forced}

    return case()


# ---------------------------------------------------------------------------------------------------
# shards

NSHARDS = 16


def shards(tier):
    return [{"i": i} for i in range(NSHARDS)]


def run_shard(spec, ctx):
    rec = core.Rec()
    # 1. exhaustive sequential histories
    core.enum_shard(core.sliced(seq_exhaustive(ctx.pick(4, 5)), ctx.index, ctx.nshards), check_case, ctx, rec=rec)
    if not ctx.quick and not rec.violations:
        for n in (6, 7):
            core.enum_shard(core.sliced(seq_pruned(n), ctx.index, ctx.nshards), check_case, ctx, rec=rec)
    # 2. long random histories (state machine)
    if not rec.violations:
        _run_machine(ctx, rec, ctx.pick(12, 150), 200, "machine")
    # 3. concurrent schedules
    if rec.violations:
        return rec
    if ctx.quick:
        core.hyp_shard(conc_cases(3, "line"), check_case, ctx, 4000, rec=rec, tag="conc")
    else:
        gran = "opcode" if ctx.index % 2 else "line"
        for r in range(10):
            core.hyp_shard(conc_cases(5, gran), check_case, ctx, 8000, rec=rec, tag="conc%d" % r)
            if rec.violations:
                break
    return rec


def floors(total, tier):
    lab = total.labels
    need = {"iterator_after_mutation": 1000, "conc": 1000, "pre_in_mutator": 300, "lock_contended": 100, "evict": 1000, "recency": 1000, "copy": 100, "pickle": 100, "threads=3": 100}
    low = ["%s=%d (< %d)" % (k, lab.get(k, 0), v) for k, v in need.items() if lab.get(k, 0) < v]
    if total.violations:
        return None
    return ", ".join(low) or None
