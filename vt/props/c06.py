"""C06 - macro argument binding follows the documented macro calling rules.

Case (plain JSON)::

    {"np": 3,            # number of declared parameters p0..p2
     "dk": "ce",         # one letter per trailing default: c = constant 'D<i>', e = earlier parameter
                         #   (p<i-1> ~ '+e'), o = outer variable ``ov`` (render context / module vars),
                         #   s / S = the parameter's own name (p<i>=p<i>) without / with an outer variable p<i>
     "uses": "vk",       # subset of v (varargs), k (kwargs), c (caller) referenced by the macro body
     "npos": 2,          # positional arguments 'A0', 'A1', ...
     "kw": ["p1", "zz"], # keyword argument names, value 'K<name>'
     "none": ["p1"],     # optional: arguments (keyword names, positionals "A<i>") whose value is none instead
     "shape": "plain",   # plain | star | dstar | both | dup | call | py
     "env": "sync"}      # sync | async (async: template shapes only)

The expected side is ``spec()`` below: an executable transcription of the binding rules of the property
statement and docs/templates.rst (Macros / Call); it never looks at jinja2.
"""
import itertools

from vt import core

PID = "C06"
LEVEL = "exploration"
EXHAUSTIVE = (
    "every tier enumerates completely: signatures with 0-3 parameters x every vector of 0-3 trailing defaults over "
    "{constant, earlier parameter, outer variable}, plus the vectors with one default naming its own parameter (outer "
    "variable of that name absent and present) among constants, x the 8 subsets of {varargs, kwargs, caller} used by the body x 0-5 "
    "positional arguments x every set of <= 3 keyword names from {p0, p1, p2, zz} x 7 call shapes (plain, *list, **dict, "
    "both, **dict repeating an explicit keyword, call block, Python call through template.module), sync environment; plus, on signatures with <= 2 parameters, <= 2 positionals and <= 2 keywords (plain, *list, **dict, Python "
    "shapes), each keyword in turn and the last positional passed with the value none; plus "
    "the same with the unknown keyword named self (<= 2 parameters) and arguments / args (<= 1 parameter)"
)
RULE = (
    "itertools enumeration sliced over 16 shards of signature (0-4 parameters; quick 0-3) x default kinds per trailing "
    "default (<= 3; full product over constant / earlier parameter / outer variable, plus one self-naming default p=p "
    "among constants, with and without an outer variable of that name) x body uses of varargs/kwargs/caller x 0-5 positional x keyword-name sets (<= 4 of {p0..p3, zz}; quick "
    "<= 3 of {p0..p2, zz}; the unknown name zz also spelled self for <= 2 parameters and arguments / args for <= 1) x call shape (plain, star, dstar, both, dup, call block, python), on small signatures also with one "
    "argument value replaced by none, x environment (thorough adds the "
    "async environment for the template shapes and, in the sync environment, one more step: 5 parameters, 6 positionals, "
    "keyword p4); each call rendered and compared with the binding specification. "
    "Non-trivial = the call has surplus positionals, an unknown or already-filled keyword, an evaluated default that refers "
    "to an earlier parameter or names its own parameter, an argument whose value is none, star-args / double-star, or a call block; distinct = distinct case."
)
ASSUMPTIONS = [
    "binding specification transcribed from the property statement and docs/templates.rst (Macros, Call): positional fill, "
    "surplus -> varargs or TypeError, keywords fill the parameters not filled positionally, every other keyword (unknown "
    "name or name of a positionally filled parameter) -> kwargs or TypeError, unfilled -> default evaluated in parameter "
    "order at call time, else undefined",
    "a keyword that is given explicitly and again through **dict is a TypeError (Python call semantics; the template call "
    "is documented as a Python-like call)",
    "a call block on a macro that does not use caller and does not use kwargs is a TypeError (docs: Macro.caller tells "
    "whether the macro 'may be called from a call tag'); call block x kwargs-without-caller is not generated: whether the "
    "caller lands in kwargs is an undocumented artefact",
    "the default Undefined prints as '' and concatenates as '' (C21 checks that table)",
    "a parameter name inside a default expression denotes the macro's parameter, which is undefined while unfilled, and "
    "never an outer variable of that name (tests/test_core_tags.py::TestMacros::test_macro_defaults_self_ref pins this "
    "shadowing); in particular it is never an internal sentinel",
    "none passed as an argument is an ordinary defined value (prints 'None', is kept in varargs / kwargs, stops the "
    "default); only an argument that is not passed leaves the parameter to its default / undefined",
    "the unknown keyword is also generated under the names self, arguments and args (they collide with Python-level "
    "names of the runtime's Macro but are ordinary extra keywords for the template: kwargs or TypeError); a parameter "
    "DECLARED as self and an explicit caller= keyword are not generated (undocumented)",
    "source-level duplicate keywords (m(a=1, a=2)) belong to C01/F20 and are never generated; parameters named "
    "caller/varargs/kwargs are not generated",
]

SHAPES = ["plain", "star", "dstar", "both", "dup", "call", "py"]
EXTRA_KW_NAMES = [("self", 2), ("arguments", 1), ("args", 1)]
NONE_SHAPES = ("plain", "star", "dstar", "py")
TYPEERROR = "<TypeError>"


class _Undef:
    def __repr__(self):
        return "<undefined>"


UNDEF = _Undef()  # the specification's undefined (None is an ordinary argument value)


def _value(case, name, text):
    return None if name in (case.get("none") or ()) else text


def _params(case):
    return ["p%d" % i for i in range(case["np"])]


# ----------------------------------------------------------------------------------------
# the binding specification (no jinja2 in here)


def spec(case):
    """-> (expected text | TYPEERROR, set of non-triviality reasons)"""
    np_, dk, uses, npos, shape = case["np"], case["dk"], case["uses"], case["npos"], case["shape"]
    params = _params(case)
    nd = len(dk)
    reasons = set()
    pos = [_value(case, "A%d" % i, "A%d" % i) for i in range(npos)]
    kw = {k: _value(case, k, "K" + k) for k in case["kw"]}
    if case.get("none"):
        reasons.add("none_value")
    if shape in ("star", "both", "dstar", "dup"):
        reasons.add("starargs")
    if shape == "call":
        reasons.add("callblock")
    if npos > np_:
        reasons.add("surplus_pos")
    for k in kw:
        if k not in params:
            reasons.add("unknown_kw")
        elif params.index(k) < npos:
            reasons.add("filled_kw")
    if shape == "dup":
        return TYPEERROR, reasons  # the same keyword twice in one call
    bound = dict(zip(params, pos))
    surplus = pos[np_:]
    for p in params[npos:]:
        if p in kw:
            bound[p] = kw.pop(p)
    if surplus and "v" not in uses:
        return TYPEERROR, reasons
    if kw and "k" not in uses:
        return TYPEERROR, reasons
    if shape == "call" and "c" not in uses:
        if "k" in uses:
            raise core.Discard()  # undocumented: the caller would travel in kwargs
        return TYPEERROR, reasons
    vals = []
    for i, p in enumerate(params):
        if p in bound:
            v = bound[p]
        elif i >= np_ - nd:
            kind = dk[i - (np_ - nd)]
            if kind == "c":
                v = "D%d" % i
            elif kind == "o":
                v = "OV"
            elif kind == "e":
                v = ("" if vals[i - 1] is UNDEF else str(vals[i - 1])) + "+e"  # undefined concatenates as ''
                reasons.add("default_earlier")
            elif kind in ("s", "S"):
                v = UNDEF  # p=p: the (still unfilled) parameter itself, whether or not an outer p exists
                reasons.add("default_self")
            else:
                raise core.HarnessError("default kind %r" % kind)
        else:
            v = UNDEF
        vals.append(v)
    out = "|".join("U" if v is UNDEF else str(v) for v in vals)  # none is a defined value and prints as None
    if "v" in uses:
        out += "|va=" + ",".join(map(str, surplus))
    if "k" in uses:
        out += "|kw=" + repr(sorted(kw.items()))
    if "c" in uses:
        out += "|c=" + ("CB" if shape == "call" else "U")
    return out, reasons


# ----------------------------------------------------------------------------------------
# template construction


def macro_source(case):
    np_, dk = case["np"], case["dk"]
    nd = len(dk)
    sig = []
    for i in range(np_):
        if i >= np_ - nd:
            kind = dk[i - (np_ - nd)]
            if kind == "c":
                sig.append("p%d='D%d'" % (i, i))
            elif kind == "o":
                sig.append("p%d=ov" % i)
            elif kind in ("s", "S"):
                sig.append("p%d=p%d" % (i, i))
            else:
                if i == 0:
                    raise core.HarnessError("no earlier parameter for p0")
                sig.append("p%d=p%d ~ '+e'" % (i, i - 1))
        else:
            sig.append("p%d" % i)
    body = "|".join("{{ p%d|default('U') }}" % i for i in range(np_))
    if "v" in case["uses"]:
        body += "|va={{ varargs|join(',') }}"
    if "k" in case["uses"]:
        body += "|kw={{ kwargs|dictsort }}"
    if "c" in case["uses"]:
        body += "|c={{ caller() if caller is defined else 'U' }}"
    return "{%% macro m(%s) %%}%s{%% endmacro %%}" % (", ".join(sig), body)


def call_parts(case):
    """-> (argument source text, extra context variables, python args, python kwargs)"""
    npos, kws, shape = case["npos"], case["kw"], case["shape"]
    unknown = set(case.get("none") or ()) - set(kws) - {"A%d" % i for i in range(npos)}
    if unknown:
        raise core.HarnessError("none marks arguments that are not passed: %r" % sorted(unknown))
    pos = [_value(case, "A%d" % i, "A%d" % i) for i in range(npos)]
    kwv = [(k, _value(case, k, "K" + k)) for k in kws]
    lit = lambda v: "none" if v is None else "'%s'" % v  # noqa: E731
    ctx = {}
    if shape in ("star", "both"):
        cut = npos // 2
        args = [lit(a) for a in pos[:cut]] + ["*L"]
        ctx["L"] = pos[cut:]
    else:
        args = [lit(a) for a in pos]
    if shape in ("dstar", "both"):
        cut = len(kwv) // 2
        args += ["%s=%s" % (k, lit(v)) for k, v in kwv[:cut]] + ["**D"]
        ctx["D"] = dict(kwv[cut:])
    elif shape == "dup":
        if not kwv:
            raise core.HarnessError("dup shape needs a keyword")
        args += ["%s=%s" % (k, lit(v)) for k, v in kwv] + ["**D"]
        ctx["D"] = {kwv[0][0]: "X"}
    else:
        args += ["%s=%s" % (k, lit(v)) for k, v in kwv]
    return ", ".join(args), ctx, pos, dict(kwv)


def source(case):
    args, _, _, _ = call_parts(case)
    if case["shape"] == "call":
        return macro_source(case) + "{%% call m(%s) %%}CB{%% endcall %%}" % args
    if case["shape"] == "py":
        return macro_source(case)
    return macro_source(case) + "{{ m(%s) }}" % args


def outer_vars(case):
    """Outer variables visible to the macro: ``ov`` and, for default kind S, one named like the parameter."""
    np_, dk = case["np"], case["dk"]
    out = {"ov": "OV"}
    for j, kind in enumerate(dk):
        if kind == "S":
            i = np_ - len(dk) + j
            out["p%d" % i] = "OUTER%d" % i
    return out


def check_case(case):
    from jinja2 import Environment

    if case["shape"] not in SHAPES or case["env"] not in ("sync", "async"):
        raise core.HarnessError("bad case %r" % (case,))
    if case["shape"] == "py" and case["env"] != "sync":
        raise core.HarnessError("python route is sync only")
    expected, reasons = spec(case)
    env = Environment(enable_async=case["env"] == "async")
    src = source(case)
    _, ctx, pypos, pykw = call_parts(case)
    ctx.update(outer_vars(case))
    tmpl = env.from_string(src)
    try:
        if case["shape"] == "py":
            got = str(tmpl.make_module(outer_vars(case)).m(*pypos, **pykw))
        else:
            got = tmpl.render(ctx)
    except TypeError:
        got = TYPEERROR
    if got != expected:
        raise core.Violation(
            "macro binding differs from the specification\n template: %s\n context: %r%s\n expected: %r\n observed: %r"
            % (src, ctx, "\n python call: m(*%r, **%r)" % (pypos, pykw) if case["shape"] == "py" else "", expected, got),
            expected=expected, observed=got, source=src,
        )
    labels = ["shape_" + case["shape"], "env_" + case["env"], "np_%d" % case["np"],
              "out_typeerror" if expected == TYPEERROR else "out_text"]
    labels += ["nt_" + r for r in sorted(reasons)]
    labels += ["kw_" + k for k in case["kw"] if k in ("self", "arguments", "args")]
    return core.Outcome(bool(reasons), labels)


# ----------------------------------------------------------------------------------------
# enumeration


def _bounds(tier):
    if tier == "quick":
        return dict(max_np=3, max_nd=3, max_pos=5, kwnames=["p0", "p1", "p2", "zz"], max_kw=3, envs=["sync"])
    # the quantified domain (<= 4 parameters, <= 5 positional, <= 4 keywords) in both environments, enlarged by one
    # step (5 parameters, 6 positional, keyword p4) in the sync environment
    return dict(max_np=5, max_nd=3, max_pos=6, kwnames=["p0", "p1", "p2", "p3", "p4", "zz"], max_kw=4, envs=["sync", "async"])


def all_cases(tier):
    b = _bounds(tier)
    uses_all = ["".join(c for c, on in zip("vkc", bits) if on) for bits in itertools.product((0, 1), repeat=3)]
    kwsets = [(list(c), 99) for r in range(b["max_kw"] + 1) for c in itertools.combinations(b["kwnames"], r)]
    # the unknown keyword also under names that collide with Python-level parameter names of the runtime
    # (Macro.__call__(self, *args, **kwargs), Macro.arguments): (name, largest signature it is crossed with)
    for name, lim in EXTRA_KW_NAMES:
        kwsets += [([name if k == "zz" else k for k in kws], lim) for kws, _ in list(kwsets) if "zz" in kws]
    for np_ in range(b["max_np"] + 1):
        for nd in range(min(np_, b["max_nd"]) + 1):
            vectors = ["".join(v) for v in itertools.product("ceo", repeat=nd)]
            vectors += ["c" * j + k + "c" * (nd - j - 1) for j in range(nd) for k in "sS"]
            for dk in vectors:
                if nd == np_ and nd and dk[0] == "e":
                    continue  # p0 has no earlier parameter
                for uses in uses_all:
                    for npos in range(b["max_pos"] + 1):
                        for kws, np_lim in kwsets:
                            if np_ > np_lim:
                                continue
                            for shape in SHAPES:
                                if shape == "dup" and not kws:
                                    continue
                                if shape == "call" and "k" in uses and "c" not in uses:
                                    continue  # undocumented artefact, see ASSUMPTIONS
                                for envname in b["envs"]:
                                    if envname != "sync" and (shape == "py" or np_ > 4 or npos > 5 or "p4" in kws):
                                        continue
                                    case = {"np": np_, "dk": dk, "uses": uses, "npos": npos, "kw": kws,
                                            "shape": shape, "env": envname}
                                    yield case
                                    # argument value none (a defined value, distinct from "not passed"): one keyword
                                    # at a time, and the last positional, on the small signatures
                                    if (np_ <= 2 and npos <= 2 and len(kws) <= 2 and np_lim == 99 and envname == "sync"
                                            and shape in NONE_SHAPES):
                                        for k in kws:
                                            yield dict(case, none=[k])
                                        if npos and shape != "dstar":
                                            yield dict(case, none=["A%d" % (npos - 1)])


def shards(tier):
    return [{"i": i} for i in range(16)]


def run_shard(spec_, ctx):
    return core.enum_shard(core.sliced(all_cases(ctx.tier), ctx.index, ctx.nshards), check_case, ctx)


def floors(total, tier):
    lab = total.labels
    need = ["shape_" + s for s in SHAPES] + ["out_typeerror", "out_text", "nt_surplus_pos", "nt_unknown_kw",
                                            "nt_filled_kw", "nt_default_earlier", "nt_default_self", "nt_starargs", "nt_callblock", "nt_none_value", "kw_self", "kw_arguments",
                                            "kw_args"]
    low = [n for n in need if lab.get(n, 0) < 500]
    if low:
        return "classes below floor 500: %s" % ", ".join(low)
    return None
