#!/venv/bin/python
"""Print the brief for a seeded-change worker: only the property texts and its scratch worktrees (nothing from /verif)."""
import json, sys
props = {json.loads(l)["id"]: json.loads(l) for l in open("/verif/properties.jsonl")}
ids = [a for a in sys.argv[1:] if not a.startswith("--")]
ROUND4 = "--round4" in sys.argv
ROUND3 = "--round3" in sys.argv or ROUND4
ROUND2 = "--round2" in sys.argv or ROUND3
K1, K2 = (7, 8) if ROUND4 else ((5, 6) if ROUND3 else ((3, 4) if ROUND2 else (1, 2)))
def earlier(i):
    out = []
    for k in ((1, 2, 3, 4, 5, 6) if ROUND4 else ((1, 2, 3, 4) if ROUND3 else (1, 2))):
        try:
            m = json.load(open("/verif/seeded/%s-%d/meta.json" % (i, k)))
            out.append("  - already tried (do something DIFFERENT, other code site and other mechanism): " + (m.get("breaks") or "")[:220])
        except Exception:
            pass
    return "\n".join(out)
out = []
out.append("""You are helping to evaluate a verification effort for the Python template engine pallets/jinja (Jinja2 3.2.0.dev0).
Your job: for each property below, craft TWO different realistic code changes ("seeded defects") to pallets/jinja that BREAK the property while the package still imports and the repository's existing test suite still passes — the kind of regression a plausible refactoring, optimisation or "simplification" commit could introduce. You work ONLY in your own scratch git worktrees (listed per property; they are checkouts of the repository at its current HEAD). Do NOT read or touch /verif or /repo (other people are working there) and do not look for existing verification code: your changes must be independent of it.

Interpreter: /venv/bin/python (3.12). The package is installed from /repo/src, so ALWAYS run with the worktree on the path, e.g.
    cd <worktree> && PYTHONPATH=<worktree>/src /venv/bin/python -m pytest -q -p no:cacheprovider -x tests      (about 10 s, 911 tests must pass)
    cd <worktree> && PYTHONPATH=<worktree>/src /venv/bin/python demo.py
(check `python -c "import jinja2; print(jinja2.__file__)"` prints the worktree path).

Requirements for each change:
  * It needs something SPECIFIC to manifest — an unusual input, a particular multi-step sequence of operations, a particular interleaving / crash point / fault, a specific configuration, or two cooperating edit sites that each look fine alone. NOT something ordinary use (or the first template anyone renders) would expose at once; a change that breaks common behaviour would fail the existing tests anyway.
  * The existing test suite (unedited) still passes with the change applied. Run it and say so.
  * Small and plausible: a few lines in src/jinja2/*.py, no new files in the package, no test edits, no syntax tricks, no comments that give it away.
  * The two changes for one property must use different mechanisms / code sites.
  * A demonstration: a small standalone Python program `demo.py` (uses only jinja2 and the stdlib, exits 0 and prints OK when the property holds on its input, exits 1 and prints what went wrong when it does not). It must FAIL (exit 1) with your change and PASS (exit 0) on the unchanged worktree (verify both: `git diff > patch.diff; git apply -R patch.diff` and `git apply patch.diff` — do NOT use `git stash`, the stash is shared between all worktrees).

Deliverables, for change k (the change numbers are given per property below) of property <ID>: directory /tmp/seed-out/<ID>-<k>/ containing
  patch.diff   (output of `git diff` in the worktree, applies with `git apply` at the repository's HEAD)
  demo.py
  meta.json    {"property": "<ID>", "summary": "...what the change does...", "needs": "...what is needed for it to manifest...", "files": [...], "tests_pass": true, "demo_fails_with_patch": true, "demo_passes_without": true}
Leave each worktree clean (git checkout -- .) when you are done; do not delete the worktrees.
Final report: one short paragraph per change (what, where, what it needs to manifest).
""")
for i in ids:
    p = props[i]
    out.append("=== Property %s: %s ===\n%s\nQuantified over: %s\nWorktrees: /tmp/wt-%s-%d (change %d), /tmp/wt-%s-%d (change %d)\n%s\n" % (i, p["title"], p["statement"], p["quantifier"]["text"], i, K1, K1, i, K2, K2, earlier(i) if ROUND2 else ""))
print("\n".join(out))
