"""C28 - loaders never resolve a template name outside their search locations.

Case kinds (plain JSON):

  {"kind": "fs", "loader": VARIANT, "name": str}            one name against a file-system / package loader
  {"kind": "fs", "loader": VARIANT, "names": [str, ...]}     the same, a batch (Hypothesis generated)
  {"kind": "compose", "tree": TREE, "names": [str, ...]}     composed loaders over DictLoader / FunctionLoader leaves
      TREE = ["dict", {name: text}] | ["func", {name: text}] | ["choice", [TREE...]] | ["prefix", [[prefix, TREE]...], delimiter]

In names the tokens @SENTINEL@, @ROOT1@, @ROOT2@ and @PKG@ stand for the absolute paths of the sentinel file, the two
search roots and the package directory of the per-process sandbox tree (the tree lives under /verif/.work/c28-<pid>/, so its
absolute path is not part of the case).

The sandbox tree is a fixed manifest (FILES below).  The expected result of a lookup is computed from the manifest by a
reference resolver written from the loader documentation, never from the file system or the loaders.
"""
import atexit
import itertools
import os
import pathlib
import shutil
import sys

from vt import core

PID = "C28"
LEVEL = "exploration"
RULE = (
    "file-system part: every name of <= 4 (quick) / <= 5 (thorough) segments from a 15-symbol alphabet ('..', '.', '', 'a', "
    "'sub', 'ok.txt', '..\\\\', '\\\\', 'C:', '%2e%2e', '...', NUL, absolute path of the sentinel, a non-ASCII file, 'root2') "
    "joined by '/' and (<= 3 / <= 4 segments) by '\\\\', against 10 loader variants (FileSystemLoader with one root as str / "
    "PathLike / trailing slash / relative path, two roots in both orders, PackageLoader over a directory package with "
    "package_path 'templates', 'templates/sub' and '.'), plus Hypothesis text names; composed part: Hypothesis-generated "
    "ChoiceLoader / PrefixLoader trees of depth <= 3 over DictLoader / FunctionLoader leaves with overlapping names, queried "
    "through get_source and through Environment.get_template. Non-trivial (fs) = the name has a parent reference, an "
    "absolute prefix, a backslash or an encoded-dot segment AND joining it naively to a search root reaches an existing file "
    "outside the search roots; non-trivial (compose) = the reference resolver skipped a loader or stripped a prefix before "
    "deciding; distinct = distinct serialised case."
)
ASSUMPTIONS = [
    "reads are observed as CPython audit events open / os.listdir / os.scandir raised inside the window around the loader call (a read through a C extension that raises no audit event would be invisible)",
    "POSIX only: '\\\\' and drive letters are ordinary file-name characters here; the Windows-specific branches (os.path.altsep) are not exercised",
    "the sandbox contains no symbolic links: a link placed inside a search directory by its owner is not considered an escape",
    "package loader over a directory package only (zip / egg packages are not built)",
    "expected lookups come from a manifest-based resolver: pieces split on '/', a '..' piece rejects the name, empty and '.' pieces are dropped, roots are tried in order, only regular files match",
    "PrefixLoader prefixes never contain the delimiter (the documentation does not say which split wins)",
]

WORK = os.path.join(core.VERIF, ".work")
SENTINEL = "SENTINEL-OUTSIDE-SEARCH-PATH"

# relative path under base/ -> content ; <PKG> is replaced by the per-process package name
FILES = {
    "outside-sentinel.txt": SENTINEL + " 0",
    "ok.txt": SENTINEL + " 1",
    "a": SENTINEL + " 2",
    "sub/ok.txt": SENTINEL + " 3",
    "sub/a": SENTINEL + " 4",
    "\u00fc.txt": SENTINEL + " 5",
    "root1/ok.txt": "R1:ok.txt",
    "root1/a": "R1:a",
    "root1/sub/ok.txt": "R1:sub/ok.txt",
    "root1/sub/sub/ok.txt": "R1:sub/sub/ok.txt",
    "root1/sub/sub/a": "R1:sub/sub/a",
    "root1/...": "R1:three dots",
    "root1/\u00fc.txt": "R1:\u00fc-umlaut",
    "root1/C:/ok.txt": "R1:C:/ok.txt",
    "root1/%2e%2e/ok.txt": "R1:%2e%2e/ok.txt",
    "root1/root2/a": "R1:root2/a",
    "root2/ok.txt": "R2:ok.txt",
    "root2/a": "R2:a",
    "root2/sub/ok.txt": "R2:sub/ok.txt",
    "root2/sub/a": "R2:sub/a",
    "root2/sub/\u00fc.txt": "R2:sub/\u00fc",
    "root2/.../ok.txt": "R2:.../ok.txt",
    "pkgs/ok.txt": SENTINEL + " 6",
    "pkgs/a": SENTINEL + " 7",
    "pkgs/<PKG>/__init__.py": "",
    "pkgs/<PKG>/ok.txt": "PKG-OUTSIDE-TEMPLATES:ok.txt",
    "pkgs/<PKG>/a": "PKG-OUTSIDE-TEMPLATES:a",
    "pkgs/<PKG>/sub/ok.txt": "PKG-OUTSIDE-TEMPLATES:sub/ok.txt",
    "pkgs/<PKG>/templates/ok.txt": "P:ok.txt",
    "pkgs/<PKG>/templates/a": "P:a",
    "pkgs/<PKG>/templates/\u00fc.txt": "P:\u00fc",
    "pkgs/<PKG>/templates/sub/ok.txt": "P:sub/ok.txt",
    "pkgs/<PKG>/templates/sub/a": "P:sub/a",
    "pkgs/<PKG>/templates/sub/sub/ok.txt": "P:sub/sub/ok.txt",
}
VARIANTS = ["fs1", "fs1_pathlike", "fs1_slash", "fs1_rel", "fs2", "fs2_rev_pathlike", "fs_root2", "pkg", "pkg_sub", "pkg_dot"]
ALPHABET = ["..", ".", "", "a", "sub", "ok.txt", "..\\", "\\", "C:", "%2e%2e", "...", "\x00", "@SENTINEL@", "\u00fc.txt", "root2"]

# ---------------------------------------------------------------------------------------------
# audit recorder (hooks cannot be removed: installed once per process, gated by a flag)

_AUDIT = {"installed": False, "on": False, "events": []}


def _hook(event, args):
    if not _AUDIT["on"]:
        return
    if event == "open" or event == "os.listdir" or event == "os.scandir":
        _AUDIT["events"].append((event, args[0] if args else None))


def _install_hook():
    if not _AUDIT["installed"]:
        sys.addaudithook(_hook)
        _AUDIT["installed"] = True


class _Window:
    def __enter__(self):
        del _AUDIT["events"][:]
        _AUDIT["on"] = True
        return _AUDIT["events"]

    def __exit__(self, *exc):
        _AUDIT["on"] = False
        return False


# ---------------------------------------------------------------------------------------------
# sandbox tree (per process)

_state = {}


def _cleanup(pid, path):
    if os.getpid() == pid:
        shutil.rmtree(path, ignore_errors=True)


def _fixture():
    if _state.get("pid") == os.getpid():
        return _state
    import jinja2

    pid = os.getpid()
    top = os.path.join(WORK, "c28-%d" % pid)
    shutil.rmtree(top, ignore_errors=True)
    base = os.path.join(top, "base")
    pkg = "vt_c28_pkg_%d" % pid
    manifest = {}
    for rel, content in FILES.items():
        p = os.path.join(base, rel.replace("<PKG>", pkg))
        os.makedirs(os.path.dirname(p), exist_ok=True)
        with open(p, "w", encoding="utf-8") as f:
            f.write(content)
        manifest[p] = content
    atexit.register(_cleanup, pid, top)
    pkgs = os.path.join(base, "pkgs")
    if pkgs not in sys.path:
        sys.path.insert(0, pkgs)
    import importlib

    importlib.invalidate_caches()
    root1, root2, pkgdir = os.path.join(base, "root1"), os.path.join(base, "root2"), os.path.join(pkgs, pkg)
    FS, PL = jinja2.FileSystemLoader, jinja2.PackageLoader
    loaders = {
        "fs1": (FS(root1), [root1]),
        "fs1_pathlike": (FS(pathlib.Path(root1)), [root1]),
        "fs1_slash": (FS(root1 + "/"), [root1]),
        "fs1_rel": (FS(os.path.relpath(root1, os.getcwd())), [root1]),
        "fs2": (FS([root1, root2]), [root1, root2]),
        "fs2_rev_pathlike": (FS([pathlib.Path(root2), pathlib.PurePosixPath(root1)]), [root2, root1]),
        "fs_root2": (FS([root2]), [root2]),
        "pkg": (PL(pkg), [os.path.join(pkgdir, "templates")]),
        "pkg_sub": (PL(pkg, "templates/sub"), [os.path.join(pkgdir, "templates", "sub")]),
        "pkg_dot": (PL(pkg, "."), [pkgdir]),
    }
    envs = {k: jinja2.Environment(loader=v[0], cache_size=0) for k, v in loaders.items()}
    _install_hook()
    _state.clear()
    _state.update(pid=pid, top=top, base=base, manifest=manifest, loaders=loaders, envs=envs, cwd=os.getcwd(),
                  tokens={"@SENTINEL@": os.path.join(base, "outside-sentinel.txt"), "@ROOT1@": root1, "@ROOT2@": root2,
                          "@PKG@": pkgdir},
                  TemplateNotFound=jinja2.TemplateNotFound, jinja2=jinja2)
    return _state


def _remove_fixture():
    if _state.get("pid") == os.getpid():
        shutil.rmtree(_state["top"], ignore_errors=True)
        _state.clear()


def _expand(name, tokens):
    if "@" in name:
        for k, v in tokens.items():
            name = name.replace(k, v)
    return name


# ---------------------------------------------------------------------------------------------
# reference resolver for file-system style loaders (manifest only)

def ref_resolve(name, roots, manifest):
    pieces = name.split("/")
    if ".." in pieces:
        return None
    kept = [p for p in pieces if p and p != "."]
    for root in roots:
        path = "/".join([root] + kept)
        if path in manifest:
            return manifest[path]
    return None


def _inside(path, roots):
    return any(path == r or path.startswith(r + "/") for r in roots)


def _naive_escape(name, roots, manifest):
    suspicious = (".." in name) or name.startswith("/") or ("\\" in name) or ("%2e" in name.lower())
    if not suspicious or "\x00" in name:
        return False
    spellings = {name, name.replace("\\", "/"), name.replace("%2e", ".").replace("%2E", ".")}
    for root in roots:
        for s in spellings:
            p = os.path.normpath(os.path.join(root, s))
            if p in manifest and not _inside(p, roots):
                return True
    return False


def _check_fs(case):
    st = _fixture()
    variant = case["loader"]
    if variant not in st["loaders"]:
        raise core.HarnessError("loader variant %r" % (variant,))
    loader, roots = st["loaders"][variant]
    env = st["envs"][variant]
    manifest, NotFound = st["manifest"], st["TemplateNotFound"]
    names = case["names"] if "names" in case else [case["name"]]
    labels = set([variant])
    nontrivial = False
    for raw in names:
        name = _expand(raw, st["tokens"])
        want = ref_resolve(name, roots, manifest)
        with _Window() as events:
            try:
                got = loader.get_source(env, name)
            except NotFound:
                got = None
            try:
                rendered = env.get_template(name).render()
            except NotFound:
                rendered = None
            seen = list(events)
        what = "%s, name %r" % (variant, raw)
        # 1. nothing outside the search roots is read
        for event, arg in seen:
            if isinstance(arg, int) or arg is None:
                continue
            p = os.fsdecode(arg) if isinstance(arg, (bytes, os.PathLike)) else str(arg)
            rp = os.path.realpath(os.path.join(st["cwd"], p))
            if not _inside(rp, roots):
                raise core.Violation("%s: %s(%r) touches %s, which is outside the search location(s) %r" % (what, event, arg, rp, roots))
        # 2. never the sentinel content, 3. the reference resolver's answer
        for how, text in (("get_source", None if got is None else got[0]), ("get_template().render()", rendered)):
            if text is not None and SENTINEL in text:
                raise core.Violation("%s: %s returned the content of a file outside the search path: %r" % (what, how, text))
            if text != want:
                raise core.Violation("%s: %s gave %s, expected %s" % (
                    what, how, "TemplateNotFound" if text is None else repr(text), "TemplateNotFound" if want is None else repr(want)))
        if got is not None:
            if not any(e == "open" for e, _ in seen):
                raise core.HarnessError("audit recorder saw no open event for a successful lookup of %r" % (raw,))
            fn = got[1]
            if not isinstance(fn, str) or not _inside(os.path.realpath(os.path.join(st["cwd"], fn)), roots):
                raise core.Violation("%s: get_source reports the file name %r, outside %r" % (what, fn, roots))
            labels.add("found")
        else:
            labels.add("not_found")
        if _naive_escape(name, roots, manifest):
            nontrivial = True
            labels.add("naive_join_would_escape")
        if ".." in name.split("/"):
            labels.add("pardir_segment")
        if "\\" in name:
            labels.add("backslash")
        if name.startswith("/"):
            labels.add("absolute")
    return core.Outcome(nontrivial, labels)


# ---------------------------------------------------------------------------------------------
# composed loaders

def ref_compose(tree, name, trace):
    """-> text or None.  trace collects 'skip' / 'strip' when the decision needed more than the first leaf."""
    kind = tree[0]
    if kind in ("dict", "func"):
        return tree[1].get(name)
    if kind == "choice":
        for k, sub in enumerate(tree[1]):
            r = ref_compose(sub, name, trace)
            if r is not None:
                if k:
                    trace.append("skip")
                return r
        return None
    if kind == "prefix":
        delim = tree[2]
        if delim not in name:
            return None
        prefix, rest = name.split(delim, 1)
        for p, sub in tree[1]:
            if p == prefix:
                trace.append("strip")
                return ref_compose(sub, rest, trace)
        return None
    raise core.HarnessError("tree node %r" % (kind,))


def _build(tree, jinja2):
    kind = tree[0]
    if kind == "dict":
        return jinja2.DictLoader(dict(tree[1]))
    if kind == "func":
        m = dict(tree[1])
        return jinja2.FunctionLoader(m.get)
    if kind == "choice":
        return jinja2.ChoiceLoader([_build(t, jinja2) for t in tree[1]])
    if kind == "prefix":
        if any(tree[2] in p for p, _ in tree[1]) or len({p for p, _ in tree[1]}) != len(tree[1]):
            raise core.Discard()
        return jinja2.PrefixLoader({p: _build(t, jinja2) for p, t in tree[1]}, delimiter=tree[2])
    raise core.HarnessError("tree node %r" % (kind,))


def _depth(tree):
    if tree[0] in ("dict", "func"):
        return 1
    subs = tree[1] if tree[0] == "choice" else [t for _, t in tree[1]]
    return 1 + max([_depth(t) for t in subs] or [0])


def _check_compose(case):
    import jinja2

    tree = case["tree"]
    loader = _build(tree, jinja2)
    env = jinja2.Environment(loader=loader, cache_size=0)
    labels = set(["compose", "depth_%d" % _depth(tree), "top_" + tree[0]])
    nontrivial = False
    for name in case["names"]:
        trace = []
        want = ref_compose(tree, name, trace)
        try:
            got = loader.get_source(env, name)[0]
        except jinja2.TemplateNotFound:
            got = None
        try:
            rendered = env.get_template(name).render()
        except jinja2.TemplateNotFound:
            rendered = None
        for how, text in (("get_source", got), ("get_template().render()", rendered)):
            if text != want:
                raise core.Violation("loaders %r, name %r: %s gave %s, the first loader in order that has the name gives %s" % (
                    tree, name, how, "TemplateNotFound" if text is None else repr(text), "TemplateNotFound" if want is None else repr(want)))
        labels.add("found" if want is not None else "not_found")
        if trace:
            nontrivial = True
            labels.update("ref_" + t for t in trace)
    return core.Outcome(nontrivial, labels)


def check_case(case):
    if case["kind"] == "fs":
        return _check_fs(case)
    if case["kind"] == "compose":
        return _check_compose(case)
    raise core.HarnessError("case kind %r" % (case["kind"],))


# ---------------------------------------------------------------------------------------------
# domains

def names_upto(nseg, joiner):
    for n in range(1, nseg + 1):
        for segs in itertools.product(ALPHABET, repeat=n):
            yield joiner.join(segs)


def fs_cases(tier):
    nslash, nback = (4, 3) if tier == "quick" else (5, 4)
    for name in names_upto(nslash, "/"):
        for v in VARIANTS:
            yield {"kind": "fs", "loader": v, "name": name}
    for n in range(2, nback + 1):
        for segs in itertools.product(ALPHABET, repeat=n):
            for v in VARIANTS:
                yield {"kind": "fs", "loader": v, "name": "\\".join(segs)}
    # mixed joiners, exactly 3 segments
    for segs in itertools.product(ALPHABET, repeat=3):
        for j1, j2 in (("/", "\\"), ("\\", "/"), ("//", "/"), ("/./", "\\..\\")):
            name = segs[0] + j1 + segs[1] + j2 + segs[2]
            for v in VARIANTS[::3]:
                yield {"kind": "fs", "loader": v, "name": name}


def text_names_strategy():
    from hypothesis import strategies as st

    seg = st.one_of(
        st.sampled_from(ALPHABET + ["@ROOT1@", "@ROOT2@", "@PKG@", "templates", "__init__.py", " ..", ".. ", "..\u2026", "\u2026",
                                    "\uff0e\uff0e", "..\x00", "~", "$HOME", "file:", "\\\\?\\", "//", "\\..\\.."]),
        st.text(max_size=6),
        st.text(alphabet="./\\ab\x00%:", max_size=6),
    )
    joiners = [j for j in itertools.product(["/", "\\", "//", ""], repeat=4)] + [("/", "/", "/", "/")] * 200
    name = st.builds(lambda segs, js: "".join(s + j for s, j in zip(segs, list(js) + [""]))[:400],
                     st.lists(seg, min_size=1, max_size=5), st.sampled_from(joiners))
    return st.builds(lambda v, ns: {"kind": "fs", "loader": v, "names": ns}, st.sampled_from(VARIANTS), st.lists(name, min_size=3, max_size=8))


TOK = ["a", "b", "p", "q", "x"]
SEPS = ["/", ":", "::", "."]


def _prune(tree, depth):
    if tree[0] in ("dict", "func"):
        return tree
    if depth <= 1:
        return ["dict", {}]
    if tree[0] == "choice":
        return ["choice", [_prune(t, depth - 1) for t in tree[1]]]
    return ["prefix", [[p, _prune(t, depth - 1)] for p, t in tree[1]], tree[2]]


def _listing(tree):
    if tree[0] in ("dict", "func"):
        return list(tree[1])
    if tree[0] == "choice":
        return [n for t in tree[1] for n in _listing(t)]
    return [p + tree[2] + n for p, t in tree[1] for n in _listing(t)]


def compose_strategy():
    from hypothesis import strategies as st

    nm = st.builds(lambda toks, seps: "".join(t + (seps[i] if i + 1 < len(toks) else "") for i, t in enumerate(toks)),
                   st.lists(st.sampled_from(TOK), min_size=1, max_size=3), st.lists(st.sampled_from(SEPS + ["/", "/"]), min_size=3, max_size=3))
    leaf = st.builds(lambda kind, names: [kind, {n: "" for n in names}], st.sampled_from(["dict", "dict", "dict", "func"]),
                     st.lists(nm, min_size=0, max_size=4, unique=True))

    def extend(children):
        choice = st.builds(lambda ts: ["choice", ts], st.lists(children, min_size=0, max_size=4))
        prefix = st.builds(
            lambda d, ps, ts: ["prefix", [[p, t] for p, t in zip([p for p in ps if d not in p], ts)], d],
            st.sampled_from(SEPS), st.lists(st.sampled_from(TOK + ["a.b", "p:q", "x/a"]), min_size=1, max_size=3, unique=True),
            st.lists(children, min_size=3, max_size=3))
        return st.one_of(choice, prefix)

    tree = st.recursive(leaf, extend, max_leaves=8)

    def number(tree):
        counter = itertools.count()

        def walk(t):
            if t[0] in ("dict", "func"):
                return [t[0], {n: "S%d" % next(counter) for n in t[1]}]
            if t[0] == "choice":
                return ["choice", [walk(x) for x in t[1]]]
            return ["prefix", [[p, walk(x)] for p, x in t[1]], t[2]]

        return walk(tree)

    @st.composite
    def case(draw):
        t = number(_prune(draw(tree), 3))
        known = _listing(t)
        pools = [nm, st.builds(lambda a, s, b: a + s + b, st.sampled_from(TOK), st.sampled_from(SEPS), nm)]
        if known:
            pools = [st.sampled_from(known)] * 3 + pools
        names = draw(st.lists(st.one_of(*pools), min_size=3, max_size=10))
        return {"kind": "compose", "tree": t, "names": names}

    return case()


def compose_enumerated():
    """Small exhaustive family: two/three DictLoaders with every overlap pattern of the names a, b, p/a, in a ChoiceLoader,
    a PrefixLoader (delimiters '/' and ':') and one nesting of each in the other."""
    names = ["a", "b", "p/a", "p/p/a", "p:a", "q/a", "p", "p/", "/a", ""]
    pool = ["a", "b", "p/a"]
    masks = list(itertools.product([0, 1], repeat=len(pool)))
    k = itertools.count()
    for m1, m2 in itertools.product(masks, repeat=2):
        d1 = ["dict", {n: "S1" + n for n, b in zip(pool, m1) if b}]
        d2 = ["dict", {n: "S2" + n for n, b in zip(pool, m2) if b}]
        for tree in (
            ["choice", [d1, d2]],
            ["choice", [d2, ["func", d1[1]]]],
            ["prefix", [["p", d1], ["q", d2]], "/"],
            ["prefix", [["p", d1], ["q", d2]], ":"],
            ["choice", [["prefix", [["p", d1]], "/"], d2]],
            ["prefix", [["p", ["choice", [d1, d2]]], ["q", ["prefix", [["p", d2]], "/"]]], "/"],
            ["choice", [["choice", []], ["choice", [d1]], d2]],
        ):
            next(k)
            yield {"kind": "compose", "tree": tree, "names": names + ["q/p/a", "q/p/b", "p/p/p/a"]}


# ---------------------------------------------------------------------------------------------

NSHARDS = 32


def shards(tier):
    return [{"i": i} for i in range(NSHARDS)]


def run_shard(spec, ctx):
    rec = core.Rec()
    try:
        core.enum_shard(core.sliced(itertools.chain(compose_enumerated(), fs_cases(ctx.tier)), ctx.index, ctx.nshards), check_case, ctx, rec=rec)
        if not rec.violations:
            core.hyp_shard(text_names_strategy(), check_case, ctx, ctx.pick(150, 3000), rec=rec, tag="text")
        if not rec.violations:
            core.hyp_shard(compose_strategy(), check_case, ctx, ctx.pick(150, 3000), rec=rec, tag="compose")
    finally:
        _remove_fixture()
    return rec


def floors(total, tier):
    need = VARIANTS + ["found", "not_found", "naive_join_would_escape", "pardir_segment", "backslash", "absolute", "compose",
                       "ref_skip", "ref_strip", "depth_3", "top_choice", "top_prefix"]
    missing = [k for k in need if total.labels.get(k, 0) < 20]
    if missing:
        return "label classes below floor (20): %s" % ", ".join(missing)
    return None
