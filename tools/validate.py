#!/usr/bin/env python3-vt
"""Validate MANIFEST.json and every evidence file against the schemas (runs under the tooling venv, which has jsonschema)."""
import glob, json, sys, jsonschema
bad = 0
m = json.load(open("/verif/MANIFEST.json")); jsonschema.validate(m, json.load(open("/root/.vp/MANIFEST.schema.json")))
es = json.load(open("/root/.vp/EVIDENCE.schema.json"))
for c in m["checks"]:
    f = c["evidence_file"]
    try:
        e = json.load(open(f)); jsonschema.validate(e, es)
        assert e["level"] == c["level_claimed"]["category"], "level mismatch"
    except Exception as ex:
        bad += 1; print("BAD", f, str(ex)[:300])
print("manifest ok;", len(m["checks"]), "checks;", bad, "bad evidence files")
sys.exit(1 if bad else 0)
