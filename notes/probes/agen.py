import asyncio, sys, gc, warnings
from jinja2 import Environment, DictLoader
warnings.simplefilter("error")
tm={'base':"A{% block b %}B{{ x }}{% endblock %}C{% for i in s if i %}{{ i }}{% endfor %}D{% for i in ag() %}{{ i }}{% endfor %}E",
    'child':"{% extends 'base' %}{% block b %}{{ super() }}!{% include 'inc' %}{% for i in s if i %}{{ i }}{{ slow() }}{% endfor %}{% endblock %}",
    'inc':"[{{ x }}{{ slow() }}{% for i in ag() %}{{ i }}{{ slow() }}{% endfor %}]"}
e=Environment(loader=DictLoader(tm), enable_async=True)
t=e.get_template('child')
async def slow():
    await asyncio.sleep(0); return ''
async def ag():
    for i in range(3):
        await asyncio.sleep(0); yield i
def ctx(): return dict(x='X', s=[1,0,3], slow=slow, ag=ag)
def run(coro_factory):
    created=[]; finalized=[]
    live={}
    def firstiter(g): created.append(g.__qualname__ if hasattr(g,'__qualname__') else repr(g)); live[id(g)]=g
    def finalizer(g): finalized.append(getattr(g,'__qualname__',repr(g)))
    async def main():
        old=sys.get_asyncgen_hooks()
        sys.set_asyncgen_hooks(firstiter=firstiter, finalizer=finalizer)
        try:
            await coro_factory()
        finally:
            # which created gens are not closed now?
            open_=[g.__qualname__ for g in live.values() if g.ag_frame is not None]
            sys.set_asyncgen_hooks(*old)
            return open_
    loop=asyncio.new_event_loop()
    try: open_=loop.run_until_complete(main())
    finally:
        loop.run_until_complete(loop.shutdown_asyncgens()); loop.close()
    return created, open_, finalized
# total chunks
async def full():
    return [c async for c in t.generate_async(ctx())]
print(run(full))
N=len(asyncio.run(full()))
print("chunks",N)
for k in range(0,N+1):
    async def early(k=k):
        g=t.generate_async(ctx()); n=0
        async for c in g:
            n+=1
            if n>=k: break
        await g.aclose()
    c,o,f=run(early)
    print(k, "open:",o, "finalizer-called:",f)
# cancellation at k-th await
for k in range(0,40,3):
    async def canc(k=k):
        task=asyncio.ensure_future(t.render_async(ctx()))
        for _ in range(k):
            await asyncio.sleep(0)
            if task.done(): break
        task.cancel()
        try: await task
        except asyncio.CancelledError: pass
    c,o,f=run(canc)
    print("cancel",k,"open:",o,"fin:",f)
