"""C05 - include and import honor the documented context visibility; modules export exactly the
public top-level names.

Case: {"ir": module-set IR (vt/gen/tsets.py, kind "modules"), "data": {...}}.
Oracle (independent model ``vt.ref.resolve``, which never imports jinja2), in a sync and an
enable_async environment:

* every user template is rendered from a DictLoader and compared with the model's text (library
  bodies and macros print *visibility probes* ``name={{ name is defined }}:{{ name }};``), or with
  the model's error family (TemplateNotFound for a missing include without ``ignore missing``,
  TemplateSyntaxError for a broken include even with ``ignore missing``, UndefinedError for calling a
  name a module does not export);
* for every template of the set, ``set(vars(get_template(n).make_module(data)))`` minus the two
  bookkeeping attributes must equal the model's export set, scalar export values and the module
  body text must match.
"""
import asyncio

from vt import core
from vt.gen import tsets
from vt.props.c04 import _errs, family
from vt.ref import resolve as ref

PID = "C05"
LEVEL = "exploration"
RULE = (
    "Hypothesis-generated template sets: 1-3 library templates (public/_private macros and assignments, assignments "
    "under if / for / with / set-block, nested imports and includes of lower libraries, own-name-then-import collisions) "
    "and 1-2 user templates with include (with/without context, ignore missing, literal name lists with missing first "
    "entries, names / lists / Template objects in variables, missing and syntactically broken targets) and import / "
    "from-import (with/without context, aliases, unexported names) at top level and inside for / with / macro / set-block / "
    "call-block / filter-block scopes that define locals or buffer output; render context, globals and locals overlap in names. Rendered sync + async and compared "
    "with the reference context model; make_module export sets compared. Non-trivial = an include/import saw a local "
    "that differs from the context, or a name list's first entry was missing, or a library had a private / non-top-level "
    "assignment; distinct = distinct serialised case."
)
ASSUMPTIONS = [
    "reference model = DESIGN.md 3.4 (with context: context + locals of the enclosing scopes at that point; without: environment globals only)",
    "template-level globals (get_template(name, globals=...)) are visible to the entry, its with-context includes/imports and its "
    "direct imports without context; a miss anywhere further away is discarded as undocumented",
    "discarded: macro closure reads of a top-level name assigned later while an outer binding exists (DESIGN.md 3.2 artefact)",
    "errors compared by class family; TemplatesNotFound counts as TemplateNotFound",
]

BOOKKEEPING = {"_body_stream", "__name__"}


def _scalar(v):
    import jinja2

    if isinstance(v, jinja2.Undefined):
        return ""
    if isinstance(v, (str, int, bool)):
        return str(v)
    return None


def observe_module(env, name, data, loop):
    t = env.get_template(name)
    args = tsets.decode_data(env, data)
    if env.is_async:
        mod = loop.run_until_complete(t.make_module_async(args))
    else:
        mod = t.make_module(args)
    attrs = {k: v for k, v in vars(mod).items() if k not in BOOKKEEPING}
    return {"names": sorted(attrs), "values": {k: _scalar(v) for k, v in attrs.items()}, "body": str(mod)}


def check_case(case):
    ir, data = case["ir"], case["data"]
    bad = tsets.validate(ir)
    if bad:
        raise core.HarnessError("malformed case (generator bug): " + bad)
    try:
        expected, events = ref.resolve_with_events(ir, data)
    except ref.Ambiguous:
        raise core.Discard() from None
    exp_mods = {}
    for name in ir.get("modules", []):
        try:
            exp_mods[name] = ref.module_exports(ir, name, data)
        except ref.Ambiguous:
            pass
    srcs = None
    loop = asyncio.new_event_loop()
    try:
        for mode, flag in (("sync", False), ("async", True)):
            env = tsets.make_env(ir, enable_async=flag)
            for name in ir["entries"]:
                try:
                    got = {"out": tsets.render_entry(env, name, data, loop, (ir.get("tglobals") or {}).get(name))}
                except _errs() as e:
                    got = {"err": family(e)}
                if got != expected[name]:
                    srcs = tsets.print_set(ir)
                    raise core.Violation(
                        "%s render of %r: expected %r, observed %r\n  data=%r globals=%r\n  %s"
                        % (mode, name, expected[name], got, data, ir.get("globals"),
                           "\n  ".join("%s: %s" % kv for kv in sorted(srcs.items()))),
                        expected=expected[name], observed=got, sources=srcs,
                    )
            for name, exp in exp_mods.items():
                try:
                    got = observe_module(env, name, data, loop)
                except _errs() as e:
                    got = {"err": family(e)}
                if "err" in exp or "err" in got:
                    ok = exp == got
                else:
                    ok = exp["names"] == got["names"] and exp["body"] == got["body"]
                    if ok:
                        for k, v in exp["values"].items():
                            if isinstance(v, str) and got["values"].get(k) != v:
                                ok = False
                if not ok:
                    srcs = tsets.print_set(ir)
                    raise core.Violation(
                        "%s make_module(%r): expected exports %r, observed %r\n  data=%r globals=%r\n  %s"
                        % (mode, name, exp, got, data, ir.get("globals"), "\n  ".join("%s: %s" % kv for kv in sorted(srcs.items()))),
                        expected=exp, observed=got, sources=srcs,
                    )
    finally:
        loop.close()
    nontrivial = bool(
        {"include_local_shadows_context", "import_local_shadows_context", "include_sees_local", "import_sees_local",
         "list_first_missing", "private_toplevel", "nested_macro"} & events
    )
    labels = sorted(events)
    for r in expected.values():
        labels.append("exp_" + ("out" if "out" in r else r["err"]))
    return core.Outcome(nontrivial, labels)


def shards(tier):
    return [{"i": i} for i in range(16)]


def run_shard(spec, ctx):
    # measured single-process cost incl. generation: ~25 ms per case (quick sizes), ~32 ms (thorough sizes)
    n = ctx.pick(1300, 18000)
    strat = tsets.module_sets(max_libs=ctx.pick(3, 3), size=ctx.pick(3, 4))
    rec = core.Rec()
    chunk = 6000
    done = 0
    while done < n and not rec.violations:
        m = min(chunk, n - done)
        core.hyp_shard(strat, check_case, ctx, m, rec=rec, tag="modules-%d" % done)
        done += m
    return rec


FLOORS = {
    "include_sees_local": 0.10, "import_sees_local": 0.05, "include_local_shadows_context": 0.05, "include_without_context": 0.10,
    "import_with_context": 0.10, "import_without_context": 0.10, "list_first_missing": 0.05, "ignored_missing": 0.05,
    "template_object": 0.05, "private_toplevel": 0.10, "nested_macro": 0.03, "from_unexported": 0.03,
    "exp_TemplateNotFound": 0.005, "exp_TemplateSyntaxError": 0.003,
}


def floors(total, tier):
    n = max(total.evaluations, 1)
    low = ["%s=%d" % (k, total.labels.get(k, 0)) for k, f in FLOORS.items() if total.labels.get(k, 0) < f * n * 0.5]
    if low:
        return "classes below floor: " + ", ".join(low)
    if total.discarded > 0.15 * n:
        return "too many discarded cases: %d of %d" % (total.discarded, n)
    return None
