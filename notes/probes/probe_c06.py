import itertools, collections
from jinja2 import Environment
env = Environment()
# signature: params p0..pn-1, last d have defaults ("D<i>"); body prints each param and optionally varargs/kwargs/caller
def spec(nparams, ndef, uses_va, uses_kw, npos, kws):
    params=[f"p{i}" for i in range(nparams)]
    bound={}
    pos=[f"A{i}" for i in range(npos)]
    for p,a in zip(params,pos): bound[p]=a
    extra_pos=pos[nparams:]
    kw=dict(kws)
    for p in params[min(npos,nparams):]:
        if p in kw: bound[p]=kw.pop(p)
    # keyword for already-positionally-filled param -> ??? python: TypeError multiple values
    if extra_pos and not uses_va: return "TypeError"
    if kw and not uses_kw: return "TypeError"
    out=[]
    for i,p in enumerate(params):
        if p in bound: out.append(bound[p])
        elif i>=nparams-ndef: out.append(f"D{i}")
        else: out.append("")
    s="|".join(out)
    if uses_va: s+="|va="+",".join(extra_pos)
    if uses_kw: s+="|kw="+",".join(f"{k}:{v}" for k,v in sorted(kw.items()))
    return s
bad=collections.Counter(); ex={}
n=0
for nparams in range(0,4):
  for ndef in range(0,nparams+1):
    for uses_va in (0,1):
      for uses_kw in (0,1):
        params=[f"p{i}" for i in range(nparams)]
        sig=", ".join(p+(f"='D{i}'" if i>=nparams-ndef else "") for i,p in enumerate(params))
        body="|".join("{{ %s }}"%p for p in params)
        if uses_va: body+="|va={{ varargs|join(',') }}"
        if uses_kw: body+="|kw={% for k,v in kwargs|dictsort %}{{ k }}:{{ v }}{% if not loop.last %},{% endif %}{% endfor %}"
        src="{%% macro m(%s) %%}%s{%% endmacro %%}"%(sig,body)
        for npos in range(0,5):
          for kwnames in itertools.chain.from_iterable(itertools.combinations(["p0","p1","p2","zz"],r) for r in range(0,3)):
            kws=[(k,"K"+k) for k in kwnames]
            call="m(%s)"%", ".join([f"'A{i}'" for i in range(npos)]+[f"{k}='{v}'" for k,v in kws])
            n+=1
            exp=spec(nparams,ndef,uses_va,uses_kw,npos,kws)
            try: got=env.from_string(src+"{{ "+call+" }}").render()
            except TypeError: got="TypeError"
            except Exception as e: got="EXC:"+type(e).__name__
            if got!=exp:
                k=(nparams,ndef,uses_va,uses_kw); bad[k]+=1; ex.setdefault(k,(src,call,exp,got))
print(n, sum(bad.values()))
for k,v in list(bad.items())[:12]: print(k,v,ex[k])
