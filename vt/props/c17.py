"""C17 - a sandboxed template cannot obtain private or internal attributes.

Case: {"env": "sandbox"|"immutable", "async": bool, "autoescape": bool, "src": template source,
       "names": [attribute names supplied as data]}            (escape attempt, rendered), or
      {"env", "async", "struct": true, "src"}                  (broad program, compiled only).

Oracles (DESIGN.md C17):
  1. tracer: the probe world's private attributes are Tracer values recording every use and printing
     as the sentinel; interpreter internals (code, frames, globals, classes) mention the sentinel in
     their text; every generated template prints sentinel text only behind a private access.  A run
     passes iff no tracer use was recorded, the sentinel is absent from the output and the outcome is
     output / SecurityError / UndefinedError.  The same source rendered in a plain Environment shows
     whether the probe is live (sentinel printed or tracer used) = non-trivial.
  2. structure: ``env.compile(src, raw=True)`` parsed with ``ast``: no ``ast.Attribute`` rooted at
     anything but the generated internals.
"""
import warnings

from vt import core
from vt.gen import sandbox_gen as g

PID = "C17"
LEVEL = "exploration"
RULE = (
    "escape attempts = receiver (probe objects reached through attribute/item/filter hops, class, function, bound "
    "method, generator, coroutine, async generator, code, frame, traceback, str/Markup/str subclass, containers, engine "
    "objects: loop, self, macros, caller, namespace, undefined, globals, literals, imported template modules and "
    "imported macros) x access primitive (from-import of the name with an alias, in name lists, with/without context, "
    "inside loop/macro/if/block scopes, dot, subscript "
    "with 8 computed-name spellings, attr filter, names supplied as data, attribute arguments of map/selectattr/"
    "rejectattr/sort/unique/min/max/sum/join/groupby incl. dotted, integer and comma paths and defaults, str.format/"
    "format_map/Markup.format/str-subclass field paths with index syntax, conversions and nested specs, called "
    "directly, via subscript/attr filter, stored in set/list/dict/namespace/macro argument/with/loop variable, or "
    "handed to a calling filter; format strings supplied as data) x private/internal name x consumption (print, "
    "string, escape, default, defined/truth test, call, iterate, hop, length, set/with/macro/namespace storage, ...) x "
    "{Sandboxed, ImmutableSandboxed} x {sync, async} x autoescape; an enumerated core (every primitive x every name "
    "on its natural receivers) plus Hypothesis-drawn combinations; plus broad statement programs (all statements, "
    "i18n/do/loopcontrols/debug extensions) that are compiled only, for the code-structure oracle.  Non-trivial = the "
    "same source rendered in a plain Environment prints the sentinel or uses a tracer (the targeted attribute exists "
    "and is private/internal, the probe is live); distinct = distinct case."
)
ASSUMPTIONS = [
    "a property getter / __getattr__ of a data object runs when the sandbox looks the attribute up (getattr precedes the safety decision); only handing the value to the template counts",
    "items of containers are not attributes: dict keys that look private are outside the property, so containers hold probes under public keys only",
    "leaks of interpreter internals that have no sentinel in their text are detected through definedness / truth guards in the generated template, not through tracers",
    "the control render in a plain Environment only decides non-triviality; it is never used as the expected value",
    "structural oracle: allowed attribute roots are the names environment/context/template/included_template/parent_template/gen/agen/t_N/_loop_vars/_block_vars and the internal calls environment.get_template|select_template|get_or_select_template(...), context.blocks.setdefault(...), template._get_default_module[_async](...) (surveyed on the unchanged tree, sync and async)",
]

_exc = {}


def _allowed():
    if not _exc:
        from jinja2.exceptions import SecurityError, TemplateAssertionError, UndefinedError

        # TemplateAssertionError: the engine refuses the template at compile time ("names starting with an underline
        # can not be imported"), nothing is rendered
        _exc["ok"] = (SecurityError, UndefinedError, TemplateAssertionError)
    return _exc["ok"]


def _structure(env, src):
    code = env.compile(src, raw=True)
    bad = g.structural_violations(code)
    if bad:
        raise core.Violation(
            "generated code accesses an attribute outside the sandbox: %s\n  env=%s async=%s\n  template: %s"
            % ("; ".join(bad[:3]), type(env).__name__, env.is_async, src)
        )
    return code


def check_case(case):
    kind, is_async, src = case["env"], case["async"], case["src"]
    if case.get("struct"):
        env = g.make_env(kind, is_async, extensions=g.STRUCT_EXTS)
        code = _structure(env, src)
        n_get = code.count("environment.getattr(") + code.count("environment.getitem(") + code.count("environment.call(")
        return core.Outcome(n_get >= 2, ("struct", "struct_async" if is_async else "struct_sync"))

    autoescape = case.get("autoescape", False)
    names = case.get("names", [])
    env = g.make_env(kind, is_async, autoescape)
    refused = None
    try:
        _structure(env, src)
    except _allowed()[2] as e:  # TemplateAssertionError: refused at compile time, nothing to render
        refused = e

    world = g.World(names)
    try:
        if refused is not None:
            out, err = "", refused
        else:
            try:
                out, err = g.render(env, src, world.ctx), None
            except Exception as e:  # noqa: BLE001 - judged below: only the sandbox's own refusals are allowed
                out, err = "", e
        uses = list(world.log)
    finally:
        world.close()
    where = "\n  env=%s async=%s autoescape=%s names=%r\n  template: %s" % (kind, is_async, autoescape, names, src)
    if uses:
        raise core.Violation("a private attribute value reached the template and was used: %r%s" % (uses[:4], where))
    if g.SENT in out:
        raise core.Violation("sentinel text of a private/internal attribute in the output %r%s" % (out[:300], where))
    if err is not None and not isinstance(err, _allowed()):
        raise core.Violation(
            "outcome must be output, SecurityError, UndefinedError or a compile-time TemplateAssertionError; got %s: %s%s" % (type(err).__name__, err, where)
        )

    # control: is the probe live?  (plain Environment, fresh world)
    cenv = g.make_env("plain", is_async, autoescape)
    cworld = g.World(names)
    try:
        with warnings.catch_warnings():
            # plain async environments print loop objects whose repr leaves a coroutine un-awaited
            warnings.simplefilter("ignore", RuntimeWarning)
            try:
                cout = g.render(cenv, src, cworld.ctx)
            except Exception:  # noqa: BLE001 - the control only decides non-triviality
                cout = ""
        live = bool(cworld.log) or g.SENT in cout
        by_tracer = bool(cworld.log)
    finally:
        cworld.close()
    labels = [
        kind + ("_async" if is_async else "_sync"),
        "live" if live else "dead",
        "outcome_" + ("output" if err is None else type(err).__name__),
    ]
    if live:
        labels.append("live_tracer" if by_tracer else "live_sentinel_only")
    labels.extend(case.get("tags", ()))
    return core.Outcome(live, labels)


def shards(tier):
    return [{"i": i} for i in range(16)]


def run_shard(spec, ctx):
    rec = core.Rec()
    # each stage runs only while nothing has failed: a failing tree is reported from the cheapest stage
    core.enum_shard(core.sliced(g.core_cases(), ctx.index, ctx.nshards), check_case, ctx, rec=rec)
    if not rec.violations:
        core.hyp_shard(g.escape_case(), check_case, ctx, ctx.pick(3000, 65000), rec=rec, tag="esc")
    if not rec.violations:
        core.hyp_shard(g.struct_program(), check_case, ctx, ctx.pick(800, 10000), rec=rec, tag="struct")
    return rec


def floors(total, tier):
    lab = total.labels
    n = sum(lab.get(k + s, 0) for k in ("sandbox", "immutable") for s in ("_sync", "_async"))
    if n and lab.get("live", 0) < 0.5 * n:
        return "only %d of %d escape attempts are live in the control render" % (lab.get("live", 0), n)
    for k in ("sandbox_sync", "sandbox_async", "immutable_sync", "immutable_async", "struct_sync", "struct_async", "live_tracer", "live_sentinel_only"):
        if lab.get(k, 0) < 200:
            return "class %s has only %d cases" % (k, lab.get(k, 0))
    return None
