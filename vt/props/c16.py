"""C16 - autoescaping escapes each value exactly once.

Differential / metamorphic check: for a template that neither marks values safe nor applies escaping-, length- or
position-sensitive operations to *rendered fragments*,

    unescape5(render with autoescaping on) == render with autoescaping off

where unescape5 replaces, in one left-to-right pass, exactly the five entities MarkupSafe emits (&amp; &lt; &gt; &#34; &#39;).
Template text never contains '&', so every '&' of the escaped output starts an emitted entity and the single pass is the
exact inverse of one level of escaping even for data that holds pre-escaped look-alikes (&lt; &amp;lt; &quot;).
Runtime errors must agree too (same exception class on both sides, same text produced before it).

Case kinds (plain JSON)
  {"kind": "esc",  "templates": {name: IR}, "data": {...}, "modes": [mode]}     vt.gen.escgen in neutral mode (see its docstring:
        lo = plain string, any non-markup operation; hi = rendered fragment, content-preserving sinks only)
  {"kind": "stmt", "prog": G-stmt program, "data": {...}, "modes": [mode]}      vt.gen.stmt programs (C03's generator) passed
        through ``neutralize`` (below) with metacharacter-rich literals and data
  {"kind": "tset", "ir": tsets IR, "data": {...}, "modes": [mode]}              vt.gen.tsets hierarchies / module sets (C04 / C05)
  modes as in vt.props.c15 (static, select by name, string template, {% autoescape true %} regions, runtime flag, macro
  definitions outside the regions); the *off* side is the same configuration with autoescaping disabled.

Known and excluded: F5 (``~`` with a fragment operand inside a region whose flag is decided at runtime consults
eval_ctx.volatile and over-escapes): such programs are not run in the "volatile" mode (listed in known_findings.d/C16.json);
N1 / N2 of C15 (filter sections trusting plain filter results, blocks inside autoescape regions) are excluded by construction.
"""
import re

from hypothesis import strategies as st

from vt import core
from vt.gen import escgen, stmt, tsets
from vt.props import c15

PID = "C16"
LEVEL = "exploration"
RULE = (
    "Hypothesis-generated programs from three generators: (1) vt.gen.escgen in neutral mode (template sets with macros, call blocks "
    "with caller arguments, set blocks, filter sections, recursive loops, include, import / from-import, blocks with self.b() and "
    "super(), where plain data goes through every non-markup filter / operator / str method and rendered fragments only through "
    "output, ~, +, *, join items, set / with / macro arguments, default, conditional expressions, string / trim); (2) the C03 "
    "statement generator (vt.gen.stmt) rewritten by a conservative taint pass so that no comparison / case transform / length / "
    "iteration / list display touches a possible fragment; (3) the C04 / C05 template-set generators (vt.gen.tsets). Data and "
    "literals are rich in < > \" ' & and pre-escaped look-alikes. Each case renders with autoescaping on (static, selected by "
    "template name, string template, {% autoescape true %} regions, runtime flag, macro definitions outside the regions) and off, "
    "and compares unescape-once(on) with off. Non-trivial = the on and off texts differ (something was escaped) and the program "
    "contains a macro / call block / set block / filter section / block reference / include / import; distinct = distinct case."
)
ASSUMPTIONS = [
    "both sides run the current tree (differential by design): a defect common to both sides is invisible here",
    "premise restrictions of DESIGN.md section 4 C16: no safe / escape / forceescape / striptags / urlize / xmlattr / tojson; fragments "
    "are never compared, measured, sliced, iterated, case-transformed, formatted into plain strings or displayed inside a list",
    "template text contains no '&' (tsets text and constants are sanitised accordingly)",
    "errors are compared by exception class name; the random filter is seeded identically on both sides",
    "F5 excluded: a ~ with a fragment operand is not rendered under the runtime-flag mode",
]

ADDR = re.compile(r"(?i) at 0x[0-9a-f]+")  # also after upper / title
# the same address after a filter rewrote the blanks around it (replace(' ', …)): any long hex run after 0x
ADDR2 = re.compile(r"(?i)0x[0-9a-f]{6,}")
UNESC = re.compile(r"&(amp|lt|gt|#34|#39);")
_UNMAP = {"amp": "&", "lt": "<", "gt": ">", "#34": '"', "#39": "'"}


def unescape5(s):
    return UNESC.sub(lambda m: _UNMAP[m.group(1)], s)


def _allowed():
    import jinja2

    return c15._errors() + (jinja2.TemplateNotFound, jinja2.TemplateSyntaxError)


def _compare(where, on, off, sources):
    (ton, eon), (toff, eoff) = on, off
    non = type(eon).__name__ if eon is not None else None
    noff = type(eoff).__name__ if eoff is not None else None
    if non != noff:
        raise core.Violation("%s: autoescape on ended with %s (%s), off with %s (%s)\non : %r\noff: %r\nsources: %s"
                             % (where, non, eon, noff, eoff, ton[:400], toff[:400], str(sources)[:1500]))
    # repr of iterators / objects carries an address (e.g. <reversed object at 0x...>): normalised on both sides
    ton, toff = ADDR.sub(" at 0x", ton), ADDR.sub(" at 0x", toff)
    ton, toff = ADDR2.sub("0x", ton), ADDR2.sub("0x", toff)
    got = unescape5(ton)
    if got != toff:
        i = next((j for j in range(min(len(got), len(toff))) if got[j] != toff[j]), min(len(got), len(toff)))
        raise core.Violation(
            "%s: unescape-once(autoescape on) != autoescape off at offset %d\non (raw)      : ...%r\non (unescaped): ...%r\noff           : ...%r\nsources: %s"
            % (where, i, ton[max(0, i - 30): i + 60], got[max(0, i - 30): i + 50], toff[max(0, i - 30): i + 50], str(sources)[:1500])
        )
    return ton != toff


BOUNDARY = {"macro", "callblock", "setblock", "filter", "include", "import", "from", "block"}


def check_esc(case, known=False):
    templates, data = case["templates"], case["data"]
    if not known:
        if escgen.n1_class(templates):
            raise core.Excluded()  # N1 / F48 (never generated in neutral mode)
        if escgen.has_blocks(templates) and any(m["m"] in c15.REGION_MODES for m in case["modes"]):
            raise core.Excluded()  # N2 / F49
    labels = set()
    has_hcat = False
    for n in escgen.walk(templates):
        if n[0] == "hcat":
            has_hcat = True
        elif n[0] in BOUNDARY and len(n) >= 3:
            labels.add("s:" + n[0])
        elif n[0] == "call" and len(n) == 4:
            c = n[1]
            if c == ["v", "caller"]:
                labels.add("s:caller")
            elif c == ["v", "super"]:
                labels.add("s:super")
            elif c[0] == "attr" and c[1] == ["v", "self"]:
                labels.add("s:self")
            elif c == ["v", "loop"]:
                labels.add("s:recursive")
            elif c[0] == "attr" and c[1] == ["v", "lib"]:
                labels.add("s:module_macro")
    boundary = bool(labels)
    differ = False
    allowed = _allowed()
    for mode in case["modes"]:
        if mode["m"] in ("volatile", "nested") and has_hcat and not known:
            raise core.Excluded()  # known finding F5
        s_on, entry, esrc = c15.mode_sources(templates, mode, True)
        overlay = case.get("env", {}).get("overlay", 0) if mode["m"] in ("static", "select") else 0
        if overlay:
            # the second environment is an overlay of the first one with the other autoescape setting, created after the
            # first has loaded and rendered the templates (same loader, same names): 1 = off from on, 2 = on from off
            first_on = overlay == 1
            parent = c15.make_env(s_on, mode, first_on, case.get("env"))
            first = c15.stream(parent, entry, esrc, data, allowed)
            child = parent.overlay(autoescape=c15.ae_setting(mode, not first_on))
            second = c15.stream(child, entry, esrc, data, allowed)
            on, off = (first, second) if first_on else (second, first)
            labels.add("env:overlay")
        else:
            on = c15.stream(c15.make_env(s_on, mode, True, case.get("env")), entry, esrc, data, allowed)
            s_off, entry, esrc = c15.mode_sources(templates, mode, False)
            off = c15.stream(c15.make_env(s_off, mode, False, case.get("env")), entry, esrc, data, allowed)
        differ = _compare("esc mode %s%s" % (c15._mode_name(mode), " env %s" % case["env"] if case.get("env") else ""), on, off, s_on) or differ
        if case.get("env", {}).get("async"):
            labels.add("env:async")
        if case.get("env", {}).get("sandbox"):
            labels.add("env:sandbox")
        labels.add("mode:" + mode["m"])
        labels.add("ok" if on[1] is None else "err:" + type(on[1]).__name__)
    return core.Outcome(boundary and differ, sorted(labels))


# -- G-stmt programs ---------------------------------------------------------------------------------------

_LIT = {"p": "<p>", "q": 'q&"', "Ab": "A>b&lt;", "z z": "z&amp;z"}
_DATA = {"p": "<p>", "q": 'q&"', "Ab": "A'b&lt;"}
_BLOCKF = {"upper": "string", "lower": "trim", "length": "string"}
_SENSITIVE = ("upper", "lower", "length", "first", "join")


def _tainted_names(prog):
    T = set()

    def taint(e):
        k = e[0]
        if k == "name":
            return e[1] in T
        if k in ("call", "caller", "looprec"):
            return True
        if k == "nsattr":
            return "ns:" + e[1] in T
        if k in ("add", "sub", "cat", "and", "or"):
            return taint(e[1]) or taint(e[2])
        if k == "cond":
            return taint(e[1]) or (e[3] is not None and taint(e[3]))
        if k == "list":
            return any(taint(x) for x in e[1])
        if k == "filt":
            return e[1] != "length" and (taint(e[2]) or any(taint(x) for x in e[3]))
        return False

    macros = {}
    for s in stmt.walk(prog):
        if s[0] == "macro":
            macros.setdefault(s[1], []).append(s[2])
    changed = True
    while changed:
        before = len(T)
        caller_tainted = False
        for s in stmt.walk(prog):
            k = s[0]
            if k == "set" and any(taint(e) for e in s[2]):
                T.update(s[1])
            elif k == "setblock":
                T.add(s[1])
            elif k == "nsnew":
                if any(taint(e) for _, e in s[2]):
                    T.add("ns:" + s[1])
            elif k == "nsset":
                if taint(s[3]):
                    T.add("ns:" + s[1])
            elif k == "with":
                T.update(n for n, e in s[1] if taint(e))
            elif k == "for":
                if taint(s[2]):
                    T.update(s[1])
            elif k == "macro":
                nd = len(s[2]) - len(s[3])
                T.update(p for p, d in zip(s[2][nd:], s[3]) if taint(d))
            for e in stmt.stmt_exprs(s):
                for x in stmt.walk_expr(e):
                    if x[0] == "call":
                        for params in macros.get(x[1], []):
                            T.update(p for p, a in zip(params, x[2]) if taint(a))
                        T.update(kw for kw, a in x[3] if taint(a))
                    elif x[0] == "caller" and any(taint(a) for a in x[1]):
                        caller_tainted = True
        if caller_tainted:
            for s in stmt.walk(prog):
                if s[0] == "callblock":
                    T.update(s[1])
        changed = len(T) != before
    return T, taint


def neutralize(prog):
    """A copy of a G-stmt program inside C16's premise: possible fragments (macro / caller / loop() results, set-block
    variables and everything assigned from them, flow-insensitively) are never compared, case-transformed, measured,
    indexed, iterated or put into a list display; string literals become metacharacter-rich."""
    T, taint = _tainted_names(prog)
    PLAIN = ["str", "p"]

    def U(e):
        return PLAIN if taint(e) else R(e)

    def R(e):
        k = e[0]
        if k == "str":
            return ["str", _LIT.get(e[1], e[1])]
        if k in ("name", "int", "bool", "defined", "nsattr", "loopattr", "looprec"):
            return e
        if k == "list":
            return ["list", [R(U(x)) if taint(x) else R(x) for x in e[1]]]
        if k in ("add", "sub", "cat", "and", "or"):
            return [k, R(e[1]), R(e[2])]
        if k == "cmp":
            return ["cmp", e[1], R(PLAIN) if taint(e[2]) else R(e[2]), R(PLAIN) if taint(e[3]) else R(e[3])]
        if k == "not":
            return ["not", R(e[1])]
        if k == "cond":
            return ["cond", R(e[1]), R(e[2]), None if e[3] is None else R(e[3])]
        if k == "filt":
            if e[1] in _SENSITIVE and taint(e[2]):
                return ["filt", "string", R(e[2]), []]
            return ["filt", e[1], R(e[2]), [R(x) for x in e[3]]]
        if k == "call":
            return ["call", e[1], [R(x) for x in e[2]], [[kw, R(x)] for kw, x in e[3]]]
        if k == "caller":
            return ["caller", [R(x) for x in e[1]]]
        raise core.HarnessError("unknown G-stmt expression %r" % (e,))

    def F(f):
        return [_BLOCKF.get(f[0], f[0]), [] if f[0] in _BLOCKF else [R(x) for x in f[1]]]

    def B(body):
        return [S(s) for s in body]

    def S(s):
        k = s[0]
        if k in ("text", "break", "continue"):
            return s
        if k == "out":
            return ["out", R(s[1])]
        if k == "if":
            return ["if", [[R(c), B(b)] for c, b in s[1]], None if s[2] is None else B(s[2])]
        if k == "for":
            it = ["list", [["str", "<p>"], ["int", 1]]] if taint(s[2]) else R(s[2])
            return ["for", s[1], it, B(s[3]), None if s[4] is None else B(s[4]), None if s[5] is None else R(s[5]), s[6]]
        if k == "set":
            return ["set", s[1], [R(e) for e in s[2]]]
        if k == "setblock":
            return ["setblock", s[1], None if s[2] is None else F(s[2]), B(s[3])]
        if k == "nsnew":
            return ["nsnew", s[1], [[a, R(e)] for a, e in s[2]]]
        if k == "nsset":
            return ["nsset", s[1], s[2], R(s[3])]
        if k == "with":
            return ["with", [[n, R(e)] for n, e in s[1]], B(s[2])]
        if k == "macro":
            return ["macro", s[1], s[2], [R(e) for e in s[3]], B(s[4])]
        if k == "callblock":
            return ["callblock", s[1], R(s[2]), B(s[3])]
        if k == "filter":
            return ["filter", F(s[1]), B(s[2])]
        raise core.HarnessError("unexpected G-stmt statement %r" % (s,))

    return B(prog)


def _rich_data(v):
    if isinstance(v, str):
        return _DATA.get(v, v)
    if isinstance(v, list):
        return [_rich_data(x) for x in v]
    return v


def check_stmt(case):
    prog = neutralize(case["prog"])
    data = {k: _rich_data(v) for k, v in case["data"].items()}
    src = stmt.print_program(prog)
    kinds = {s[0] for s in stmt.walk(prog)}
    labels = {"s:" + k for k in kinds & {"macro", "callblock", "setblock", "filter"}}
    for s in stmt.walk(prog):
        for e in stmt.stmt_exprs(s):
            for x in stmt.walk_expr(e):
                if x[0] == "caller":
                    labels.add("s:caller")
                elif x[0] == "looprec":
                    labels.add("s:recursive")
    boundary = bool(labels)
    labels.add("stmt")
    differ = False
    # G-stmt may redefine a macro whose default calls the earlier definition of the same name: unbounded recursion on both sides
    allowed = _allowed() + (RecursionError,)
    for mode in case["modes"]:
        m = mode["m"]
        if m == "static":
            s_on = s_off = {"main": src}
        elif m == "region":
            s_on, s_off = {"main": "{% autoescape true %}" + src + "{% endautoescape %}"}, {"main": src}
        elif m == "volatile":
            if "cat" in {x[0] for s in stmt.walk(prog) for e in stmt.stmt_exprs(s) for x in stmt.walk_expr(e)}:
                raise core.Excluded()  # known finding F5 (a ~ may have a fragment operand)
            s_on = s_off = {"main": "{% autoescape fl %}" + src + "{% endautoescape %}"}
        else:
            raise core.HarnessError("stmt cases run under static / region / volatile")
        on = c15.stream(c15.make_env(s_on, mode, True), "main", None, data, allowed)
        off = c15.stream(c15.make_env(s_off, mode, False), "main", None, data, allowed)
        differ = _compare("stmt mode %s" % m, on, off, s_on) or differ
        labels.add("mode:" + m)
        labels.add("ok" if on[1] is None else "err:" + type(on[1]).__name__)
    return core.Outcome(boundary and differ, sorted(labels))


# -- template sets -----------------------------------------------------------------------------------------


def _neutral_tset(node):
    """{% filter upper %} sections of the tsets generators become {% filter default('D', true) %}: a case transform of a
    rendered fragment is outside the premise (&lt; -> &LT;)."""
    if isinstance(node, dict):
        return {k: (v if k == "broken" else _neutral_tset(v)) for k, v in node.items()}
    if isinstance(node, list):
        if len(node) == 3 and node[0] == "filter" and node[1] == "upper":
            return ["filter", "default_D", _neutral_tset(node[2])]
        return [_neutral_tset(x) for x in node]
    return node


def check_tset(case):
    ir = _neutral_tset(c15.enrich_ir(case["ir"], ae="strip"))
    data = c15.enrich_data(case["data"])
    sources = tsets.print_set(ir)
    labels = {"tset:" + ir["kind"]}
    differ = False
    allowed = _allowed()
    for mode in case["modes"]:
        if mode["m"] not in ("static", "select") or mode.get("ext"):
            raise core.HarnessError("tset cases run under static / select(ext='') only")
        envs = []
        for on in (True, False):
            env = c15.make_env(sources, mode, on)
            for k, v in (ir.get("globals") or {}).items():
                env.globals[k] = v
            envs.append(env)
        for entry in ir["entries"]:
            on = c15.stream(envs[0], entry, None, tsets.decode_data(envs[0], data), allowed)
            off = c15.stream(envs[1], entry, None, tsets.decode_data(envs[1], data), allowed)
            differ = _compare("tset mode %s entry %s" % (c15._mode_name(mode), entry), on, off, sources) or differ
            labels.add("ok" if on[1] is None else "err:" + type(on[1]).__name__)
        labels.add("mode:" + mode["m"])
    return core.Outcome(differ, sorted(labels))


def check_case(case):
    k = case["kind"]
    if k == "esc":
        return check_esc(case)
    if k == "stmt":
        return check_stmt(case)
    if k == "tset":
        return check_tset(case)
    raise core.HarnessError("unknown case kind %r" % k)


# ---------------------------------------------------------------------------------------------------------
# generation


ENV_OPTS = c15.ENV_OPTS + [{"async": False, "sandbox": 0, "overlay": 1}, {"async": False, "sandbox": 0, "overlay": 2},
                           {"async": True, "sandbox": 1, "overlay": 2}]


def esc_cases(size):
    return st.builds(lambda p, d, m, e: {"kind": "esc", "templates": p["templates"], "data": d, "modes": c15.fit_modes(p["templates"], m), "env": e},
                     escgen.programs(neutral=True, size=size), escgen.datas(), c15.modes(), st.sampled_from(ENV_OPTS))


_STMT_MODES = st.sampled_from([[{"m": "static"}], [{"m": "static"}], [{"m": "static"}], [{"m": "region"}], [{"m": "region"}], [{"m": "volatile", "flag": "y"}]])


def stmt_cases(thorough):
    progs = st.one_of(stmt.programs(4, 25, errors=False), stmt.programs(4, 25, errors=False), stmt.programs(5 if thorough else 4, 40 if thorough else 25, errors=True))
    return st.builds(lambda p, d, m: {"kind": "stmt", "prog": p, "data": d[0], "modes": m}, progs, stmt.datas(1), _STMT_MODES)


def tset_cases(thorough):
    src = st.one_of(tsets.hierarchies(max_depth=4 if thorough else 3, size=3), tsets.module_sets(max_libs=3 if thorough else 2, size=3))
    return st.builds(lambda c, m: {"kind": "tset", "ir": c["ir"], "data": c["data"], "modes": m}, src, c15.modes(full=False))


def dev_streams(ctx):
    return [("esc", esc_cases(ctx.pick(14, 20))), ("stmt", stmt_cases(not ctx.quick)), ("tset", tset_cases(not ctx.quick))]


def shards(tier):
    return [{"i": i} for i in range(16)]


def run_shard(spec, ctx):
    # measured single-process cost per case (two renders): esc ~12.5 ms, stmt ~12 ms, tset ~10 ms
    rec = core.Rec()
    # (16 parallel workers cost about twice that; quick = 16 x (450 + 450 + 250) cases)
    c15.batches(esc_cases(ctx.pick(14, 20)), check_case, ctx, c15.scale(ctx.pick(450, 5000)), rec, "esc")
    c15.batches(stmt_cases(not ctx.quick), check_case, ctx, c15.scale(ctx.pick(450, 5000)), rec, "stmt")
    c15.batches(tset_cases(not ctx.quick), check_case, ctx, c15.scale(ctx.pick(250, 3000)), rec, "tset")
    return rec


def floors(total, tier):
    lab = total.labels
    for need in ("mode:static", "mode:select", "mode:string", "mode:region", "mode:volatile", "mode:segments", "mode:nested", "env:async", "env:sandbox", "env:overlay", "s:macro", "s:callblock", "s:caller",
                 "s:setblock", "s:filter", "s:include", "s:import", "s:from", "s:block", "s:super", "s:self", "s:recursive", "s:module_macro",
                 "stmt", "tset:inherit", "tset:modules"):
        if lab.get(need, 0) < 10:
            return "class %s generated only %d times" % (need, lab.get(need, 0))
    runs = lab.get("ok", 0) + sum(v for k, v in lab.items() if k.startswith("err:"))
    if lab.get("ok", 0) < 0.4 * max(runs, 1):
        return "only %d of %d cases rendered without a runtime error" % (lab.get("ok", 0), runs)
    return None


def check_known(entry):
    """Known-finding replay: F5 cases are executed (the generated search skips them)."""
    case = entry["case"]
    return check_esc(case, known=True) if case["kind"] == "esc" else check_case(case)
