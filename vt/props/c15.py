"""C15 - autoescaping never lets unescaped data or string literals into the output.

Case kinds (plain JSON)
  {"kind": "esc",  "templates": {name: IR body}, "data": {...}, "modes": [mode, ...]}      vt.gen.escgen, rich mode
  {"kind": "tset", "ir": tsets IR, "data": {...}, "modes": [mode, ...]}                      vt.gen.tsets hierarchies / module sets
  mode = {"m": "static"} | {"m": "select", "ext": ".HTML"} | {"m": "string"} | {"m": "region"}
       | {"m": "volatile", "flag": truthy JSON value} | {"m": "segments"}

Every mode renders the entry template(s) with autoescaping *active everywhere*:
  static    Environment(autoescape=True)
  select    Environment(autoescape=select_autoescape(...)), every template named <name><ext> (.html .HTML .xml .Htm ... enabled;
            "" / .j2 / .TXT.tpl through default=True with disabled_extensions=("txt",))
  string    the entry compiled with from_string under select_autoescape(default_for_string=True)
  region    Environment(autoescape=False), every template body inside {% autoescape true %} regions
  volatile  the same with {% autoescape fl %}, fl an environment global holding a truthy value (decided at runtime)
  segments  like region, but macro definitions stay outside the regions and only their bodies are wrapped
  nested    Environment(autoescape=True), every body inside {% autoescape fl0 %}{% autoescape true %}...{% endautoescape %}{% endautoescape %}
            with fl0 an environment global that is false at render time (the inner constant region must switch escaping back on)

Oracle (DESIGN.md section 4, C15) on the text produced until the render ended (the template stream is consumed chunk by
chunk, so output written before an allowed runtime error is judged too):
  1. tojson output is bracketed by the harness through the documented policy ``json.dumps_function`` (U+0002 .. U+0003);
     a bracketed segment that contains a double quote must be valid JSON and free of < > ' (then its quotes are JSON's);
  2. anchors ``<a href="V"( rel="V")?( target="V")?>T</a>`` and attributes ``name="V"`` are removed only when V / T are
     free of raw < > " ' (urlize and xmlattr are documented to emit exactly these);
  3. any raw < > " ' left is a leak (template text and identifiers are metacharacter-free by construction);
  4. tracer rule for '&': where a data / literal token occurs, the text before / after it must not continue with the
     *raw* neighbourhood it has in its source string beyond the point where raw and escaped forms diverge; judged only
     for programs made of operations that never cut strings (so an '&' cannot be separated from its entity).

Findings on this tree (listed in known_findings.d/C15.json, input classes excluded by construction in escgen):
  N1  a filter section / filtered set block trusts whatever its filter returns: {% filter default(x, true) %}{% endfilter %},
      {% filter join(x) %}ab{% endfilter %}, {% filter wordwrap(2, true, x) %}..., {% filter striptags %}{{ x }}{% endfilter %}
      print x raw.
  N2  {% autoescape true %}{% block b %}{{ x }}{% endblock %}{% endautoescape %} (autoescape=False environment) prints x raw:
      block functions are compiled with the template-level eval context.
"""
import json
import os
import random
import re
import warnings

from hypothesis import strategies as st

from vt import core
from vt.gen import escgen, tsets

PID = "C15"
LEVEL = "exploration"
RULE = (
    "Hypothesis-generated template sets (vt.gen.escgen, rich mode: main + optional include / imported library / base template) whose "
    "text and identifiers are metacharacter-free while every data string and string literal is pieces+META+unique token+META+pieces "
    "over < > \" ' & and pre-escaped look-alikes; expressions combine every built-in filter except safe (arguments data-controlled), "
    "+ * % ~, slicing, str methods (upper replace format join split strip center ...), tests, macros with defaults / keyword "
    "arguments, call blocks with caller arguments, set blocks (filtered), filter sections, for / recursive for / with / if, "
    "include, import / from-import (with and without context), blocks with self.b() and super(), joiner / cycler / namespace; plus "
    "vt.gen.tsets hierarchies and module sets with text sanitised and data / constants replaced by metacharacter-rich strings. "
    "Each case renders under static autoescape and one more mode (select_autoescape by name incl. upper-case extensions, string "
    "templates, {% autoescape true %} regions, runtime flag, macro definitions outside the region). Non-trivial = the output "
    "of some mode contains escaped material and the program is not made of bare {{ x }} outputs only (a filter, operator, "
    "method or structural construct is on the path); distinct = distinct serialised case."
)
ASSUMPTIONS = [
    "never generated (explicit safe marking, outside the property): safe filter, Markup data, autoescape-false regions, gettext",
    "urlize / xmlattr / tojson results only flow through content-preserving constructs (output, ~, +, *, join items, set / with / "
    "macro arguments, default, conditional expressions, string / trim), so their documented markup reaches the output intact "
    "and can be recognised by the strict harness-side grammars",
    "data and literals never contain '=\"' or '<a href=' (so a leak cannot imitate xmlattr / urlize output); xmlattr keys are "
    "template constants (the documentation forbids user input as keys)",
    "tojson brackets: the harness sets the documented policy json.dumps_function to json.dumps wrapped in U+0002/U+0003",
    "allowed runtime errors: TemplateRuntimeError family (UndefinedError, FilterArgumentError), TypeError, ValueError, KeyError, "
    "IndexError, AttributeError, ZeroDivisionError, OverflowError, truncate's 'expected length >=' assertion; TemplateNotFound "
    "only for tsets cases",
    "excluded by construction (known findings N1, N2): filter sections / filtered set blocks with wordwrap(wrapstring) / default "
    "/ join / striptags / batch / slice / pprint; block tags lexically inside an autoescape region (the harness opens the "
    "region inside the block instead)",
    "F5 (volatile ~ over-escapes) does not leak and is not judged",
]

S_OPEN, S_CLOSE, PH = "\x02", "\x03", "\x04"
RAW = re.compile(r"[<>\"']")
_V = r"[^<>\"']*"
ANCHOR = re.compile(r"<a href=\"(%s)\"(?: rel=\"(%s)\")?(?: target=\"(%s)\")?>(%s)</a>" % (_V, _V, _V, _V))
ATTR = re.compile(r"([A-Za-z][-A-Za-z0-9_:.]*)=\"(%s)\"" % _V)
SEGMENT = re.compile("\x02([^\x02\x03]*)\x03")
ENTITY = re.compile(r"&(?:amp|lt|gt|#34|#39);|\\u00(?:3c|3e|26|27)")

REGION_MODES = ("region", "volatile", "segments", "nested")
SELECT_EXTS = [".html", ".HTML", ".xml", ".Htm", ".tpl.XML", ".xhtml", "", ".j2", ".TXT.tpl"]
FLAGS = [True, 1, "y", [0], 2.5]


def esc5(s):
    return s.replace("&", "&amp;").replace("<", "&lt;").replace(">", "&gt;").replace('"', "&#34;").replace("'", "&#39;")


def _dumps(obj, **kw):
    return S_OPEN + json.dumps(obj, **kw) + S_CLOSE


# ---------------------------------------------------------------------------------------------------------
# rendering


def _errors():
    import jinja2

    return (jinja2.TemplateRuntimeError, TypeError, ValueError, KeyError, IndexError, AttributeError, ZeroDivisionError, OverflowError)


ENV_OPTS = [{"async": False, "sandbox": 0}] * 6 + [{"async": True, "sandbox": 0}] * 2 + [{"async": False, "sandbox": 1}, {"async": False, "sandbox": 2},
                                                                                   {"async": True, "sandbox": 1}]


def ae_setting(mode, autoescape_on=True):
    """The ``autoescape`` argument of the environment for one mode (enabled or the matching disabled configuration)."""
    import jinja2

    m = mode["m"]
    if m in ("static", "nested"):
        return bool(autoescape_on)
    if m == "select":
        if mode["ext"].lower().rsplit(".", 1)[-1] in ("html", "htm", "xml", "xhtml"):
            return jinja2.select_autoescape(enabled_extensions=("html", "htm", "xml", "xhtml") if autoescape_on else ("none",), default_for_string=False)
        return jinja2.select_autoescape(enabled_extensions=(), disabled_extensions=("txt",), default=bool(autoescape_on), default_for_string=False)
    if m == "string":
        return jinja2.select_autoescape(enabled_extensions=("html",) if autoescape_on else (), default_for_string=bool(autoescape_on))
    return False


def make_env(sources, mode, autoescape_on=True, opts=None):
    """Environment for one mode; ``autoescape_on=False`` builds the matching *disabled* configuration (C16's other side).
    ``opts`` = {"async": bool, "sandbox": 0 | 1 (SandboxedEnvironment) | 2 (ImmutableSandboxedEnvironment)}; templates of an
    async environment are rendered through the sync API (Template.generate drives generate_async)."""
    import jinja2
    import jinja2.sandbox

    opts = opts or {}
    cls = (jinja2.Environment, jinja2.sandbox.SandboxedEnvironment, jinja2.sandbox.ImmutableSandboxedEnvironment)[opts.get("sandbox", 0)]

    m = mode["m"]
    ae = ae_setting(mode, autoescape_on)
    env = cls(loader=jinja2.DictLoader(sources), autoescape=ae, extensions=["jinja2.ext.loopcontrols"], enable_async=bool(opts.get("async")))
    env.policies["json.dumps_function"] = _dumps
    if m == "volatile":
        env.globals["fl"] = mode["flag"] if autoescape_on else False
    if m == "nested":
        env.globals["fl0"] = mode["flag"]
    return env


def mode_sources(templates, mode, autoescape_on=True):
    """-> ({template name: source}, entry name, entry source or None when the entry is loaded by name)"""
    m = mode["m"]
    if m == "select":
        ext = mode["ext"]
        return escgen.print_templates(templates, ext=ext), "main" + ext, None
    if m == "string":
        srcs = escgen.print_templates(templates, ext=".html")
        return srcs, None, srcs["main.html"]
    if m in ("region", "volatile", "segments") and autoescape_on:
        flag = "fl" if m == "volatile" else "true"
        return escgen.print_templates(templates, wrap=flag, split_macros=(m == "segments")), "main", None
    if m == "volatile":
        return escgen.print_templates(templates, wrap="fl"), "main", None
    if m == "nested" and autoescape_on:
        # a constant-true region nested in a region whose runtime flag is false (environment autoescape=True): the whole
        # body sits in the inner, active region, so all of the output is judged
        inner = escgen.print_templates(templates, wrap="true")
        return {n: "{% autoescape fl0 %}" + src + "{% endautoescape %}" for n, src in inner.items()}, "main", None
    return escgen.print_templates(templates), "main", None


def stream(env, entry, entry_src, data, allowed):
    """-> (text produced, None | exception) ; the text includes everything yielded before an allowed error."""
    state = random.getstate()
    random.seed(20240915)  # the random filter draws from the global generator: make the case a pure function
    chunks = []
    err = None
    size = 0
    warnings.simplefilter("ignore", SyntaxWarning)  # Python's compile() warns about constant subscripts such as 5[0:3]
    try:
        t = env.from_string(entry_src) if entry is None else env.get_template(entry)
        for chunk in t.generate(data):
            if not isinstance(chunk, str):
                # a filter section whose filter returns a non-string makes the template yield it as is; render()
                # then fails in concat with this TypeError
                raise TypeError("sequence item: expected str instance, %s found" % type(chunk).__name__)
            chunks.append(chunk)
            size += len(chunk)
            if size > 2_000_000:
                raise core.Discard()  # generator safeguard (repetition blow-up), not a verdict
    except AssertionError as e:
        if not str(e).startswith("expected length >="):
            raise
        err = e
    except allowed as e:
        err = e
    finally:
        random.setstate(state)
    return "".join(chunks), err


# ---------------------------------------------------------------------------------------------------------
# oracle


def sanitize(text, where):
    """Remove the markup that tojson / urlize / xmlattr are documented to emit (strict grammars); raises Violation when a
    tojson segment holds a quote outside JSON syntax."""

    def seg(m):
        body = m.group(1)
        if '"' in body:
            try:
                json.loads(body)
            except ValueError:
                raise core.Violation("%s: tojson output holds a double quote but is not JSON: %r" % (where, body[:200])) from None
            bad = re.search(r"[<>']", body)
            if bad:
                raise core.Violation("%s: tojson output holds raw %r: %r" % (where, bad.group(), body[:200]))
        return PH + body.replace('"', "") + PH

    text = SEGMENT.sub(seg, text)
    text = ANCHOR.sub(lambda m: PH + PH.join(g for g in m.groups() if g is not None) + PH, text)
    text = ATTR.sub(lambda m: m.group(1) + PH + m.group(2) + PH, text)
    return text


def scan(text, where, sources):
    clean = sanitize(text, where)
    m = RAW.search(clean)
    if m:
        i = m.start()
        raise core.Violation(
            "%s: raw %r reached the output unescaped: ...%r...\noutput: %r\nsources: %s"
            % (where, m.group(), clean[max(0, i - 40): i + 40], text[:600], json.dumps(sources)[:1500])
        )
    return clean


def tracer(clean, tokens, where, sources):
    """'&' rule (see module docstring); ``tokens`` = {token: source string}."""
    for tok, src in tokens.items():
        at = src.find(tok)
        pre, post = src[:at], src[at + len(tok):]
        epre, epost = esc5(pre), esc5(post)
        p = 0
        while p < len(pre) and p < len(epre) and pre[-1 - p] == epre[-1 - p]:
            p += 1
        raw_before = pre[len(pre) - p - 1:] if p < len(pre) else None
        q = 0
        while q < len(post) and q < len(epost) and post[q] == epost[q]:
            q += 1
        raw_after = post[: q + 1] if q < len(post) else None
        start = 0
        while True:
            i = clean.find(tok, start)
            if i < 0:
                break
            start = i + 1
            if raw_before is not None and clean[:i].endswith(raw_before):
                raise core.Violation("%s: token %s is preceded by the raw text %r of its source %r\noutput: %r\nsources: %s"
                                     % (where, tok, raw_before, src, clean[:600], json.dumps(sources)[:1500]))
            if raw_after is not None and clean.startswith(raw_after, i + len(tok)):
                raise core.Violation("%s: token %s is followed by the raw text %r of its source %r\noutput: %r\nsources: %s"
                                     % (where, tok, raw_after, src, clean[:600], json.dumps(sources)[:1500]))


# operations that can never separate an '&' from the rest of its entity (whitelist; anything else disables rule 4)
_KEEP_FILTERS = {"upper", "lower", "title", "capitalize", "string", "e", "escape", "forceescape", "default", "d", "join", "format", "indent",
                 "tojson", "xmlattr", "sort", "unique", "map", "selectattr", "rejectattr", "groupby", "items", "dictsort", "max", "min", "length",
                 "count", "abs", "round", "int", "float", "filesizeformat", "sum", "select", "reject", "wordcount", "list", "urlize"}
_KEEP_METHODS = {"upper", "lower", "title", "capitalize", "swapcase", "casefold", "join", "format", "values", "keys", "items", "next"}
_CONTAINERS = {"l0", "l1", "rows", "d0", "tree"}


def never_cuts(templates):
    for n in escgen.walk(templates):
        k = n[0]
        if k == "f" and len(n) == 5:
            if n[1] not in _KEEP_FILTERS:
                return False
            if n[1] == "list" and n[2][0] in ("v", "s", "bin", "m") and not (n[2][0] == "v" and n[2][1] in _CONTAINERS):
                return False  # list(string) splits into characters
            if n[1] == "urlize" and (n[3] or any(kw == "trim_url_limit" for kw, _ in n[4])):
                return False
            if n[1] == "map" and n[3] and n[3][0][0] == "s" and n[3][0][1] not in _KEEP_FILTERS:
                return False
        elif k == "m" and len(n) == 4 and n[1] not in _KEEP_METHODS:
            return False
        elif k == "slice" and len(n) == 5:
            return False
        elif k == "item" and len(n) == 3 and not (n[1][0] == "v" and n[1][1] in _CONTAINERS):
            return False
        elif k in ("filter", "setblock"):
            chain = n[1] if k == "filter" else n[2]
            if any(f[0] not in _KEEP_FILTERS for f in chain):
                return False
        elif k == "for" and len(n) == 6 and n[2][0] == "v" and n[2][1] not in _CONTAINERS:
            return False
    return True


STRUCT = ("macro", "callblock", "setblock", "filter", "include", "import", "from", "block", "extends", "with", "for")
OPS = ("f", "m", "bin", "hcat", "slice", "cond", "call")


def esc_labels(templates):
    labs = set()
    for n in escgen.walk(templates):
        k = n[0]
        if k in STRUCT and len(n) >= 3:
            labs.add("s:" + k)
        elif k == "f" and len(n) == 5:
            labs.add("f:" + n[1])
            if n[1] == "map" and n[3] and n[3][0][0] == "s":
                labs.add("f:" + n[3][0][1])
        elif k == "m" and len(n) == 4:
            labs.add("str_method")
        elif k == "call" and len(n) == 4:
            c = n[1]
            if c == ["v", "caller"]:
                labs.add("s:caller")
            elif c == ["v", "super"]:
                labs.add("s:super")
            elif c[0] == "attr" and c[1] == ["v", "self"]:
                labs.add("s:self")
            elif c == ["v", "loop"]:
                labs.add("s:recursive")
        elif k == "bin" and len(n) == 4 and n[1] in ("~", "+", "*", "%"):
            labs.add("op:" + n[1])
        elif k == "hcat":
            labs.add("op:~")
        elif k in ("filter", "setblock"):
            for f in (n[1] if k == "filter" else n[2]):
                labs.add("bf:" + f[0])
    return labs


def _mode_name(mode):
    return mode["m"] + (":" + mode["ext"] if mode["m"] == "select" else "")


def check_esc(case, known=False):
    templates, data = case["templates"], case["data"]
    if not known:
        if escgen.n1_class(templates):
            raise core.Excluded()  # known finding N1 / F48
        if escgen.has_blocks(templates) and any(m["m"] in REGION_MODES for m in case["modes"]):
            raise core.Excluded()  # known finding N2 / F49
    tokens = escgen.harvest_tokens(data)
    escgen.harvest_tokens(templates, tokens)
    amp_rule = never_cuts(templates)
    labels = esc_labels(templates)
    structural = any(l[:2] in ("s:", "f:", "op", "st", "bf") for l in labels)
    escaped = False
    allowed = _errors()
    for mode in case["modes"]:
        sources, entry, entry_src = mode_sources(templates, mode)
        env = make_env(sources, mode, True, case.get("env"))
        text, err = stream(env, entry, entry_src, data, allowed)
        where = "mode %s%s" % (_mode_name(mode), " env %s" % case["env"] if case.get("env") else "")
        if case.get("env", {}).get("async"):
            labels.add("env:async")
        if case.get("env", {}).get("sandbox"):
            labels.add("env:sandbox")
        clean = scan(text, where, sources)
        if amp_rule:
            tracer(clean, tokens, where, sources)
        escaped = escaped or bool(ENTITY.search(text))
        labels.add("mode:" + mode["m"])
        labels.add("ok" if err is None else "err:" + type(err).__name__)
    if amp_rule:
        labels.add("amp_rule")
    return core.Outcome(structural and escaped, sorted(labels))


# -- tsets cases ------------------------------------------------------------------------------------------

_TEXT_MAP = str.maketrans({"<": "(", ">": ")", "&": "+", "=": "~", '"': "!", "'": "!"})
_WORDS = {"X": "X<b>zq801z&", "yy": 'y"zq802z>y', "Zed": "Z&zq803z<ed", "<q>": "<q zq804z>&lt;", "a b": 'a>zq805z&amp;"b'}


def enrich_ir(node, ae="true"):
    """Copy of a tsets IR with template text made metacharacter-free and the word constants made metacharacter-rich.
    tsets' own {% autoescape flag %} sections become {% autoescape true %} (C15 never runs disabled regions) or, with
    ae="strip", {% if true %} (C16 compares a whole-template on / off setting)."""
    if isinstance(node, dict):
        return {k: (v if k in ("broken", "autoescape") else enrich_ir(v, ae)) for k, v in node.items()}
    if isinstance(node, list):
        if len(node) == 3 and node[0] == "autoescape" and isinstance(node[1], bool):
            body = enrich_ir(node[2], ae)
            return ["autoescape", True, body] if ae == "true" else ["if", ["c", True], body, []]
        if len(node) == 2 and node[0] == "text" and isinstance(node[1], str):
            return ["text", node[1].translate(_TEXT_MAP)]
        if len(node) == 2 and node[0] == "comment":
            return list(node)
        if len(node) == 2 and node[0] == "c" and isinstance(node[1], str):
            return ["c", _WORDS.get(node[1], node[1])]
        if len(node) == 2 and node[0] == "probe":
            return list(node)  # prints name={{ name is defined }}:...: the '=' is followed by True / False, never by data
        return [enrich_ir(x, ae) for x in node]
    return node


def enrich_data(data):
    out = {}
    n = 810
    for k in sorted(data):
        v = data[k]
        if isinstance(v, str) and (v in _WORDS or v.startswith("ctx-")):
            n += 1
            v = "%s<'zq%dz\"&%s" % (v[:1], n, "&lt;" if n % 2 else ">")
        out[k] = v
    return out


def check_tset(case):
    import jinja2

    ir = enrich_ir(case["ir"])
    data = enrich_data(case["data"])
    tokens = escgen.harvest_tokens(data)
    escgen.harvest_tokens(ir["templates"], tokens)
    allowed = _errors() + (jinja2.TemplateNotFound, jinja2.TemplateSyntaxError)
    labels = {"tset:" + ir["kind"]}
    escaped = False
    sources = tsets.print_set(ir)
    for mode in case["modes"]:
        if mode["m"] not in ("static", "select") or mode.get("ext"):
            raise core.HarnessError("tset cases run under static / select(ext='') only")
        env = make_env(sources, mode)
        for k, v in (ir.get("globals") or {}).items():
            env.globals[k] = v
        for entry in ir["entries"]:
            text, err = stream(env, entry, None, tsets.decode_data(env, data), allowed)
            where = "tset mode %s entry %s" % (_mode_name(mode), entry)
            clean = scan(text, where, sources)
            tracer(clean, tokens, where, sources)
            escaped = escaped or bool(ENTITY.search(text))
            labels.add("ok" if err is None else "err:" + type(err).__name__)
        labels.add("mode:" + mode["m"])
    return core.Outcome(escaped, sorted(labels))


def check_known(entry):
    """Known findings are executed without the by-construction exclusions."""
    return check_esc(entry["case"], known=True)


def check_case(case):
    if case["kind"] == "esc":
        return check_esc(case)
    if case["kind"] == "tset":
        return check_tset(case)
    raise core.HarnessError("unknown case kind %r" % case.get("kind"))


# ---------------------------------------------------------------------------------------------------------
# generation


@st.composite
def modes(draw, full=True):
    """One mode per case (a second compile of the same program costs as much as a fresh case)."""
    if not full:
        return [draw(st.sampled_from([{"m": "static"}, {"m": "static"}, {"m": "select", "ext": ""}]))]
    k = draw(st.integers(0, 18))
    if k >= 17:
        return [{"m": "nested", "flag": draw(st.sampled_from([False, 0, "", None]))}]
    if k <= 4:
        return [{"m": "static"}]
    if k <= 6:
        return [{"m": "select", "ext": draw(st.sampled_from(SELECT_EXTS))}]
    if k == 7:
        return [{"m": "select", "ext": ".HTML"}]
    if k == 8:
        return [{"m": "string"}]
    if k <= 10:
        return [{"m": "region"}]
    if k <= 13:
        return [{"m": "volatile", "flag": draw(st.sampled_from(FLAGS))}]
    return [{"m": "segments"}]


def fit_modes(templates, ms, keep=1):
    """Region modes need a program without blocks / imports (escgen.region_ok); other programs get the name-selected mode
    (except, with keep == 0, programs with blocks: they stay, and check_case counts them as excluded for N2)."""
    if escgen.region_ok(templates) or (keep == 0 and escgen.has_blocks(templates)):
        return ms
    return [m if m["m"] not in REGION_MODES else {"m": "select", "ext": SELECT_EXTS[len(m.get("m")) % len(SELECT_EXTS)]} for m in ms]


def esc_cases(size):
    return st.builds(lambda p, d, m, keep, e: {"kind": "esc", "templates": p["templates"], "data": d, "modes": fit_modes(p["templates"], m, keep), "env": e},
                     escgen.programs(neutral=False, size=size), escgen.datas(), modes(), st.integers(0, 5), st.sampled_from(ENV_OPTS))


def tset_cases(thorough):
    src = st.one_of(tsets.hierarchies(max_depth=3 if not thorough else 4, size=3), tsets.module_sets(max_libs=2 if not thorough else 3, size=3))
    return st.builds(lambda c, m: {"kind": "tset", "ir": c["ir"], "data": c["data"], "modes": m}, src, modes(full=False))


def shards(tier):
    return [{"i": i} for i in range(16)]


def scale(n):
    """VERIF_SCALE (default 1) shrinks the case counts: development / sensitivity aid only, a registered run uses 1."""
    return max(20, int(n * float(os.environ.get("VERIF_SCALE", "1") or 1)))


def batches(strategy, check, ctx, total, rec, tag, batch=8000):
    """Several seeded Hypothesis runs of at most ``batch`` examples feeding one recorder; stops after a violation."""
    i = 0
    while total > 0 and not rec.violations:
        n = min(batch, total)
        core.hyp_shard(strategy, check, ctx, n, rec=rec, tag="%s%d" % (tag, i) if i else tag)
        total -= n
        i += 1


def run_shard(spec, ctx):
    # single-process cost: esc ~9.5 ms (size 14) / ~11 ms (size 20) per case, tset ~6.5 ms; 16 parallel workers on the
    # build machine cost about twice that per case (plus as much system time), so quick = 16 x (1100 + 300) cases
    # ran in 55-80 s there with other jobs running
    rec = core.Rec()
    batches(esc_cases(ctx.pick(14, 20)), check_case, ctx, scale(ctx.pick(1100, 12000)), rec, "esc")
    batches(tset_cases(not ctx.quick), check_case, ctx, scale(ctx.pick(300, 3000)), rec, "tset")
    return rec


REQUIRED_FILTERS = [
    "abs", "batch", "capitalize", "center", "count", "d", "default", "dictsort", "e", "escape", "filesizeformat", "first", "float",
    "forceescape", "format", "groupby", "indent", "int", "items", "join", "last", "length", "list", "lower", "map", "max", "min", "pprint",
    "random", "reject", "rejectattr", "replace", "reverse", "round", "select", "selectattr", "slice", "sort", "string", "striptags", "sum",
    "title", "tojson", "trim", "truncate", "unique", "upper", "urlencode", "urlize", "wordcount", "wordwrap", "xmlattr",
]


def floors(total, tier):
    lab = total.labels
    missing = [f for f in REQUIRED_FILTERS if lab.get("f:" + f, 0) < 3]
    if missing:
        return "filters (almost) never generated: %s" % ", ".join(missing)
    for need in ("mode:static", "mode:select", "mode:string", "mode:region", "mode:volatile", "mode:segments", "mode:nested", "env:async", "env:sandbox", "s:macro", "s:callblock", "s:caller",
                 "s:setblock", "s:filter", "s:include", "s:import", "s:from", "s:block", "s:super", "s:self", "s:recursive", "str_method",
                 "op:~", "op:+", "op:*", "op:%", "amp_rule", "tset:inherit", "tset:modules"):
        if lab.get(need, 0) < 10:
            return "class %s generated only %d times" % (need, lab.get(need, 0))
    runs = lab.get("ok", 0) + sum(v for k, v in lab.items() if k.startswith("err:"))
    if lab.get("ok", 0) < 0.4 * max(runs, 1):
        return "only %d of %d cases rendered without a runtime error" % (lab.get("ok", 0), runs)
    return None


def dev_streams(ctx):
    return [("esc", esc_cases(ctx.pick(14, 20))), ("tset", tset_cases(not ctx.quick))]
