"""Registry of claimed checks -> MANIFEST.json (tools/mkmanifest.py)."""

# pid -> dict(category, technique, text, note, design_ref)
CHECKS = {
    "C21": dict(
        category="exploration",
        technique="exhaustive table-driven property test: undefined type x origin x operation x operand x route against a table transcribed from the documentation",
        text="Every cell of the documented operation table (8 undefined types incl. logging variants, 5 origins, ~55 operations in both operand orders, 9 other operands, python and rendered-template routes; 21k cases) is executed in every tier and compared with an independently written expectation table; exhaustive over that finite table, so a deleted operator alias or changed protocol method is found deterministically.",
        note="Trusts the transcription of the docstrings into the table; cells where Python asks the other operand first are not judged.",
        design_ref="DESIGN.md §4 C21",
    ),
}

NOT_YET = "check not built yet in this session (see DESIGN.md §8 for the order of work)"
