"""C32 - static template introspection (jinja2.meta) over-approximates runtime behaviour.

Case (plain JSON), three kinds:
  {"kind": "stmt", "prog": G-stmt program, "datas": [data, ...], "async": bool}
        the program is printed with vt.gen.stmt.print_program and stored as template "main"
  {"kind": "set",  "ir": G-inherit / G-modules IR (vt/gen/tsets.py), "datas": [data, ...], "async": bool}
        sources = tsets.print_set(ir); entries = ir["entries"]; environment globals = ir["globals"]
  {"kind": "src",  "templates": {name: source}, "entries": [name, ...], "datas": [data, ...],
                   "globals": {name: value}, "async": bool}
        raw sources (local shape generator below, replays)
Data values are JSON; {"$": "template", "name": n} stands for the Template object of n.

Oracle (subset only), per case:
  * every template of the set is held in a DictLoader of a harness Environment subclass whose
    ``context_class`` overrides ``resolve_or_missing`` to record (owner, key).  The owner is the template whose
    *code* performs the lookup: the nearest calling frame outside jinja2/runtime.py must be template code (its
    globals hold ``__jinja_template__``) -- a parent template's blocks run with the child's context, an imported
    macro runs with the library's.  Lookups made by Python callables (``_`` of the i18n extension resolving
    ``gettext``) are not lookups of the template and are only counted;
  * ``join_path`` (called for every extends / include / import of a named template) records
    (requesting template, requested name);
  * every entry is rendered on every data assignment (render errors are fine, lookups made before the error count);
  * for every template T that owned a lookup:  observed(T) <= find_undeclared_variables(parse(T)) | env.globals;
    for every T that requested a load: the name is yielded by find_referenced_templates(parse(T)) or that
    iterator yields None;
  * "stmt" cases additionally run the *reference interpreter* (vt/ref/interp.py) with a data dict that records
    which names the documented scoping rules read from the render data: those names must be reported too.  This
    second formulation is independent of jinja2's symbol table (the runtime lookups and meta share it, so a wrong
    load decision in idtracking.py removes the lookup and the report together).
"""
import asyncio
import sys

from hypothesis import strategies as st

from vt import core
from vt.gen import stmt as G
from vt.gen import tsets
from vt.ref import interp as I

PID = "C32"
LEVEL = "exploration"
RULE = (
    "Hypothesis-generated template sets from four streams: G-stmt statement programs (one template, 3 data dicts, "
    "also checked against the names the reference interpreter reads from the render data), G-inherit hierarchies and "
    "G-modules include/import sets (every entry rendered on the drawn data and on 2 thinned copies), and a local "
    "shape generator (main + side template + fixed lib/base; names read under scopes that also store them: branch "
    "stores, loop bodies and targets, macro defaults / varargs / kwargs / caller, with-bindings naming the outer "
    "variable, tuple and nested targets, import / from-import names, blocks incl. scoped, trans blocks, namespaces; "
    "template names given as constants, variables, conditional expressions, lists, tuples, concatenations). "
    "Non-trivial = at run time some template looked up from the context a name that the same template also stores "
    "somewhere (set / for target / macro name or parameter / with / import), or loaded a template whose name is not a "
    "constant of its source; distinct = distinct serialised case."
)
ASSUMPTIONS = [
    "a lookup belongs to the template whose generated code calls Context.resolve_or_missing (directly or through "
    "Context.resolve); lookups made by Python callables handed to the template (e.g. the i18n `_` alias resolving "
    "'gettext') are not judged",
    "environment globals may be looked up without being reported (find_undeclared_variables documents/implements the "
    "exclusion of environment.globals)",
    "templates that fail to parse/compile never run and are not judged; render errors are allowed (lookups made "
    "before the error are judged)",
    "Template objects passed through data are loads without a name and are not judged by find_referenced_templates",
    "stmt cases: the reference interpreter's notion of 'falls through to the render data' (docs/templates.rst scoping) "
    "is right; (program, data) pairs it declines are skipped for the reference-side inclusion only",
]

# ---------------------------------------------------------------------------------------------------------
# recording environment

_state = {}


def _setup():
    if _state:
        return _state
    import jinja2
    from jinja2 import meta, nodes
    from jinja2.runtime import Context

    runtime_file = jinja2.runtime.__file__

    class RecContext(Context):
        def resolve_or_missing(self, key):
            f = sys._getframe(1)
            while f is not None and f.f_code.co_filename == runtime_file:
                f = f.f_back
            t = f.f_globals.get("__jinja_template__") if f is not None else None
            rec = self.environment.vt_rec
            if t is None:
                rec.by_callable.add(key)
            else:
                rec.lookups.add((t.name, key))
                if t.name != self.name:
                    rec.foreign = True
                if f.f_code.co_name.startswith("block_"):
                    rec.in_block = True
                elif f.f_code.co_name == "macro":
                    rec.in_macro = True
            return super().resolve_or_missing(key)

    class RecEnvironment(jinja2.Environment):
        context_class = RecContext

        def join_path(self, template, parent):
            if isinstance(template, str):
                self.vt_rec.loads.add((parent, template))
            return super().join_path(template, parent)

    _state.update(jinja2=jinja2, meta=meta, nodes=nodes, Env=RecEnvironment,
                  allowed=(jinja2.TemplateError, TypeError, ValueError, ArithmeticError, LookupError, AttributeError))
    return _state


class _Rec:
    def __init__(self):
        self.lookups = set()
        self.loads = set()
        self.by_callable = set()
        self.foreign = self.in_block = self.in_macro = False


EXTENSIONS = ["jinja2.ext.loopcontrols", "jinja2.ext.i18n", "jinja2.ext.do"]


def _make_env(sources, globs, enable_async):
    s = _setup()
    env = s["Env"](loader=s["jinja2"].DictLoader(sources), extensions=EXTENSIONS, enable_async=enable_async)
    env.install_null_translations(newstyle=True)
    for k, v in (globs or {}).items():
        env.globals[k] = v
    env.vt_rec = _Rec()
    return env


# ---------------------------------------------------------------------------------------------------------
# labels from the parsed template (only labels / the non-triviality rule use this walk, never the verdict)


def _stored_names(ast, nodes):
    out = set()
    for n in ast.find_all(nodes.Name):
        if n.ctx in ("store", "param"):
            out.add(n.name)
    for n in ast.find_all(nodes.Macro):
        out.add(n.name)
    for n in ast.find_all(nodes.Import):
        out.add(n.target)
    for n in ast.find_all(nodes.FromImport):
        for x in n.names:
            out.add(x[1] if isinstance(x, tuple) else x)
    return out


def _shape_labels(ast, nodes, labels):
    for n in ast.find_all(nodes.If):
        if any(True for b in (n.body, n.else_) for x in b for _ in x.find_all((nodes.Assign, nodes.AssignBlock)))\
                or any(isinstance(x, (nodes.Assign, nodes.AssignBlock)) for b in (n.body, n.else_) for x in b):
            labels.add("shape_branch_store")
            break
    for n in ast.find_all(nodes.For):
        if isinstance(n.target, nodes.Tuple):
            labels.add("shape_tuple_target")
        if any(isinstance(x, (nodes.Assign, nodes.AssignBlock)) or next(x.find_all((nodes.Assign, nodes.AssignBlock)), None) is not None
               for x in n.body):
            labels.add("shape_loop_store")
    for n in ast.find_all(nodes.Assign):
        if isinstance(n.target, nodes.Tuple):
            labels.add("shape_tuple_target")
    for n in ast.find_all((nodes.Macro, nodes.CallBlock)):
        if any(next(d.find_all(nodes.Name), None) is not None or isinstance(d, nodes.Name) for d in n.defaults):
            labels.add("shape_macro_default")
    for n in ast.find_all(nodes.With):
        tnames = {t.name for t in n.targets if isinstance(t, nodes.Name)}
        for v in n.values:
            used = {x.name for x in v.find_all(nodes.Name)} | ({v.name} if isinstance(v, nodes.Name) else set())
            if used & tnames:
                labels.add("shape_with_outer")
    if next(ast.find_all((nodes.Import, nodes.FromImport)), None) is not None:
        labels.add("shape_import_name")
    if next(ast.find_all(nodes.Block), None) is not None:
        labels.add("shape_block")
    for n in ast.find_all((nodes.Extends, nodes.Include, nodes.Import, nodes.FromImport)):
        t = n.template
        if isinstance(t, nodes.Const):
            continue
        if isinstance(t, nodes.Name):
            labels.add("shape_dyn_var")
        elif isinstance(t, nodes.CondExpr):
            labels.add("shape_dyn_cond")
        elif isinstance(t, (nodes.List, nodes.Tuple)):
            labels.add("shape_dyn_list")
        else:
            labels.add("shape_dyn_expr")


# ---------------------------------------------------------------------------------------------------------
# the oracle


def _decode(env, data):
    def dec(v):
        if isinstance(v, dict) and v.get("$") == "template":
            return env.get_template(v["name"])
        if isinstance(v, list):
            return [dec(x) for x in v]
        return v

    return {k: dec(v) for k, v in data.items()}


def _render_all(env, entries, datas, allowed, labels):
    s = _setup()
    loop = asyncio.new_event_loop() if env.is_async else None  # one loop per case, closed before returning
    try:
        for name in entries:
            for data in datas:
                try:
                    args = _decode(env, data)
                    t = env.get_template(name)
                    if loop is not None:
                        loop.run_until_complete(t.render_async(args))
                    else:
                        t.render(args)
                    labels.add("render_ok")
                except s["jinja2"].TemplateSyntaxError:
                    labels.add("render_syntax_error")
                except RecursionError:
                    labels.add("render_recursion")
                except allowed:
                    labels.add("render_error")
    finally:
        if loop is not None:
            try:
                # a render that failed half-way leaves async generators behind: finalise them before the loop goes
                loop.run_until_complete(loop.shutdown_asyncgens())
                loop.run_until_complete(asyncio.sleep(0))
                pending = [t for t in asyncio.all_tasks(loop) if not t.done()]
                if pending:
                    loop.run_until_complete(asyncio.gather(*pending, return_exceptions=True))
            finally:
                loop.close()


class _RecData(dict):
    """Render data for the reference interpreter: records the names whose value is taken from the data."""

    def __init__(self, d):
        super().__init__(d)
        self.reads = set()

    def __getitem__(self, k):
        self.reads.add(k)
        return super().__getitem__(k)


def _reference_reads(prog, datas, labels):
    """Names the documented scoping rules read from the render data (union over the decided data dicts)."""
    reads = set()
    for data in datas:
        rd = _RecData(data)
        it = I.Interp(rd)
        try:
            it.run(prog)
        except I.RefError:
            pass
        except I.Declined:
            labels.add("ref_declined")
            continue
        except (I._Break, I._Continue):
            labels.add("ref_declined")
            continue
        except RecursionError:
            labels.add("ref_declined")
            continue
        labels.add("ref_decided")
        reads |= rd.reads
    return reads


def _sources(case):
    kind = case["kind"]
    if kind == "stmt":
        return {"main": G.print_program(case["prog"])}, ["main"], {}
    if kind == "set":
        ir = case["ir"]
        return tsets.print_set(ir), list(ir["entries"]), dict(ir.get("globals") or {})
    if kind == "src":
        return dict(case["templates"]), list(case["entries"]), dict(case.get("globals") or {})
    raise core.HarnessError("unknown case kind %r" % (kind,))


def check_case(case):
    s = _setup()
    meta, nodes = s["meta"], s["nodes"]
    TSE = s["jinja2"].TemplateSyntaxError
    sources, entries, globs = _sources(case)
    labels = {"kind_" + case["kind"] + ("_" + case["ir"]["kind"] if case["kind"] == "set" else "")}
    env = _make_env(sources, globs, bool(case.get("async")))
    if env.is_async:
        labels.add("async")
    rec = env.vt_rec
    _render_all(env, entries, case["datas"], s["allowed"], labels)

    asts = {}

    def ast_of(name):
        if name not in asts:
            src = sources.get(name)
            if src is None:
                asts[name] = None
            else:
                try:
                    asts[name] = env.parse(src)
                except TSE:
                    asts[name] = None
        return asts[name]

    reported_cache = {}

    def reported_of(name):
        if name not in reported_cache:
            reported_cache[name] = meta.find_undeclared_variables(ast_of(name))
        return reported_cache[name]

    def fail(msg, name):
        raise core.Violation("%s\n  template %r: %s\n  all templates: %r\n  datas: %r" % (msg, name, sources.get(name), sources, case["datas"]))

    globals_ = set(env.globals)
    nontrivial = False
    by_owner = {}
    for owner, key in rec.lookups:
        by_owner.setdefault(owner, set()).add(key)
    for owner in sorted(by_owner, key=str):
        ast = ast_of(owner)
        if ast is None:
            raise core.HarnessError("lookup attributed to %r which is not a parsable template of the set" % (owner,))
        reported = reported_of(owner)
        missing = by_owner[owner] - reported - globals_
        if missing:
            fail("context lookups not reported by find_undeclared_variables: %s (reported %s)" % (sorted(missing), sorted(reported)), owner)
        if by_owner[owner] & _stored_names(ast, nodes):
            labels.add("lookup_of_stored_name")
            nontrivial = True
    loads_by = {}
    for parent, name in rec.loads:
        loads_by.setdefault(parent, set()).add(name)
    for parent in sorted(loads_by, key=str):
        ast = ast_of(parent)
        if ast is None:
            raise core.HarnessError("load attributed to %r which is not a parsable template of the set" % (parent,))
        referenced = list(meta.find_referenced_templates(ast))
        consts = {x for x in referenced if x is not None}
        if None not in referenced:
            missing = loads_by[parent] - consts
            if missing:
                fail("templates loaded at run time but not reported by find_referenced_templates: %s (reported %r)"
                     % (sorted(missing), referenced), parent)
            labels.add("load_all_const")
        else:
            labels.add("load_with_unknown")
        if loads_by[parent] - consts:
            labels.add("dynamic_load")
            nontrivial = True
        else:
            labels.add("const_load")
    if case["kind"] == "stmt":
        ast = ast_of("main")
        if ast is not None:
            reads = _reference_reads(case["prog"], case["datas"], labels)
            reported = reported_of("main")
            missing = reads - reported - globals_
            if missing:
                fail("names the scoping rules read from the render data are not reported by find_undeclared_variables: %s "
                     "(reported %s)" % (sorted(missing), sorted(reported)), "main")
            if reads & _stored_names(ast, nodes):
                labels.add("ref_read_of_stored_name")
                nontrivial = True
    for name in sources:
        if FIXED.get(name) == sources[name]:
            continue
        ast = ast_of(name)
        if ast is None:
            labels.add("unparsable_template")
        else:
            _shape_labels(ast, nodes, labels)
    if rec.foreign:
        labels.add("lookup_by_foreign_code")
    if rec.in_block:
        labels.add("lookup_in_block")
    if rec.in_macro:
        labels.add("lookup_in_macro")
    if rec.by_callable:
        labels.add("lookup_by_callable")
    if not rec.lookups:
        labels.add("no_lookup")
    return core.Outcome(nontrivial, sorted(labels))


# ---------------------------------------------------------------------------------------------------------
# local shape generator (also used by C30 with a wider name pool): template *sources*

POOL = ("x", "y", "z", "n")
WIDE_POOL = ("x", "y", "z", "n", "item", "value", "e1", "f1", "g1", "alpha", "beta", "k2", "Q", "_p", "total", "idx")
CONSTS = ("1", "0", "2", "'s'", "'lib'", "'base'", "'nope'", "[1, 2]", "[[1, 2], [3, 4]]", "[[1, [2, 3]]]", "none", "true", "''")
FILTERS = ("upper", "lower", "length", "first", "last", "join(',')", "trim", "string", "list", "int", "e", "safe", "title",
           "reverse", "sort", "unique", "abs", "default('d')", "d(0, true)", "capitalize", "count", "float", "tojson")
TESTS = ("defined", "undefined", "none", "string", "number", "iterable", "mapping", "odd", "even", "sequence", "callable",
         "true", "false", "boolean", "integer", "lower", "upper")
TESTS1 = ("sameas", "eq", "ne", "lt", "gt", "in", "divisibleby")
MEMBER_WORDS = ("a", "b", "c", "lib", "base", "s", "x y", "Ab", "alpha", "beta", "k2", "id", "class", "e1", "f1", "g1", "é", "")
FIXED = {
    "lib": "{% macro mm(a, b=x) %}[{{ a }}{{ b }}{{ y }}{{ varargs }}]{% endmacro %}{% set p = x %}{% set q = 'q' %}"
           "{% macro cc() %}({{ caller(z) }}){% endmacro %}{{ z }}",
    "base": "<{% block b0 %}{{ x }}{% endblock %}|{% block b1 scoped %}{{ y }}{% endblock %}|{{ n }}"
            "{% for z in [1, 2] %}{% block b2 scoped %}{{ z }}{{ n }}{% set x = z %}{{ x }}{% endblock %}{% endfor %}"
            "{% if n %}{% set y = 1 %}{% endif %}{{ y }}{{ self.b0() }}>",
}
DATA_VALUES = (1, 0, 2, "lib", "lib", "base", "nope", "s", [1, 2], [[1, 2], [3, 4]], [[1, [2, 3]]], ["nope", "lib"], "")


class _Lx:
    __slots__ = ("loop", "macro", "blocks", "depth")

    def __init__(self, loop=False, macro=False, blocks=True, depth=0):
        self.loop, self.macro, self.blocks, self.depth = loop, macro, blocks, depth

    def sub(self, **kw):
        c = _Lx(self.loop, self.macro, self.blocks, self.depth + 1)
        for k, v in kw.items():
            setattr(c, k, v)
        return c


class _LGen:
    def __init__(self, draw, pool, budget, rich=False, tnames=("lib", "side", "base", "lib", "nope")):
        self.draw, self.pool, self.budget, self.rich, self.tnames = draw, pool, budget, rich, tnames
        self.nblocks = 0
        self.macros = []  # (name, takes caller)
        self.nmac = 0

    def i(self, lo, hi):
        return self.draw(st.integers(lo, hi))

    def pick(self, seq):
        return seq[self.i(0, len(seq) - 1)]

    def chance(self, a, b):
        return self.i(1, b) <= a

    def name(self):
        return self.pick(self.pool)

    def names(self, k):
        out = []
        for _ in range(k):
            n = self.name()
            if n not in out:
                out.append(n)
        return out

    # -- expressions
    def atom(self, lx):
        k = self.i(0, 11)
        if k < 7:
            return self.name()
        if k < 10:
            return self.pick(CONSTS)
        if lx.loop:
            return self.pick(("loop.index", "loop.first", "loop.length", "loop.cycle(1, 2)"))
        if lx.macro:
            return self.pick(("varargs", "kwargs", "caller()", "kwargs|length"))
        return "g"

    def filt(self):
        return self.pick(FILTERS)

    def test(self, lx):
        if self.chance(1, 4):
            return "%s(%s)" % (self.pick(TESTS1), self.atom(lx))
        return self.pick(TESTS)

    def expr(self, lx, d=2):
        if d <= 0 or self.chance(1, 3):
            return self.atom(lx)
        kinds = ("cat", "cond", "cond1", "test", "filt", "filt", "filts", "call", "list", "tuple", "dict", "attr",
                 "item", "cmp", "bool", "not", "add", "range")
        if self.rich:  # C30 only (keeps C32's stream as validated): membership in a literal sequence of strings
            kinds += ("member", "member")
        k = self.pick(kinds)
        if k == "member":
            ws = self.draw(st.lists(st.sampled_from(MEMBER_WORDS), min_size=2, max_size=6, unique=True))
            seq = ", ".join("'%s'" % w for w in ws)
            return "(%s %s %s)" % (self.name(), self.pick(("in", "not in")), ("(%s)" if self.chance(1, 2) else "[%s]") % seq)
        if k == "cat":
            return "(%s ~ %s)" % (self.expr(lx, d - 1), self.expr(lx, d - 1))
        if k == "cond":
            return "(%s if %s else %s)" % (self.expr(lx, d - 1), self.expr(lx, d - 1), self.expr(lx, d - 1))
        if k == "cond1":
            return "(%s if %s)" % (self.expr(lx, d - 1), self.expr(lx, d - 1))
        if k == "test":
            return "(%s is %s%s)" % (self.atom(lx) if self.chance(2, 3) else "(%s)" % self.expr(lx, d - 1),
                                     "not " if self.chance(1, 4) else "", self.test(lx))
        if k == "filt":
            return "(%s|%s)" % (self.expr(lx, d - 1), self.filt())
        if k == "filts":
            return "(%s|%s)" % (self.expr(lx, d - 1), "|".join(self.filt() for _ in range(self.i(2, 4))))
        if k == "call":
            if self.macros:
                m, _ = self.pick(self.macros)
                args = [self.expr(lx, d - 1) for _ in range(self.i(0, 2))]
                if self.chance(1, 3):
                    args.append("%s=%s" % (self.name(), self.expr(lx, d - 1)))
                return "%s(%s)" % (m, ", ".join(args))
            return "%s(%s)" % (self.name(), self.atom(lx))
        if k == "list":
            return "[%s]" % ", ".join(self.expr(lx, d - 1) for _ in range(self.i(0, 3)))
        if k == "tuple":
            return "(%s, %s)" % (self.expr(lx, d - 1), self.expr(lx, d - 1))
        if k == "dict":
            return "{'k': %s, 'j': %s}" % (self.expr(lx, d - 1), self.atom(lx))
        if k == "attr":
            return "%s.%s" % (self.name(), self.pick(("p", "q", "mm", "k", self.name())))
        if k == "item":
            return "%s[%s]" % (self.name(), self.pick(("0", "'k'", self.name())))
        if k == "cmp":
            return "(%s %s %s)" % (self.expr(lx, d - 1), self.pick(("==", "!=", "<", ">=", "in", "not in")), self.expr(lx, d - 1))
        if k == "bool":
            return "(%s %s %s)" % (self.expr(lx, d - 1), self.pick(("and", "or")), self.expr(lx, d - 1))
        if k == "not":
            return "(not %s)" % self.expr(lx, d - 1)
        if k == "add":
            return "(%s %s %s)" % (self.atom(lx), self.pick(("+", "-", "*", "//", "%")), self.atom(lx))
        return "range(%s)" % self.pick(("2", "0", self.name()))

    def tname(self, lx, single=False):
        """A template-name expression."""
        kinds = ["const", "const", "var", "var", "cond", "expr"] + ([] if single else ["list", "clist", "ctuple", "vlist"])
        k = self.pick(kinds)
        c = lambda: "'%s'" % self.pick(self.tnames)  # noqa: E731
        if k == "const":
            return c()
        if k == "var":
            return self.name()
        if k == "cond":
            return "(%s if %s else %s)" % (self.pick((self.name(), c())), self.expr(lx, 1), self.pick((self.name(), c())))
        if k == "expr":
            return self.pick(("(%s ~ '')" % self.name(), "('li' ~ 'b')", "%s|default('lib')" % self.name(), "(%s or 'lib')" % self.name()))
        if k == "list":
            return "[%s, %s]" % (self.name(), c())
        if k == "clist":
            return "['nope', %s]" % c()
        if k == "ctuple":
            return "('nope', %s)" % c()
        return "[%s, %s, %s]" % (c(), self.name(), self.name())

    def ctxflag(self):
        return self.pick(("", "", " with context", " without context"))

    # -- statements
    def body(self, lx, lo=1, hi=4):
        out = []
        for _ in range(self.i(lo, hi)):
            if self.budget <= 0:
                break
            out.append(self.stmt(lx))
        return "".join(out)

    def target(self, nested_ok=True):
        k = self.i(0, 9)
        if k < 6:
            return self.name(), 1
        if k < 9 or not nested_ok:
            ns = self.names(2)
            if len(ns) == 2:
                return "%s, %s" % tuple(ns), 2
            return ns[0], 1
        ns = self.names(3)
        if len(ns) == 3:
            return "%s, (%s, %s)" % tuple(ns), 3
        return ns[0], 1

    def stmt(self, lx):
        self.budget -= 1
        deep = lx.depth < 3 and self.budget > 0
        kinds = ["out"] * 6 + ["set"] * 4 + ["tset", "text", "import", "from", "include", "include", "nsset", "do"]
        if lx.loop:
            kinds += ["loopctl"]
        if deep:
            kinds += ["if"] * 4 + ["for"] * 4 + ["with"] * 3 + ["macro"] * 3 + ["setblock", "filter", "autoescape", "trans", "trans"]
            if self.macros:
                kinds += ["callblock"] * 2
            if lx.blocks:
                kinds += ["block"] * 2
        k = self.pick(kinds)
        E = lambda d=2: self.expr(lx, d)  # noqa: E731
        if k == "text":
            return self.pick(("a", " ", "-", "%", "<b>"))
        if k == "out":
            return "{{ %s }}" % E()
        if k == "set":
            return "{%% set %s = %s %%}" % (self.name(), E())
        if k == "tset":
            ns = self.names(self.i(2, 4 if self.rich else 3))
            if len(ns) < 2:
                return "{%% set %s = %s %%}" % (ns[0], E())
            if self.chance(1, 3):
                return "{%% set %s = %s %%}" % (", ".join(ns), ", ".join(reversed(ns)))
            return "{%% set %s = %s %%}" % (", ".join(ns), ", ".join(E(1) for _ in ns))
        if k == "nsset":
            a, b = self.name(), self.name()
            return "{%% set ns = namespace(%s=%s) %%}{%% set ns.%s = %s %%}{{ ns.%s }}" % (a, E(1), b, E(1), a)
        if k == "do":
            return "{%% do %s %%}" % E(1)
        if k == "loopctl":
            return "{%% if %s %%}{%% %s %%}{%% endif %%}" % (E(1), self.pick(("break", "continue")))
        if k == "import":
            n = self.name()
            return "{%% import %s as %s%s %%}{{ %s }}{{ %s.mm(%s) }}" % (self.tname(lx, True), n, self.ctxflag(), n, n, self.atom(lx))
        if k == "from":
            a, b = self.name(), self.name()
            items = self.pick(("mm", "p", "q", "mm as %s" % a, "p as %s" % a, "%s" % a, "mm, p as %s" % a, "p as %s, q as %s" % (a, b),
                               "mm as %s, p, q" % a))
            return "{%% from %s import %s%s %%}{{ %s }}{{ %s }}" % (self.tname(lx, True), items, self.ctxflag(), a, self.pick(("p", "mm(1)", b)))
        if k == "include":
            return "{%% include %s%s%s %%}" % (self.tname(lx), " ignore missing" if self.chance(1, 2) else "", self.ctxflag())
        if k == "if":
            s = "{%% if %s %%}%s" % (E(), self.body(lx.sub(), 1, 3))
            if self.chance(1, 3):
                s += "{%% elif %s %%}%s" % (E(1), self.body(lx.sub(), 1, 2))
            if self.chance(1, 3):
                s += "{% else %}" + self.body(lx.sub(), 1, 2)
            return s + "{% endif %}"
        if k == "for":
            tgt, arity = self.target()
            if arity == 1:
                it = self.pick((self.name(), self.name(), "[1, 2]", "range(2)", "[]", E(1)))
            elif arity == 2:
                it = self.pick(("[[1, 2], [3, 4]]", self.name(), "[(%s, %s)]" % (self.name(), self.atom(lx)), "{'k': %s}|items" % self.name()))
            else:
                it = self.pick(("[[1, [2, 3]]]", self.name()))
            head = "{%% for %s in %s" % (tgt, it)
            if self.chance(1, 4):
                head += " if %s" % E(1)
            rec = self.chance(1, 6)
            if rec:
                head += " recursive"
            b = self.body(lx.sub(loop=True), 1, 4)
            if rec and self.chance(2, 3):
                # recursion only over the loop's own item (finite nesting) or an empty list
                b += "{{ loop(%s) if %s is iterable and %s is not string }}" % ((tgt,) * 3) if arity == 1 else "{{ loop([]) }}"
            s = head + " %}" + b
            if self.chance(1, 3):
                s += "{% else %}" + self.body(lx.sub(loop=False), 1, 2)
            return s + "{% endfor %}"
        if k == "with":
            ns = self.names(self.i(1, 3))
            binds = []
            for j, n in enumerate(ns):
                v = self.pick((n, "%s ~ 'w'" % n, ns[j - 1], E(1), E(1)))
                binds.append("%s = %s" % (n, v))
            if self.chance(1, 8):
                binds = []
            return "{%% with %s %%}%s{%% endwith %%}" % (", ".join(binds), self.body(lx.sub(), 1, 4))
        if k == "macro":
            self.nmac += 1
            m = "m%d" % self.nmac  # fresh name: a body only calls macros defined before it (no unbounded recursion)
            params = self.names(self.i(0, 3))
            nd = self.i(0, len(params))
            ps = []
            for j, p in enumerate(params):
                if j >= len(params) - nd:
                    ps.append("%s=%s" % (p, self.pick((self.name(), p, E(1), params[0]))))
                else:
                    ps.append(p)
            b = self.body(lx.sub(loop=False, macro=True, blocks=False), 1, 4)
            takes_caller = self.chance(1, 3)
            if takes_caller:
                b += "{{ caller(%s) }}" % self.pick(("", self.atom(lx)))
            if self.chance(1, 3):
                v = self.name()
                b += self.pick(("{{ varargs }}", "{{ kwargs }}", "{{ varargs|length }}{{ kwargs|length }}",
                                "{%% for %s in varargs %%}{{ %s }}{%% endfor %%}" % (v, v)))
            self.macros.append((m, takes_caller))
            s = "{%% macro %s(%s) %%}%s{%% endmacro %%}" % (m, ", ".join(ps), b)
            if self.chance(3, 4):
                if takes_caller:
                    s += "{%% call%s %s(%s) %%}%s{%% endcall %%}" % (self.pick(("", "(%s)" % self.name())), m, self.atom(lx),
                                                                    self.body(lx.sub(loop=False, blocks=False), 1, 2))
                else:
                    s += "{{ %s(%s) }}" % (m, ", ".join([self.atom(lx) for _ in range(self.i(0, 2))] + (["extra=1", "%s=2" % self.name()][: self.i(0, 2)])))
            return s
        if k == "callblock":
            m, _ = self.pick(self.macros)
            ps = self.names(self.i(0, 2))
            ph = ""
            if ps:
                ph = "(%s)" % ", ".join(p if j == 0 else "%s=%s" % (p, self.name()) for j, p in enumerate(ps))
            return "{%% call%s %s(%s) %%}%s{%% endcall %%}" % (ph, m, self.atom(lx), self.body(lx.sub(loop=False, blocks=False), 1, 3))
        if k == "setblock":
            f = " | " + self.filt() if self.chance(1, 3) else ""
            return "{%% set %s%s %%}%s{%% endset %%}" % (self.name(), f, self.body(lx.sub(blocks=False), 1, 3))
        if k == "filter":
            return "{%% filter %s %%}%s{%% endfilter %%}" % (self.pick(("upper", "lower|trim", "default(%s)" % self.name(), "replace('a', %s)" % self.name())),
                                                             self.body(lx.sub(blocks=False), 1, 3))
        if k == "autoescape":
            return "{%% autoescape %s %%}%s{%% endautoescape %%}" % (self.pick(("true", "false", self.name())), self.body(lx.sub(), 1, 3))
        if k == "block":
            self.nblocks += 1
            bname = "b%d" % (self.nblocks + 10)
            if self.rich and self.chance(1, 2):  # C30 only: unusual but valid block names (unique through the number)
                bname = self.pick(G.IDENT_CLASSES["unicode"] + G.IDENT_CLASSES["pykeyword"][:8] + G.IDENT_CLASSES["dunder"][:4]) + "%d" % (self.nblocks + 10)
            mods = " scoped" if self.chance(1, 2) else ""
            # break/continue inside a block nested in a loop compile to a raw SyntaxError (block = own function):
            # that is C01's business (reported to the coordinator), not generated here
            b = self.body(lx.sub(blocks=self.chance(1, 3), loop=False), 1, 3)
            if self.chance(1, 4):
                b += "{{ super() }}"
            return "{%% block %s%s %%}%s{%% endblock %%}" % (bname, mods, b)
        if k == "trans":
            return self.trans(lx)
        raise AssertionError(k)

    def trans(self, lx):
        decl = self.names(self.i(0, 3))
        free = self.names(self.i(0, 4 if self.rich else 3))
        head = []
        for n in decl:
            head.append(self.pick((n, "%s=%s" % (n, self.expr(lx, 1)), "%s=%s" % (n, self.name()))))
        plural = self.chance(1, 3) and (decl or free)
        body_names = list(dict.fromkeys(free + [n for n in decl if self.chance(2, 3)]))
        trim = self.pick(("trimmed ", "notrimmed ")) if self.chance(1, 5) else ""
        words = ("a ", "b", " %s ", "100%", " c")
        sing = "".join(self.pick(words) + "{{ %s }}" % n for n in body_names) + self.pick(words)
        s = "{%% trans %s%s %%}%s" % (trim, ", ".join(head), sing)
        if plural:
            extra = [n for n in self.names(2) if n not in body_names]
            pn = ""
            if decl and self.chance(1, 3):
                pn = " " + self.pick(decl)
            s += "{%% pluralize%s %%}%s" % (pn, "".join("x{{ %s }}" % n for n in (body_names[::-1] + extra)) + "s")
        return s + "{% endtrans %}"


@st.composite
def local_sets(draw, pool=POOL, budget=14, rich=False):
    """-> {"templates": {...}, "entries": [...]} : main (+ optional extends), side, fixed lib/base."""
    g = _LGen(draw, pool, budget, rich)
    main = g.body(_Lx(), 2, 6)
    ext = g.i(0, 5)
    if ext == 0:
        main = "{%% extends %s %%}" % g.tname(_Lx(), True) + main
    elif ext == 1:
        main = "{%% if %s %%}{%% extends %s %%}{%% endif %%}" % (g.name(), g.pick(("'base'", "'side'", g.name()))) + main
    # the side template never names itself or main, and no data value does: no include cycles
    g2 = _LGen(draw, pool, max(4, budget // 2), rich, tnames=("lib", "base", "lib", "nope"))
    g2.nblocks = 20
    g2.nmac = 20
    side = g2.body(_Lx(), 1, 4)
    templates = {"main": main, "side": side}
    templates.update(FIXED)
    return {"templates": templates, "entries": ["main", "side"]}


@st.composite
def local_datas(draw, pool=POOL, n=3):
    out = []
    for _ in range(n):
        d = {}
        for name in pool:
            if draw(st.integers(0, 2)):
                d[name] = DATA_VALUES[draw(st.integers(0, len(DATA_VALUES) - 1))]
        out.append(d)
    return out


# ---------------------------------------------------------------------------------------------------------
# case strategies

_ASYNC = (False,) * 7 + (True,)


def _thin(data, keep_every, offset):
    """A copy of the data with some of the plain value keys removed (structural keys -- flags, template names --
    stay), so that other branches / fall-throughs to undefined are exercised."""
    out = {}
    j = 0
    for k in sorted(data):
        v = data[k]
        structural = isinstance(v, (bool, dict, list)) or k in ("nm", "nms", "tobj") or k[:1] in ("f", "p") and k[1:].isdigit()
        if structural:
            out[k] = (not v) if isinstance(v, bool) and offset == 1 else v
            continue
        j += 1
        if (j + offset) % keep_every:
            out[k] = v
    return out


@st.composite
def stmt_cases(draw, max_depth=4, max_nodes=25):
    prog = draw(G.programs(max_depth, max_nodes, errors=draw(st.integers(0, 3)) == 0))
    return {"kind": "stmt", "prog": prog, "datas": draw(G.datas(3)), "async": draw(st.sampled_from(_ASYNC))}


@st.composite
def set_cases(draw, which, size=3):
    if which == "inherit":
        c = draw(tsets.hierarchies(max_depth=3, max_blocks=4, size=size))
    else:
        c = draw(tsets.module_sets(max_libs=3, size=size))
    d = c["data"]
    return {"kind": "set", "ir": c["ir"], "datas": [d, _thin(d, 2, 0), _thin(d, 2, 1)], "async": draw(st.sampled_from(_ASYNC))}


@st.composite
def local_cases(draw, budget=14):
    s = draw(local_sets(POOL, budget))
    return {"kind": "src", "templates": s["templates"], "entries": s["entries"], "datas": draw(local_datas(POOL, 3)),
            "globals": {"g": "G"}, "async": draw(st.sampled_from(_ASYNC))}


# ---------------------------------------------------------------------------------------------------------
# runner

N_SHARDS = 16
# measured CPU cost incl. generation on a quiet machine: ~ 15 ms per case over the quick mix (stmt ~ 20, inherit ~ 8,
# modules ~ 18, local ~ 15), ~ 22 ms with the thorough sizes; 2-3 x that on the saturated machine.
SIZES = {  # stream -> (quick, thorough) cases per shard: quick ~ 580 CPU-s, thorough ~ 9 000 CPU-s
    "stmt": (560, 5500),
    "inherit": (640, 7500),
    "modules": (480, 4800),
    "local": (720, 7200),
}


def shards(tier):
    return [{"i": i} for i in range(N_SHARDS)]


def run_shard(spec, ctx):
    rec = core.Rec()
    big = not ctx.quick
    streams = [
        ("stmt", stmt_cases(ctx.pick(4, 5), ctx.pick(25, 45))),
        ("inherit", set_cases("inherit", ctx.pick(3, 4))),
        ("modules", set_cases("modules", ctx.pick(3, 4))),
        ("local", local_cases(ctx.pick(14, 22))),
    ]
    for tag, strat in streams:
        n = SIZES[tag][1 if big else 0]
        done = 0
        while done < n and not rec.violations:
            m = min(4000, n - done)
            core.hyp_shard(strat, check_case, ctx, m, rec=rec, tag="%s-%d" % (tag, done))
            done += m
        if rec.violations:
            break
    return rec


FLOORS = {
    "lookup_of_stored_name": 0.15, "dynamic_load": 0.05, "const_load": 0.05, "lookup_by_foreign_code": 0.03,
    "lookup_in_block": 0.03, "lookup_in_macro": 0.05, "shape_branch_store": 0.05, "shape_loop_store": 0.03,
    "shape_macro_default": 0.02, "shape_with_outer": 0.01, "shape_tuple_target": 0.03, "shape_import_name": 0.05,
    "shape_dyn_var": 0.03, "shape_dyn_cond": 0.02, "shape_dyn_list": 0.02, "ref_decided": 0.10, "render_ok": 0.5,
}


def floors(total, tier):
    n = max(total.evaluations, 1)
    low = ["%s=%d" % (k, total.labels.get(k, 0)) for k, f in FLOORS.items() if total.labels.get(k, 0) < f * n * 0.5]
    if low:
        return "classes below floor: " + ", ".join(low)
    return None
