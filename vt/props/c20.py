"""C20 - sandbox operator interception sees every intercepted operator application.

Case: {"expr": IR tree (vt.gen.expr.arith_exprs), "data": encoded context, "binops": [...], "unops": [...],
       "async": bool, "optimized": bool, "place": placement key, "style": int}
A SandboxedEnvironment subclass intercepts exactly the listed operators; its call_binop / call_unop log
(operator, operands) and return a *perturbed* result (int + 1, float + 0.25, str + "§", list + ["§"]).
The reference evaluator (vt.ref.evalexpr) evaluates the same tree with the same hook: the two logs must be equal
(same order, same operands; nothing logged for operators that are not intercepted) and the rendered text must be
the text of the reference value - an application that was folded at compile time or compiled to the native
operator lacks both the log entry and the perturbation.
"""
from vt import core
from vt.gen import data as gdata
from vt.gen import expr as gexpr
from vt.props.c02 import classify
from vt.ref import evalexpr as ref

PID = "C20"
LEVEL = "exploration"
RULE = (
    "Hypothesis arithmetic-heavy, constant-rich expression trees (all 7 binary and 2 unary interceptable operators, ~, "
    "comparisons, and/or, conditional expressions, filters with arguments, calls, subscripts and slices with signed literal / variable indexes and bounds; depth <= 4 quick / 5 thorough) placed in an "
    "output, a set, an if test, an inline-if test, a filter argument, a call argument, a macro default or a loop filter, x a generated context, x a "
    "subset of the 9 interceptable operators (sampled from all 512 in quick; every subset is drawn from in thorough: 32 per shard), "
    "sync and async, optimized on/off. Non-trivial = some intercepted operator is applied to constant operands only (a "
    "compile-time folding candidate) and some arithmetic operator that is not intercepted occurs; distinct = distinct case."
)
ASSUMPTIONS = [
    "sandbox.rst / SandboxedEnvironment docstrings: intercepted operators are delegated to call_binop / call_unop, the default callback performs the builtin operation",
    "the reference evaluator's left-to-right operand evaluation (Python's) decides the order of the log",
    "cases whose perturbed evaluation leaves the harness magnitude bounds are discarded",
]

BINOPS = ["+", "-", "*", "/", "//", "%", "**"]
UNOPS = ["+", "-"]
PLACES = ["out", "set", "if", "inline_if", "filter_arg", "call_arg", "macro_default", "loop_filter"]
SCHEMA = {"i": "int", "j": "int", "n": "smallint", "f": "float", "s": "str", "l": "list_int", "fn": "fn"}
_state = {}


def perturb(v):
    if isinstance(v, bool):
        return v
    if isinstance(v, int):
        return v + 1
    if isinstance(v, float):
        return v + 0.25
    if type(v) is str:
        return v + "§"
    if type(v) is list:
        return v + ["§"]
    if type(v) is tuple:
        return v + ("§",)
    return v


def _setup():
    if _state:
        return _state
    import warnings

    import jinja2
    from jinja2.sandbox import SandboxedEnvironment

    warnings.filterwarnings("ignore", category=SyntaxWarning)

    class Recording(SandboxedEnvironment):
        def call_binop(self, context, operator, left, right):
            self.vt_log.append(["bin", operator, gdata.canon_value(left, (jinja2.Undefined,)), gdata.canon_value(right, (jinja2.Undefined,))])
            return perturb(SandboxedEnvironment.call_binop(self, context, operator, left, right))

        def call_unop(self, context, operator, arg):
            self.vt_log.append(["un", operator, gdata.canon_value(arg, (jinja2.Undefined,))])
            return perturb(SandboxedEnvironment.call_unop(self, context, operator, arg))

    _state.update(Recording=Recording, jinja2=jinja2, envs={})
    return _state


def _env(binops, unops, is_async, optimized):
    st = _setup()
    key = (tuple(binops), tuple(unops), is_async, optimized)
    env = st["envs"].get(key)
    if env is None:
        cls = type("Recording_%d" % len(st["envs"]), (st["Recording"],),
                   {"intercepted_binops": frozenset(binops), "intercepted_unops": frozenset(unops)})
        env = cls(enable_async=is_async, optimized=optimized)
        if len(st["envs"]) > 4096:
            st["envs"].clear()
        st["envs"][key] = env
    env.vt_log = []
    return env


def template_source(place, src):
    if place == "out":
        return "{{ " + src + " }}"
    if place == "set":
        return "{% set q = " + src + " %}{{ q }}"
    if place == "if":
        return "{% if " + src + " %}T{% else %}F{% endif %}"
    if place == "inline_if":
        return "{{ 'T' if " + src + " else 'F' }}"
    if place == "filter_arg":
        return "{{ nothing|default(" + src + ") }}"
    if place == "call_arg":
        return "{{ fn(" + src + ") }}"
    if place == "macro_default":
        return "{% macro m(a=" + src + ") %}[{{ a }}]{% endmacro %}{{ m() }}"
    if place == "loop_filter":
        return "{% for q in [1] if " + src + " %}T{% else %}F{% endfor %}"
    raise core.HarnessError("unknown placement %r" % (place,))


def expected_text(place, v):
    """Text the placement renders for expression value v, or None when it is not determined."""
    if place in ("if", "inline_if", "loop_filter"):
        return "T" if v else "F"
    if not ref.stringable(v):
        return None
    if place in ("out", "set", "filter_arg"):
        return str(v)
    if place == "call_arg":
        return str(("fn", (v,), ()))
    if place == "macro_default":
        return "[" + str(v) + "]"
    raise core.HarnessError(place)


def _drive(coro):
    try:
        coro.send(None)
    except StopIteration as e:
        return e.value
    coro.close()
    raise core.HarnessError("render_async suspended although the data holds no awaitables")


def _const_subtree(node):
    return all(n[0] != "name" for n in gexpr.walk(node))


def structure(expr, binops, unops):
    """(folding candidates among intercepted applications, has a non-intercepted arithmetic operator, has an intercepted one)"""
    cand = free = hit = False
    for n in gexpr.walk(expr):
        if n[0] == "bin":
            if n[1] in binops:
                hit = True
                cand = cand or (_const_subtree(n[2]) and _const_subtree(n[3]))
            else:
                free = True
        elif n[0] == "unary" and n[1] != "not":
            if n[1] in unops:
                hit = True
                cand = cand or _const_subtree(n[2])
            else:
                free = True
    return cand, free, hit


def check_case(case):
    st = _setup()
    expr, enc, place = case["expr"], case["data"], case["place"]
    binops = [o for o in BINOPS if o in case["binops"]]
    unops = [o for o in UNOPS if o in case["unops"]]
    try:
        ref.static_check(expr)
    except ref.RefDecline:
        raise core.Discard()
    except ref.RefExcluded:
        raise core.Excluded()

    want_log = []

    def hook(kind, op, operands, f):
        want_log.append([kind, op] + [gdata.canon_value(x, (ref.RefUndefined,)) for x in operands])
        return perturb(f(*operands))

    scope = gdata.decode_context(enc)
    try:
        v = ref.eval_expr(expr, scope, intercept_bin=binops, intercept_un=unops, hook=hook)
        want = ("val", expected_text(place, v))
    except ref.RefError as e:
        want = ("err", e.kind)
    except ref.RefDecline:
        raise core.Discard()
    if any(gdata.canon_contains(c, "opaque") for entry in want_log for c in entry[2:]):
        raise core.Discard()

    src = gexpr.print_expr(expr, case.get("style", 0))
    if expr[0] == "cond" and place in ("if", "inline_if", "loop_filter"):
        src = "(" + src + ")"   # these positions take an expression without a bare conditional expression
    tsrc = template_source(place, src)
    env = _env(binops, unops, bool(case["async"]), bool(case["optimized"]))
    jinja2 = st["jinja2"]
    where = "%s\n  intercepted: %s %s; async=%s optimized=%s\n  data: %r" % (
        tsrc, " ".join(binops) or "-", " ".join("u" + o for o in unops) or "-", case["async"], case["optimized"], enc)
    try:
        tmpl = env.from_string(tsrc)
    except jinja2.TemplateSyntaxError as e:
        raise core.Violation("template printed from the tree is rejected: %s\n  %s" % (e, where))
    env.vt_log = log = []
    ctx = gdata.decode_context(enc)
    try:
        if case["async"]:
            got = ("val", _drive(tmpl.render_async(ctx)))
        else:
            got = ("val", tmpl.render(ctx))
    except (jinja2.UndefinedError, ArithmeticError, TypeError, ValueError, LookupError) as e:
        kind = classify(e, {"UndefinedError": jinja2.UndefinedError})
        got = ("err", kind, "%s: %s" % (type(e).__name__, e))

    if log != want_log:
        n = next((k for k, (a, b) in enumerate(zip(log, want_log)) if a != b), min(len(log), len(want_log)))
        raise core.Violation("interception log differs at entry %d: hook saw %r, the tree applies %r (hook calls: %d, expected: %d)\n  %s"
                             % (n, log[n] if n < len(log) else None, want_log[n] if n < len(want_log) else None, len(log), len(want_log), where))
    if want[0] == "val":
        if got[0] != "val":
            raise core.Violation("render raised %s, expected text %r\n  %s" % (got[2], want[1], where))
        if want[1] is not None and got[1] != want[1]:
            raise core.Violation("rendered %r, the hook's results give %r\n  %s" % (got[1], want[1], where))
    else:
        if got[0] != "err":
            raise core.Violation("rendered %r, expected an error of class %s\n  %s" % (got[1], want[1], where))
        if got[1] != want[1]:
            raise core.Violation("render raised %s, expected error class %s\n  %s" % (got[2], want[1], where))

    cand, free, hit = structure(expr, binops, unops)
    labels = ["place_" + place, "async" if case["async"] else "sync", "optimized" if case["optimized"] else "unoptimized",
              "outcome_" + want[0]]
    if want_log:
        labels.append("hook_called")
    if cand:
        labels.append("folding_candidate")
    for n in gexpr.walk(expr):
        if n[0] in ("item", "slice"):
            signed = [x for x in (n[2:3] if n[0] == "item" else n[2:5]) if x is not None and x[0] == "unary" and x[1] != "not"]
            if signed:
                labels.append("signed_index" if n[0] == "item" else "signed_slice_bound")
                if any(x[1] in unops for x in signed):
                    labels.append("intercepted_sign_in_subscript")
    if hit and not want_log:
        labels.append("intercepted_not_reached")
    if not binops and not unops:
        labels.append("intercept_none")
    if len(binops) == 7 and len(unops) == 2:
        labels.append("intercept_all")
    return core.Outcome(cand and free, labels)


def _mask_ops(mask):
    return [o for k, o in enumerate(BINOPS) if mask >> k & 1], [o for k, o in enumerate(UNOPS) if mask >> (7 + k) & 1]


def cases(max_depth, masks):
    import hypothesis.strategies as st

    tree = gexpr.arith_exprs(max_depth)
    data = gdata.contexts(SCHEMA, nonfinite=False, p_wrong=0.03, p_missing=0.03)

    def build(expr, enc, k):
        # one drawn integer decides the whole configuration; multiplying by an odd 64-bit constant spreads
        # Hypothesis' bias towards small numbers over all fields (0 stays the plainest configuration)
        k = (k * 0x9E3779B97F4A7C15) % 2**64 >> 16
        binops, unops = _mask_ops(masks[(k >> 20) % len(masks)] if k else 0)
        if "fn" not in enc:
            enc = dict(enc, fn={"$": "fn", "name": "fn"})   # the call_arg placement and fn(...) nodes need the probe callable
        return {"expr": expr, "data": enc, "binops": binops, "unops": unops, "async": bool(k & 1), "optimized": bool(k >> 1 & 3),
                "place": PLACES[(k >> 3) % len(PLACES)], "style": [0, 0, 1, 2, 3, 5, 8, 13][(k >> 8) % 8]}

    return st.builds(build, tree, data, st.integers(0, 2**40))


def shards(tier):
    return [{"i": i} for i in range(16)]


def run_shard(spec, ctx):
    if ctx.quick:
        # all 512 subsets are eligible in every shard; the empty, the full and the single-operator sets are listed twice
        masks = list(range(512)) + [0, 511] + [1 << k for k in range(9)]
    else:
        masks = [m for m in range(512) if m % ctx.nshards == ctx.index]
    return core.hyp_shard(cases(ctx.pick(4, 5), masks), check_case, ctx, ctx.pick(3500, 60000), tag="c20")


def floors(total, tier):
    n = total.evaluations - total.discarded - total.excluded
    if n and total.labels.get("folding_candidate", 0) < 0.25 * n:
        return "folding_candidate %d of %d judged cases (< 25 %%)" % (total.labels.get("folding_candidate", 0), n)
    for lab in ["place_" + p for p in PLACES] + ["async", "sync", "optimized", "unoptimized", "hook_called", "outcome_err",
                                                       "signed_index", "signed_slice_bound", "intercepted_sign_in_subscript"]:
        if total.labels.get(lab, 0) < 50:
            return "label %s seen %d times (< 50)" % (lab, total.labels.get(lab, 0))
    return None
