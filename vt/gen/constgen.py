"""G-const: constant-rich templates for C08 (constant folding is unobservable), DESIGN.md section 4 C08.

Expressions are G-expr IR trees (see ``vt.gen.expr``: ``["const", v]``, ``["bin", op, l, r]``, ``["filter", name, obj,
args, kwargs]`` ...) and are printed with ``vt.gen.expr.print_expr``.  This module adds

* a small statement IR around them (a *body* is a JSON list of statements)

    ["text", s]                                   template data
    ["out", e]                                    {{ e }}
    ["set", name, e]                              {% set name = e %}
    ["setblock", name, body]                      {% set name %}...{% endset %}
    ["if", e, body, else_body|None]
    ["for", name, e, body]
    ["with", name, e, body]
    ["macro", name, [[param, default_e], ...], body, [call_e, ...]]
                                                  definition followed by {{ call_e }} for each call expression: a macro
                                                  is only called in the autoescape region that defines it
    ["filterblock", filter, [arg_e, ...], body]   {% filter name(args) %}...{% endfilter %}
    ["autoescape", mode, body]                    mode "true" | "false" | "flag" | "notflag" (flag: runtime variable)
    ["msafe", kind, e1, e2|None]                  harness extension tag (see vt.props.c08): Output(MarkSafeIfAutoescape(e1)
                                                  [+ e2]) for kind "ifauto", Output(MarkSafe(e1) [+ e2]) for "always"

* ``print_body(body, style)``: Jinja source
* constant lifting: ``units(body)`` enumerates the liftable constant units in a fixed pre-order (every ``const`` leaf,
  every ``"..."|safe`` on a string constant (value: Markup), every list / tuple / dict display of constants),
  ``lift(body, chosen)`` -> (body with the chosen units replaced by names ``c<index>``, {name: value})
* the magnitude guard ``guard(body)`` (F19: compile-time folding is unbounded, so nothing big is ever generated):
  a ``*`` has a small constant leaf on one side or provably numeric operands on both, ``**`` has a constant
  exponent 0..4, count-like filter arguments and ``range`` arguments are small constant leaves
* the Hypothesis strategy ``templates(max_depth, max_stmts)`` -> {"env": {...}, "body": [...], "lifts": [[unit
  index, ...], ...], "style": int}; every generated body satisfies ``guard``.

Nothing here imports jinja2.
"""
from markupsafe import Markup

from vt.gen.expr import print_expr

__all__ = ["print_body", "units", "lift", "guard", "GuardError", "templates", "walk_exprs", "body_labels", "regions",
           "const_value", "COUNT_ARGS", "sliceable", "slice_hazard", "strict_hazard", "map_body_exprs", "map_children"]

VARS = ("v0", "v1", "v2", "v3")
MACROS = ("m0", "m1")
PARAMS = ("p0", "p1")
LOOPVAR = ("i0", "i1")
SMALL = 8           # largest repeat count / small leaf
MAX_EXP = 4

# filter name -> positions of positional arguments that are counts / widths (must be small constant leaves)
COUNT_ARGS = {"center": (0,), "indent": (0,), "truncate": (0,), "wordwrap": (0,), "batch": (0,), "slice": (0,), "round": (0,)}
COUNT_KWARGS = {"width", "length", "precision", "linecount"}
MAX_COUNT = 40


class GuardError(Exception):
    pass


# ---------------------------------------------------------------------------------------------------------------------
# expression helpers


def const_value(v):
    """Python value of the payload of a ``const`` node."""
    if isinstance(v, dict):
        return float(v["v"])
    return v


def expr_children(node):
    k = node[0]
    if k in ("const", "name"):
        return []
    if k in ("list", "tuple", "concat"):
        return list(node[1])
    if k == "dict":
        return [x for kv in node[1] for x in kv]
    if k == "unary":
        return [node[2]]
    if k == "bin":
        return [node[2], node[3]]
    if k in ("and", "or"):
        return [node[1], node[2]]
    if k == "cmp":
        return [node[1]] + [e for _, e in node[2]]
    if k == "cond":
        return [x for x in node[1:4] if x is not None]
    if k in ("attr", "paren"):
        return [node[1]]
    if k == "item":
        return [node[1], node[2]]
    if k == "slice":
        return [x for x in node[1:5] if x is not None]
    if k == "call":
        out = [node[1]] + list(node[2]) + [e for _, e in node[3]]
        return out + [x for x in node[4:6] if x is not None]
    if k == "filter":
        return [node[2]] + list(node[3]) + [e for _, e in node[4]]
    if k == "test":
        return [node[2]] + list(node[3])
    raise ValueError("unknown expression kind %r" % (k,))


def map_children(node, f):
    """Copy of ``node`` with ``f`` applied to every direct sub-expression (same order as expr_children)."""
    k = node[0]
    if k in ("const", "name"):
        return node
    if k in ("list", "tuple", "concat"):
        return [k, [f(x) for x in node[1]]]
    if k == "dict":
        return [k, [[f(a), f(b)] for a, b in node[1]]]
    if k == "unary":
        return [k, node[1], f(node[2])]
    if k == "bin":
        return [k, node[1], f(node[2]), f(node[3])]
    if k in ("and", "or"):
        return [k, f(node[1]), f(node[2])]
    if k == "cmp":
        first = f(node[1])
        return [k, first, [[op, f(e)] for op, e in node[2]]]
    if k == "cond":
        return [k] + [None if x is None else f(x) for x in node[1:4]]
    if k == "attr":
        return [k, f(node[1]), node[2]]
    if k == "paren":
        return [k, f(node[1])]
    if k == "item":
        return [k, f(node[1]), f(node[2])]
    if k == "slice":
        return [k] + [None if x is None else f(x) for x in node[1:5]]
    if k == "call":
        func = f(node[1])
        args = [f(x) for x in node[2]]
        kws = [[n, f(e)] for n, e in node[3]]
        return [k, func, args, kws] + [None if x is None else f(x) for x in node[4:6]]
    if k == "filter":
        obj = f(node[2])
        return [k, node[1], obj, [f(x) for x in node[3]], [[n, f(e)] for n, e in node[4]]]
    if k == "test":
        obj = f(node[2])
        return [k, node[1], obj, [f(x) for x in node[3]], node[4]]
    raise ValueError("unknown expression kind %r" % (k,))


def walk_expr(node):
    stack = [node]
    while stack:
        n = stack.pop()
        yield n
        stack.extend(reversed(expr_children(n)))


# ---------------------------------------------------------------------------------------------------------------------
# statements


def map_stmt_exprs(stmt, f):
    """Copy of the statement with ``f`` applied to each of its expressions, bodies mapped recursively, in source order."""
    k = stmt[0]
    if k == "text":
        return stmt
    if k == "out":
        return [k, f(stmt[1])]
    if k == "set":
        return [k, stmt[1], f(stmt[2])]
    if k == "setblock":
        return [k, stmt[1], map_body_exprs(stmt[2], f)]
    if k == "if":
        test = f(stmt[1])
        body = map_body_exprs(stmt[2], f)
        return [k, test, body, None if stmt[3] is None else map_body_exprs(stmt[3], f)]
    if k in ("for", "with"):
        e = f(stmt[2])
        return [k, stmt[1], e, map_body_exprs(stmt[3], f)]
    if k == "macro":
        params = [[p, f(d)] for p, d in stmt[2]]
        body = map_body_exprs(stmt[3], f)
        return [k, stmt[1], params, body, [f(c) for c in stmt[4]]]
    if k == "filterblock":
        args = [f(a) for a in stmt[2]]
        return [k, stmt[1], args, map_body_exprs(stmt[3], f)]
    if k == "autoescape":
        return [k, stmt[1], map_body_exprs(stmt[2], f)]
    if k == "msafe":
        e1 = f(stmt[2])
        return [k, stmt[1], e1, None if stmt[3] is None else f(stmt[3])]
    raise ValueError("unknown statement kind %r" % (k,))


def map_body_exprs(body, f):
    return [map_stmt_exprs(s, f) for s in body]


def walk_exprs(body):
    """Every top-level expression of the body (recursively through nested bodies), in source order."""
    out = []

    def f(e):
        out.append(e)
        return e

    map_body_exprs(body, f)
    return out


def sub_bodies(stmt):
    k = stmt[0]
    if k == "setblock":
        return [stmt[2]]
    if k == "if":
        return [stmt[2]] + ([stmt[3]] if stmt[3] is not None else [])
    if k in ("for", "with", "macro", "filterblock"):
        return [stmt[3]]
    if k == "autoescape":
        return [stmt[2]]
    return []


def walk_stmts(body):
    for s in body:
        yield s
        for b in sub_bodies(s):
            yield from walk_stmts(b)


def regions(body, outer="env"):
    """(statement, innermost autoescape mode) for every statement; mode is "env" outside any autoescape block."""
    for s in body:
        yield s, outer
        inner = s[1] if s[0] == "autoescape" else outer
        for b in sub_bodies(s):
            yield from regions(b, inner)


# ---------------------------------------------------------------------------------------------------------------------
# printer

def _p(e, style):
    return print_expr(e, style)


def print_body(body, style=0):
    out = []
    for n, s in enumerate(body):
        _print_stmt(s, style + n if style else 0, out)
    return "".join(out)


def _print_stmt(s, style, out):
    k = s[0]
    if k == "text":
        out.append(s[1])
    elif k == "out":
        out.append("{{ %s }}" % _p(s[1], style))
    elif k == "set":
        out.append("{%% set %s = %s %%}" % (s[1], _p(s[2], style)))
    elif k == "setblock":
        out.append("{%% set %s %%}%s{%% endset %%}" % (s[1], print_body(s[2], style)))
    elif k == "if":
        test = s[1] if s[1][0] != "cond" else ["paren", s[1]]  # an if test takes no bare conditional expression
        out.append("{%% if %s %%}%s" % (_p(test, style), print_body(s[2], style)))
        if s[3] is not None:
            out.append("{%% else %%}%s" % print_body(s[3], style))
        out.append("{% endif %}")
    elif k == "for":
        out.append("{%% for %s in %s %%}%s{%% endfor %%}" % (s[1], _p(s[2], style), print_body(s[3], style)))
    elif k == "with":
        out.append("{%% with %s = %s %%}%s{%% endwith %%}" % (s[1], _p(s[2], style), print_body(s[3], style)))
    elif k == "macro":
        params = ", ".join("%s=%s" % (p, _p(d, style)) for p, d in s[2])
        out.append("{%% macro %s(%s) %%}%s{%% endmacro %%}" % (s[1], params, print_body(s[3], style)))
        for c in s[4]:
            out.append("{{ %s }}" % _p(c, style))
    elif k == "filterblock":
        args = ("(%s)" % ", ".join(_p(a, style) for a in s[2])) if s[2] else ""
        out.append("{%% filter %s%s %%}%s{%% endfilter %%}" % (s[1], args, print_body(s[3], style)))
    elif k == "autoescape":
        mode = {"true": "true", "false": "false", "flag": "flag", "notflag": "not flag"}[s[1]]
        out.append("{%% autoescape %s %%}%s{%% endautoescape %%}" % (mode, print_body(s[2], style)))
    elif k == "msafe":
        tail = "" if s[3] is None else ", " + _p(s[3], style)
        out.append("{%% msafe %s %s%s %%}" % (s[1], _p(s[2], style), tail))
    else:
        raise ValueError("unknown statement kind %r" % (k,))


# ---------------------------------------------------------------------------------------------------------------------
# constant lifting

_NO = object()


def _plain_const(node):
    return node[0] == "const"


def unit_value(node):
    """Value of a liftable constant unit, or _NO."""
    k = node[0]
    if k == "const":
        return const_value(node[1])
    if k == "filter" and node[1] == "safe" and not node[3] and not node[4] and node[2][0] == "const" and isinstance(node[2][1], str):
        return Markup(node[2][1])
    if k == "list" and all(_plain_const(x) for x in node[1]):
        return [const_value(x[1]) for x in node[1]]
    if k == "tuple" and all(_plain_const(x) for x in node[1]):
        return tuple(const_value(x[1]) for x in node[1])
    if k == "dict" and all(_plain_const(a) and _plain_const(b) for a, b in node[1]):
        try:
            return {const_value(a[1]): const_value(b[1]) for a, b in node[1]}
        except TypeError:
            return _NO
    return _NO


def count_units(node):
    return sum(1 for n in walk_expr(node) if unit_value(n) is not _NO)


def units(body):
    """Values of all liftable units in lifting order."""
    out = []
    for e in walk_exprs(body):
        for n in walk_expr(e):
            v = unit_value(n)
            if v is not _NO:
                out.append(v)
    return out


def lift(body, chosen):
    """Replace the units whose index is in ``chosen`` by fresh names.  -> (new body, {name: value})"""
    chosen = set(chosen)
    bindings = {}
    counter = [0]

    def tr(node):
        v = unit_value(node)
        if v is not _NO:
            idx = counter[0]
            counter[0] += 1
            if idx in chosen:
                counter[0] += count_units(node) - 1
                name = "c%d" % idx
                bindings[name] = v
                return ["name", name]
        return map_children(node, tr)

    return map_body_exprs(body, tr), bindings


# ---------------------------------------------------------------------------------------------------------------------
# magnitude guard (one implementation, used by the generator while it builds and by the oracle on every case)

_NUM_FILTERS = {"length", "count", "wordcount", "abs", "int", "float", "round", "sum"}


def small_leaf(node):
    return node[0] == "const" and type(node[1]) is int and 0 <= node[1] <= SMALL


def is_numeric(node, numeric_names):
    """Conservative: True only when the value is certainly a number (or the evaluation raises)."""
    k = node[0]
    if k == "const":
        return type(node[1]) in (int, float, bool) or isinstance(node[1], dict)
    if k == "name":
        return node[1] in numeric_names
    if k == "paren":
        return is_numeric(node[1], numeric_names)
    if k == "unary":
        return node[1] == "not" or is_numeric(node[2], numeric_names)
    if k == "bin":
        return is_numeric(node[2], numeric_names) and is_numeric(node[3], numeric_names)
    if k in ("and", "or"):
        return is_numeric(node[1], numeric_names) and is_numeric(node[2], numeric_names)
    if k == "cond":
        return node[3] is not None and is_numeric(node[2], numeric_names) and is_numeric(node[3], numeric_names)
    if k in ("cmp", "test"):
        return True
    if k == "filter":
        return node[1] in _NUM_FILTERS
    return False


_LAZY_FILTERS = {"reverse", "map", "select", "reject", "unique", "batch", "slice", "items", "selectattr", "rejectattr"}
_CONSUMERS = {"list", "join", "sort", "length", "count", "first", "sum", "min", "max"}


def _check_lazy(node, parent):
    """The text of an iterator shows a memory address: a lazily evaluated filter result is always consumed."""
    if node[0] == "filter" and node[1] in _LAZY_FILTERS:
        if not (parent is not None and parent[0] == "filter" and parent[1] in _CONSUMERS and parent[2] is node):
            raise GuardError("iterator-valued filter %r is not consumed by list/join/..." % (node[1],))
    for ch in expr_children(node):
        _check_lazy(ch, node)


def _check_expr(e, numeric_names):
    _check_lazy(e, None)
    for n in walk_expr(e):
        k = n[0]
        if k == "bin" and n[1] == "*":
            if not (small_leaf(n[2]) or small_leaf(n[3]) or (is_numeric(n[2], numeric_names) and is_numeric(n[3], numeric_names))):
                raise GuardError("unbounded repetition: %r" % (n,))
        elif k == "bin" and n[1] == "**":
            r = n[3]
            if not (r[0] == "const" and type(r[1]) is int and 0 <= r[1] <= MAX_EXP):
                raise GuardError("exponent is not a small constant: %r" % (n,))
        elif k == "filter":
            for pos in COUNT_ARGS.get(n[1], ()):
                if pos < len(n[3]):
                    a = n[3][pos]
                    if not (a[0] == "const" and type(a[1]) is int and 0 <= a[1] <= MAX_COUNT):
                        raise GuardError("count argument is not a small constant: %r" % (n,))
            for kw, a in n[4]:
                if kw in COUNT_KWARGS and not (a[0] == "const" and type(a[1]) is int and 0 <= a[1] <= MAX_COUNT):
                    raise GuardError("count keyword is not a small constant: %r" % (n,))
        elif k == "call":
            f = n[1]
            if f[0] == "name" and f[1] == "range":
                if n[3] or n[4] is not None or n[5] is not None or not all(
                        a[0] == "const" and type(a[1]) is int and 0 <= a[1] <= 20 for a in n[2]):
                    raise GuardError("range argument is not a small constant: %r" % (n,))
            elif f[0] == "attr":
                if f[2] not in ("upper", "lower", "strip", "split", "startswith", "replace", "title", "keys", "values", "items", "get"):
                    raise GuardError("method %r is not in the bounded set" % (f[2],))
            elif not (f[0] == "name" and f[1] in MACROS):
                raise GuardError("call of %r" % (f,))


def _guard_body(body, numeric, conditional):
    """numeric: set of names that certainly hold numbers (mutated for this scope)."""
    for s in body:
        k = s[0]
        if k == "text":
            continue
        if k == "out":
            _check_expr(s[1], numeric)
        elif k == "set":
            _check_expr(s[2], numeric)
            num = is_numeric(s[2], numeric)
            if num and not conditional:
                numeric.add(s[1])
            elif not num:
                numeric.discard(s[1])
            # conditional numeric assignment: the name keeps what it had (numeric stays numeric, unknown stays unknown)
        elif k == "setblock":
            _guard_body(s[2], set(numeric), False)
            numeric.discard(s[1])
        elif k == "if":
            _check_expr(s[1], numeric)
            _guard_body(s[2], numeric, True)
            if s[3] is not None:
                _guard_body(s[3], numeric, True)
        elif k == "for":
            _check_expr(s[2], numeric)
            inner = set(numeric)
            it = s[2]
            if it[0] in ("list", "tuple") and all(is_numeric(x, numeric) for x in it[1]):
                inner.add(s[1])
            else:
                inner.discard(s[1])
            _guard_body(s[3], inner, False)
        elif k == "with":
            _check_expr(s[2], numeric)
            inner = set(numeric)
            if is_numeric(s[2], numeric):
                inner.add(s[1])
            else:
                inner.discard(s[1])
            _guard_body(s[3], inner, False)
        elif k == "macro":
            inner = set(numeric)
            for p, d in s[2]:
                _check_expr(d, numeric)
                inner.discard(p)
            _guard_body(s[3], inner, False)
            for c in s[4]:
                _check_expr(c, numeric)
        elif k == "filterblock":
            for a in s[2]:
                _check_expr(a, numeric)
            fake = ["filter", s[1], ["const", ""], s[2], []]
            _check_expr(fake, numeric)
            _guard_body(s[3], set(numeric), False)
        elif k == "autoescape":
            if s[1] not in ("true", "false", "flag", "notflag"):
                raise GuardError("autoescape mode %r" % (s[1],))
            _guard_body(s[2], numeric, conditional)
        elif k == "msafe":
            _check_expr(s[2], numeric)
            if s[3] is not None:
                _check_expr(s[3], numeric)
        else:
            raise GuardError("unknown statement %r" % (k,))


def guard(body):
    """Raises GuardError when the body could make the engine compute something big (never executed: F19)."""
    _guard_body(body, set(), False)


# ---------------------------------------------------------------------------------------------------------------------
# input classes of listed findings (syntactic, never asking the implementation)

_SEQ_FILTERS = {"string", "list", "upper", "lower", "capitalize", "title", "trim", "striptags", "safe", "e", "escape",
                "forceescape", "urlencode", "tojson", "urlize", "join", "sort", "replace", "center", "truncate", "indent",
                "wordwrap", "format", "filesizeformat", "xmlattr", "dictsort"}


def has_name(node):
    return any(n[0] in ("name", "call") for n in walk_expr(node))


def sliceable(node):
    """Conservative: the value is a str / list / tuple, or evaluating it raises, or it is never folded."""
    k = node[0]
    if k == "const":
        return isinstance(node[1], str)
    if k in ("list", "tuple", "concat", "name", "call"):
        return True
    if k == "paren":
        return sliceable(node[1])
    if k == "filter":
        return node[1] in _SEQ_FILTERS
    if k == "bin" and node[1] == "+":
        return sliceable(node[2]) and sliceable(node[3])
    if k == "bin" and node[1] == "*":
        return sliceable(node[2]) or sliceable(node[3])
    if k == "bin" and node[1] == "%":
        return sliceable(node[2])
    if k in ("and", "or"):
        return sliceable(node[1]) and sliceable(node[2])
    if k == "cond":
        return node[3] is not None and sliceable(node[2]) and sliceable(node[3])
    if k == "slice":
        return sliceable(node[1])
    return False


def slice_hazard_expr(e):
    """a slice of a constant that is not a sequence: folded through environment.getitem (undefined), raises at run time"""
    return any(n[0] == "slice" and not sliceable(n[1]) for n in walk_expr(e))


def slice_hazard(body):
    return any(slice_hazard_expr(e) for e in walk_exprs(body))


_LOOKUP_FILTERS = {"first", "last", "min", "max", "attr", "random"}


def _may_be_undefined_const(node):
    return any(n[0] in ("item", "attr", "slice") or (n[0] == "filter" and n[1] in _LOOKUP_FILTERS) for n in walk_expr(node))


def strict_hazard_expr(e):
    """an operand of ~ / a tested operand of and, or, a conditional expression that may be a constant undefined: with
    StrictUndefined the optimizer raises UndefinedError while the template is loaded"""
    for n in walk_expr(e):
        k = n[0]
        if k == "concat":
            probe = n[1]
        elif k in ("and", "or"):
            probe = [n[1]]
        elif k == "cond":
            probe = [n[1]]
        else:
            continue
        if any(_may_be_undefined_const(x) for x in probe):
            return True
    return False


def strict_hazard(body):
    if any(strict_hazard_expr(e) for e in walk_exprs(body)):
        return True
    # MarkSafe / MarkSafeIfAutoescape build Markup(value) at compile time when they sit below a folded operator
    return any(s[0] == "msafe" and s[3] is not None and _may_be_undefined_const(s[2]) for s in walk_stmts(body))


# ---------------------------------------------------------------------------------------------------------------------
# labels


def body_labels(body):
    labs = set()
    for s, region in regions(body):
        k = s[0]
        if k in ("set", "setblock", "if", "for", "with", "macro", "filterblock", "msafe"):
            labs.add("stmt_" + k)
        if k == "autoescape":
            labs.add("block_" + s[1])
            if region != "env":
                labs.add("block_nested")
        if k == "macro" and s[2]:
            labs.add("macro_default")
        if k == "out" and region in ("flag", "notflag"):
            labs.add("out_in_volatile")
    for e in walk_exprs(body):
        for n in walk_expr(e):
            k = n[0]
            if k == "filter":
                if n[1] == "safe":
                    labs.add("markup_const" if n[2][0] == "const" else "safe_filter")
                else:
                    labs.add("filter")
                if (n[3] or n[4]) and any(x[0] != "name" for x in list(n[3]) + [e2 for _, e2 in n[4]]):
                    labs.add("filter_arg")
            elif k == "concat":
                labs.add("concat")
            elif k == "cond":
                labs.add("cond" if n[3] is not None else "cond_no_else")
            elif k == "test":
                labs.add("test")
            elif k == "cmp":
                labs.add("cmp")
            elif k == "bin":
                labs.add("pow" if n[1] == "**" else "arith")
            elif k in ("item", "slice", "attr") and n[1][0] in ("list", "tuple", "dict", "const"):
                labs.add("subscript_literal")
            elif k == "const" and isinstance(n[1], dict):
                labs.add("nonfinite_const")
            elif k in ("and", "or"):
                labs.add("and_or")
    return labs


# ---------------------------------------------------------------------------------------------------------------------
# strategy

STRS = ["<", "<b>", "&", "a&b", "x", "", "abc", "Hello World", "'", '"', "a", "ab", " a ", "12", "7", "3.5", "%s", "&lt;",
        "<a href='x'>k</a>", "é<", "1 < 2", "a b c", "http://x.y/?a=1&b=2", "A", "-4", "0"]
TEXTS = ["x", " ", "<", "&", "|", "<br>", "a&b", "\n", "-", "'"]
FMTS = ["%s", "%d", "<%s>", "%s&%s", "[%5s]", "%.2f", "%r", "100%%"]
FLOATS = [0.0, 0.5, 1.0, 1.5, 2.0, 2.5, 3.25, 0.1, 1e22, 1e-07, 42.55, 1e308, 7.0]
BIGINTS = [100, 255, 1000, 65536, 10**6, 999983]
DKEYS = ["a", "b", "k", "x y", "<"]
NOARG_TESTS = ["defined", "undefined", "none", "boolean", "true", "false", "integer", "float", "number", "string", "mapping",
               "iterable", "sequence", "callable", "escaped"]
CMP_TESTS = ["eq", "ne", "lt", "le", "gt", "ge", "equalto", "lessthan", "greaterthan"]
STR_FILTERS0 = ["upper", "lower", "capitalize", "title", "trim", "striptags", "string", "safe", "e", "escape", "forceescape",
                "reverse", "urlencode", "tojson", "urlize", "first", "last", "wordcount", "list"]
BLOCK_FILTERS = ["upper", "lower", "trim", "escape", "e", "forceescape", "striptags", "safe", "replace", "center", "default",
                 "title", "urlencode", "indent", "string", "length"]

_cache = {}


def templates(max_depth=3, max_stmts=5, nlifts=2):
    key = (max_depth, max_stmts, nlifts)
    if key not in _cache:
        _cache[key] = _templates(max_depth, max_stmts, nlifts)
    return _cache[key]


def _templates(max_depth, max_stmts, nlifts):
    import hypothesis.strategies as st

    pct100 = st.integers(0, 99)
    sampled = {}

    def S(seq):
        k = tuple(map(repr, seq))
        if k not in sampled:
            sampled[k] = st.sampled_from(list(seq))
        return sampled[k]

    ints = {}

    def I(lo, hi):
        if (lo, hi) not in ints:
            ints[(lo, hi)] = st.integers(lo, hi)
        return ints[(lo, hi)]

    @st.composite
    def template(draw):
        def pick(seq):
            return draw(S(seq))

        def chance(pct):
            return draw(pct100) >= 100 - pct

        def c(v):
            return ["const", v]

        # scope: {"types": {name: type}, "numeric": set(names)}
        def names_of(scope, ty):
            if ty == "any":
                return list(scope["types"])
            want = ("int", "float") if ty == "num" else (ty, "any")
            return [n for n, t in scope["types"].items() if t in want]

        def leaf(ty, scope):
            if ty == "num":
                ty = pick(["int", "int", "float"])
            if ty == "any":
                ty = pick(["int", "float", "str", "markup", "bool", "none", "list", "str", "int"])
            cands = names_of(scope, ty)
            if cands and chance(22):
                return ["name", pick(cands)]
            if ty == "bool" and chance(12):
                return ["name", "flag"]
            if ty == "none":
                return c(None)
            if ty == "smallint":
                return c(draw(I(0, 4)))
            if ty == "int":
                if chance(12):
                    return c(pick(BIGINTS))
                return c(draw(I(0, 12)))
            if ty == "float":
                if chance(4):
                    return c({"$": "float", "v": "inf"})
                return c(pick(FLOATS))
            if ty == "str":
                if chance(25):
                    return ["filter", "safe", c(pick(STRS)), [], []]
                return c(pick(STRS))
            if ty == "markup":
                return ["filter", "safe", c(pick(STRS)), [], []]
            if ty == "bool":
                return c(chance(50))
            if ty == "list":
                ety = pick(["int", "str", "any", "int", "str"])
                return ["list", [leaf(ety, {"types": {}, "numeric": set()}) for _ in range(draw(I(0, 3)))]]
            if ty == "dict":
                return dict_lit(0, scope)
            raise ValueError(ty)

        def dict_lit(d, scope):
            pairs = []
            for kname in DKEYS[: draw(I(0, 3))]:
                pairs.append([c(kname), g(pick(["int", "str", "any"]), d - 1, scope)])
            if chance(6):
                pairs.append([["list", []], c(1)])      # unhashable key (F33)
            if chance(10):
                pairs.append([c(draw(I(0, 3))), g("str", d - 1, scope)])
            return ["dict", pairs]

        def mul(l, r, scope):
            if small_leaf(l) or small_leaf(r) or (is_numeric(l, scope["numeric"]) and is_numeric(r, scope["numeric"])):
                return ["bin", "*", l, r]
            return ["bin", "+", l, r]

        def g_int(d, scope):
            k = pick(["arith", "arith", "arith", "arith", "pow", "unary", "length", "intf", "abs", "agg", "item", "dictitem",
                      "cond", "paren", "round"])
            if k == "arith":
                op = pick(["+", "-", "*", "//", "%", "+", "-", "*"])
                l, r = g("int", d - 1, scope), g("int", d - 1, scope)
                return mul(l, r, scope) if op == "*" else ["bin", op, l, r]
            if k == "pow":
                if chance(35):
                    return negpow(scope, chance(50))
                return ["bin", "**", g("int", min(d - 1, 1), scope), c(draw(I(0, MAX_EXP)))]
            if k == "unary":
                return ["unary", pick(["-", "-", "+"]), g("int", d - 1, scope)]
            if k == "length":
                return ["filter", pick(["length", "count", "length"]), g(pick(["list", "str", "dict"]), d - 1, scope), [], []]
            if k == "intf":
                args = [c(draw(I(0, 9)))] if chance(30) else []
                return ["filter", "int", g(pick(["str", "float", "any"]), d - 1, scope), args, []]
            if k == "abs":
                return ["filter", "abs", g("int", d - 1, scope), [], []]
            if k == "agg":
                return ["filter", pick(["sum", "first", "last", "min", "max"]), g("list", d - 1, scope), [], []]
            if k == "item":
                idx = c(draw(I(0, 3))) if chance(80) else ["unary", "-", c(1)]
                return ["item", g(pick(["list", "list", "tuple"]), d - 1, scope), idx]
            if k == "dictitem":
                dd = dict_lit(d, scope)
                if chance(50):
                    return ["item", dd, c(pick(DKEYS))]
                return ["attr", dd, pick(["a", "b", "k"])]
            if k == "cond":
                return ["cond", g("bool", d - 1, scope), g("int", d - 1, scope), g("int", d - 1, scope)]
            if k == "round":
                return ["filter", "int", ["filter", "round", g("float", d - 1, scope), [], []], [], []]
            return ["paren", g("int", d - 1, scope)]

        def negpow(scope, want_float):
            """a base that folds to a negative number under ** with a small constant exponent (mostly even): once the
            exponent is lifted, the folded negative constant must stay one operand (F28, also for floats)"""
            num = (lambda: c(pick([0.5, 1.5, 2.5, 3.25, 2.0]))) if want_float else (lambda: c(draw(I(1, 9))))
            k = pick(["neg", "neg", "sub", "zero_sub", "mul"])
            if k == "neg":
                base = ["unary", "-", num()]
            elif k == "sub":
                base = ["bin", "-", num(), c(pick([10.5, 12.0]) if want_float else draw(I(10, 20)))]
            elif k == "zero_sub":
                base = ["bin", "-", c(0.0 if want_float else 0), num()]
            else:
                base = ["bin", "*", ["unary", "-", num()], num()]
            if chance(30):
                base = ["paren", base]
            exp = c(pick([2, 2, 4, 3, 2]))
            return ["bin", "**", base, exp]

        def g_float(d, scope):
            k = pick(["div", "div", "arith", "floatf", "unary", "round", "cond", "pow", "paren", "negpow"])
            if k == "negpow":
                return negpow(scope, True)
            if k == "div":
                return ["bin", "/", g("num", d - 1, scope), g("num", d - 1, scope)]
            if k == "arith":
                op = pick(["+", "-", "*", "//", "%"])
                l, r = g("float", d - 1, scope), g("num", d - 1, scope)
                return mul(l, r, scope) if op == "*" else ["bin", op, l, r]
            if k == "floatf":
                return ["filter", "float", g(pick(["str", "int", "any"]), d - 1, scope), [c(pick(FLOATS))] if chance(20) else [], []]
            if k == "unary":
                return ["unary", pick(["-", "+"]), g("float", d - 1, scope)]
            if k == "round":
                args = [c(draw(I(0, 3)))] + ([c(pick(["common", "ceil", "floor"]))] if chance(40) else []) if chance(60) else []
                return ["filter", "round", g("float", d - 1, scope), args, []]
            if k == "cond":
                return ["cond", g("bool", d - 1, scope), g("float", d - 1, scope), g("num", d - 1, scope)]
            if k == "pow":
                return ["bin", "**", g("float", min(d - 1, 1), scope), c(draw(I(0, MAX_EXP)))]
            return ["paren", g("float", d - 1, scope)]

        def g_str(d, scope):
            k = pick(["concat", "concat", "concat", "concat", "f0", "f0", "f0", "fargs", "fargs", "fargs", "repeat", "add", "fmt",
                      "method", "slice", "item", "cond", "cond_ne", "join", "join", "default", "paren", "xmlattr", "andor"])
            if k == "concat":
                return ["concat", [g(pick(["str", "str", "markup", "int", "any", "str"]), d - 1, scope) for _ in range(draw(I(2, 3)))]]
            if k == "f0":
                f = pick(STR_FILTERS0)
                node = ["filter", f, g(pick(["str", "str", "str", "any"]), d - 1, scope), [], []]
                # reverse of a non-string is an iterator (its text shows an address): always consumed by join
                return ["filter", "join", node, [], []] if f == "reverse" else node
            if k == "fargs":
                f = pick(["replace", "replace", "center", "truncate", "indent", "wordwrap", "trim", "format", "filesizeformat", "batch"])
                obj = g("str", d - 1, scope)
                if f == "replace":
                    args = [g("str", min(d - 1, 1), scope), g("str", min(d - 1, 1), scope)] + ([c(draw(I(0, 2)))] if chance(25) else [])
                    return ["filter", f, obj, args, []]
                if f == "center":
                    if chance(25):
                        return ["filter", f, obj, [], [["width", c(draw(I(0, 12)))]]]
                    return ["filter", f, obj, [c(draw(I(0, 12)))], []]
                if f == "truncate":
                    args = [c(draw(I(0, 12)))] + ([c(chance(50))] + ([g("str", 0, scope)] if chance(50) else []) if chance(50) else [])
                    return ["filter", f, obj, args, []]
                if f == "indent":
                    args = [c(draw(I(0, 4)))] + ([c(chance(50))] if chance(40) else [])
                    return ["filter", f, ["concat", [obj, c("\n"), g("str", 0, scope)]], args, []]
                if f == "wordwrap":
                    return ["filter", f, obj, [c(draw(I(0, 9)))], []]
                if f == "trim":
                    return ["filter", f, obj, [g("str", 0, scope)], []]
                if f == "format":
                    return ["filter", f, c(pick(FMTS)), [g(pick(["any", "str", "int", "float"]), d - 1, scope) for _ in range(draw(I(0, 2)))], []]
                if f == "filesizeformat":
                    return ["filter", f, g("int", d - 1, scope), [c(True)] if chance(30) else [], []]
                return ["filter", "join", ["filter", "list", ["filter", "batch", g("list", d - 1, scope), [c(draw(I(1, 3)))] + ([g("str", 0, scope)] if chance(40) else []), []], [], []],
                        [c("|")], []]
            if k == "repeat":
                return ["bin", "*", g("str", d - 1, scope), c(draw(I(0, 3)))]
            if k == "add":
                return ["bin", "+", g("str", d - 1, scope), g("str", d - 1, scope)]
            if k == "fmt":
                right = g(pick(["any", "int", "str", "float"]), d - 1, scope)
                if chance(25):
                    right = ["tuple", [right, g("str", 0, scope)]]
                return ["bin", "%", c(pick(FMTS)), right]
            if k == "method":
                m = pick(["upper", "strip", "replace", "title", "startswith"])
                obj = ["attr", g("str", d - 1, scope), m]
                if m == "replace":
                    return ["call", obj, [g("str", 0, scope), g("str", 0, scope)], [], None, None]
                if m == "startswith":
                    return ["call", obj, [g("str", 0, scope)], [], None, None]
                return ["call", obj, [], [], None, None]
            if k == "slice":
                def part():
                    if chance(45):
                        return None
                    if chance(20):
                        return ["unary", "-", c(draw(I(0, 3)))]
                    return c(draw(I(0, 4)))
                return ["slice", g("str", d - 1, scope), part(), part(), part() if chance(30) else None]
            if k == "item":
                return ["item", g(pick(["str", "list"]), d - 1, scope), c(draw(I(0, 3)))]
            if k == "cond":
                return ["cond", g("bool", d - 1, scope), g("str", d - 1, scope), g("str", d - 1, scope)]
            if k == "cond_ne":
                return ["cond", g("bool", d - 1, scope), g("str", d - 1, scope), None]
            if k == "join":
                args = [g("str", min(d - 1, 1), scope)] if chance(70) else []
                return ["filter", "join", g(pick(["list", "list", "str"]), d - 1, scope), args, []]
            if k == "default":
                args = [g("str", d - 1, scope)] + ([c(True)] if chance(40) else [])
                return ["filter", pick(["default", "d"]), g(pick(["any", "str", "none"]), d - 1, scope), args, []]
            if k == "xmlattr":
                return ["filter", "xmlattr", dict_lit(d, scope), [c(chance(50))] if chance(30) else [], []]
            if k == "andor":
                return [pick(["and", "or"]), g("str", d - 1, scope), g("str", d - 1, scope)]
            return ["paren", g("str", d - 1, scope)]

        def test_node(d, scope):
            kind = pick(["noarg", "noarg", "noarg", "cmp", "parity", "divisibleby", "sameas", "in", "case", "exists"])
            neg = chance(25)
            if kind == "noarg":
                return ["test", pick(NOARG_TESTS), g("any", d - 1, scope), [], neg]
            if kind == "cmp":
                ty = pick(["num", "num", "any", "str"])
                return ["test", pick(CMP_TESTS), g(ty, d - 1, scope), [g(ty, d - 1, scope)], neg]
            if kind == "parity":
                return ["test", pick(["odd", "even"]), g("int", d - 1, scope), [], neg]
            if kind == "divisibleby":
                return ["test", "divisibleby", g("int", d - 1, scope), [c(pick([0, 1, 2, 3, 5]))], neg]
            if kind == "sameas":
                return ["test", "sameas", g(pick(["bool", "none", "any"]), d - 1, scope), [c(pick([None, True, False]))], neg]
            if kind == "in":
                return ["test", "in", g("any", d - 1, scope), [g(pick(["list", "str"]), d - 1, scope)], neg]
            if kind == "case":
                return ["test", pick(["lower", "upper"]), g("str", d - 1, scope), [], neg]
            return ["test", pick(["filter", "test"]), c(pick(["upper", "nope", "defined", "odd", "join"])), [], neg]

        def g_bool(d, scope):
            k = pick(["cmp", "cmp", "cmp", "eq", "in", "in", "test", "test", "test", "not", "andor", "andor", "paren", "cond"])
            if k == "cmp":
                n = draw(I(1, 2))
                ty = pick(["num", "num", "int", "str"])
                return ["cmp", g(ty, d - 1, scope), [[pick(["<", "<=", ">", ">=", "==", "!="]), g(ty, d - 1, scope)] for _ in range(n)]]
            if k == "eq":
                return ["cmp", g("any", d - 1, scope), [[pick(["==", "!="]), g("any", d - 1, scope)]]]
            if k == "in":
                cont = pick(["list", "str", "dict"])
                return ["cmp", g("str" if cont == "str" else "any", d - 1, scope), [[pick(["in", "notin"]), g(cont, d - 1, scope)]]]
            if k == "test":
                return test_node(d, scope)
            if k == "not":
                return ["unary", "not", g(pick(["bool", "bool", "any"]), d - 1, scope)]
            if k == "andor":
                return [pick(["and", "or"]), g("bool", d - 1, scope), g("bool", d - 1, scope)]
            if k == "cond":
                return ["cond", g("bool", d - 1, scope), g("bool", d - 1, scope), g("bool", d - 1, scope)]
            return ["paren", g("bool", d - 1, scope)]

        def g_list(d, scope):
            k = pick(["lit", "lit", "lit", "lit", "add", "repeat", "sort", "listf", "reverse", "slice", "range", "map", "select",
                      "unique", "dictsort", "items", "cond", "split"])
            if k == "lit":
                ty = pick(["int", "int", "str", "any", "num", "str"])
                return ["list" if chance(85) else "tuple", [g(ty, d - 1, scope) for _ in range(draw(I(0, 3)))]]
            if k == "add":
                return ["bin", "+", g("list", d - 1, scope), g("list", d - 1, scope)]
            if k == "repeat":
                return ["bin", "*", g("list", d - 1, scope), c(draw(I(0, 3)))]
            if k == "sort":
                kws = [["reverse", c(chance(50))]] if chance(30) else []
                return ["filter", "sort", g(pick(["list", "list", "str"]), d - 1, scope), [], kws]
            if k == "listf":
                return ["filter", "list", g(pick(["list", "str", "dict"]), d - 1, scope), [], []]
            if k == "reverse":
                return ["filter", "list", ["filter", "reverse", g("list", d - 1, scope), [], []], [], []]
            if k == "slice":
                return ["slice", g("list", d - 1, scope), c(draw(I(0, 2))) if chance(60) else None, c(draw(I(0, 4))) if chance(50) else None, None]
            if k == "range":
                return ["filter", "list", ["call", ["name", "range"], [c(draw(I(0, 5))) for _ in range(draw(I(1, 2)))], [], None, None], [], []]
            if k == "map":
                return ["filter", "list", ["filter", "map", g("list", d - 1, scope), [c(pick(["upper", "string", "int", "e", "length"]))], []], [], []]
            if k == "select":
                args = [c(pick(["odd", "even", "string", "number", "none"]))] if chance(80) else []
                return ["filter", "list", ["filter", pick(["select", "reject"]), g("list", d - 1, scope), args, []], [], []]
            if k == "unique":
                return ["filter", "list", ["filter", "unique", g("list", d - 1, scope), [], []], [], []]
            if k == "dictsort":
                return ["filter", "dictsort", dict_lit(d, scope), [], [["reverse", c(True)]] if chance(30) else []]
            if k == "items":
                return ["filter", "list", ["filter", "items", dict_lit(d, scope), [], []], [], []]
            if k == "cond":
                return ["cond", g("bool", d - 1, scope), g("list", d - 1, scope), g("list", d - 1, scope)]
            return ["call", ["attr", g("str", d - 1, scope), "split"], [g("str", 0, scope)] if chance(40) else [], [], None, None]

        def g_any(d, scope):
            k = pick(["typed"] * 8 + ["andor", "andor", "cond_ne", "default", "firstlast", "cond", "attrf", "undef", "paren"])
            if k == "typed":
                return g(pick(["int", "float", "str", "bool", "list", "dict", "int", "str", "markup"]), d, scope, True)
            if k == "andor":
                return [pick(["and", "or"]), g("any", d - 1, scope), g("any", d - 1, scope)]
            if k == "cond_ne":
                return ["cond", g("bool", d - 1, scope), g("any", d - 1, scope), None]
            if k == "default":
                return ["filter", pick(["default", "d"]), g("any", d - 1, scope), [g("any", d - 1, scope)] + ([c(True)] if chance(30) else []), []]
            if k == "firstlast":
                return ["filter", pick(["first", "last", "min", "max"]), g(pick(["list", "str"]), d - 1, scope), [], []]
            if k == "cond":
                return ["cond", g(pick(["bool", "any"]), d - 1, scope), g("any", d - 1, scope), g("any", d - 1, scope)]
            if k == "attrf":
                return ["filter", "attr", g(pick(["dict", "str"]), d - 1, scope), [c(pick(["a", "nope", "k"]))], []]
            if k == "undef":
                return pick([["item", ["list", [c(1)]], c(5)], ["attr", ["dict", []], "nope"], ["item", c("ab"), c(7)],
                             ["cond", c(False), c("x"), None]])
            return ["paren", g("any", d - 1, scope)]

        table = {"int": g_int, "float": g_float, "str": g_str, "bool": g_bool, "list": g_list, "any": g_any}

        def g(ty, d, scope, strict=False):
            if d > 0 and not strict and ty not in ("any", "markup", "none", "dict") and chance(7):
                ty = "any"  # deliberately ill-typed operand
            if ty == "num":
                ty = pick(["int", "int", "float"])
            if ty == "tuple":
                ty = "list"
            if ty == "dict":
                return dict_lit(max(d, 0), scope) if d > 0 else ["dict", []]
            if d <= 0 or ty in ("markup", "none", "smallint") or (d < max_depth and chance(14)):
                return leaf(ty, scope)
            return table[ty](d, scope)

        # ---- statements ---------------------------------------------------------------------------------------
        budget = [draw(I(2, max_stmts * 3))]

        def new_scope(scope):
            return {"types": dict(scope["types"]), "numeric": set(scope["numeric"])}

        def bind(scope, name, ty, e, conditional=False):
            num = is_numeric(e, scope["numeric"])
            if conditional and name in scope["types"] and scope["types"][name] != ty:
                scope["types"][name] = "any"
            else:
                scope["types"][name] = ty
            if num and not conditional:
                scope["numeric"].add(name)
            elif not num:
                scope["numeric"].discard(name)

        def escsens(scope):
            """filters that receive the eval context / operators that look at Markup, on metacharacter-rich constants"""
            k = pick(["join", "join", "replace", "replace", "xmlattr", "urlize", "concat", "add"])
            def sm():
                return leaf(pick(["str", "markup", "str"]), scope)
            if k == "join":
                return ["filter", "join", ["list", [sm() for _ in range(draw(I(1, 3)))]], [sm()] if chance(50) else [], []]
            if k == "replace":
                return ["filter", "replace", sm(), [sm(), sm()], []]
            if k == "xmlattr":
                return ["filter", "xmlattr", ["dict", [[c(kn), sm()] for kn in DKEYS[: draw(I(1, 2))]]], [], []]
            if k == "urlize":
                return ["filter", "urlize", ["concat", [c("http://x.y/?a=1&b=2 "), sm()]], [], []]
            if k == "concat":
                return ["concat", [sm(), sm()]]
            return ["bin", "+", sm(), sm()]

        DMETHODS = ["items", "keys", "values", "get"]

        def method_dict(scope):
            """a constant dict display, usually with a key named like a dict method (attribute-first lookup of d.items)"""
            pairs = []
            if chance(75):
                pairs.append([c(pick(DMETHODS)), leaf(pick(["int", "str", "list"]), {"types": {}, "numeric": set()})])
            for kname in DKEYS[: draw(I(0, 2))]:
                pairs.append([c(kname), leaf(pick(["int", "str"]), {"types": {}, "numeric": set()})])
            if chance(30):
                pairs.append([c(pick(DMETHODS)), c(draw(I(0, 9)))])
            return ["dict", pairs]

        def dictattr_bool(scope):
            m = pick(DMETHODS)
            t = ["test", pick(["callable", "number", "string", "sequence", "mapping", "defined", "integer", "iterable"]),
                 ["attr", method_dict(scope), m], [], chance(25)]
            return t

        def dictattr_list(scope):
            m = pick(["items", "keys", "values"])
            return ["filter", "list", ["call", ["attr", method_dict(scope), m], [], [], None, None], [], []]

        def dictattr_any(scope):
            k = pick(["cond", "get", "list", "bool"])
            if k == "cond":
                return ["cond", dictattr_bool(scope), leaf("str", scope), leaf("str", scope)]
            if k == "get":
                return ["call", ["attr", method_dict(scope), "get"], [c(pick(DMETHODS + ["a"]))], [], None, None]
            if k == "list":
                return dictattr_list(scope)
            return dictattr_bool(scope)

        GKEYS = ["k", "a"]

        def group_rows(scope):
            rows = []
            for _ in range(draw(I(1, 4))):
                rows.append(["dict", [[c("k"), c(pick([1, 2, "x", "<", "y"]))], [c("a"), leaf(pick(["int", "str"]), {"types": {}, "numeric": set()})]]])
            return ["list", rows]

        def grouped(scope):
            args = [c(pick(GKEYS))]
            kws = [["default", c(0)]] if chance(15) else []
            return ["filter", "groupby", group_rows(scope), args, kws]

        def group_expr(scope):
            """groupby over a constant display, consumed through the documented .grouper / .list attributes"""
            k = pick(["map", "first", "index", "maplist"])
            if k == "map":
                return ["filter", "join", ["filter", "map", grouped(scope), [], [["attribute", c("grouper")]]], [c(",")], []]
            if k == "maplist":
                return ["filter", "list", ["filter", "map", grouped(scope), [], [["attribute", c(pick(["list", "grouper"]))]]], [], []]
            if k == "first":
                return ["attr", ["filter", pick(["first", "last"]), grouped(scope), [], []], pick(["grouper", "list"])]
            return ["attr", ["item", grouped(scope), c(draw(I(0, 1)))], pick(["grouper", "list"])]

        def out_expr(d, scope):
            if chance(12):
                return escsens(scope)
            if chance(5):
                return dictattr_any(scope)
            if chance(4):
                return group_expr(scope)
            if chance(7):
                return negpow(scope, chance(60))
            return g(pick(["str", "str", "str", "any", "int", "float", "bool", "list", "markup", "num"]), d, scope)

        def stmt(depth, scope, conditional, in_macro):
            budget[0] -= 1
            kinds = ["out"] * 9 + ["text"] * 3 + ["set", "set", "set", "msafe"]
            if depth > 0 and budget[0] > 0:
                kinds += ["if", "if", "for", "with", "macro", "filterblock", "autoescape", "autoescape", "autoescape", "setblock"]
            k = pick(kinds)
            d = draw(I(1, max_depth))
            if k == "text":
                return ["text", pick(TEXTS)]
            if k == "out":
                return ["out", out_expr(d, scope)]
            if k == "set":
                ty = pick(["int", "str", "float", "str", "any", "bool", "list"])
                if ty in ("int", "float") and chance(15):
                    e = negpow(scope, ty == "float")
                elif ty == "any" and chance(50):
                    e = dictattr_any(scope) if chance(50) else group_expr(scope)
                elif ty == "list" and chance(30):
                    e = dictattr_list(scope) if chance(50) else grouped(scope)
                else:
                    e = escsens(scope) if ty == "str" and chance(25) else g(ty, d, scope)
                name = pick(VARS)
                bind(scope, name, ty, e, conditional)
                return ["set", name, e]
            if k == "msafe":
                e2 = g("str", min(d, 2), scope) if chance(70) else None
                return ["msafe", pick(["ifauto", "ifauto", "always"]), g("str", min(d, 2), scope), e2]
            if k == "if":
                test = dictattr_bool(scope) if chance(12) else g(pick(["bool", "bool", "any"]), d, scope)
                body = stmts(depth - 1, scope, True, in_macro)
                other = stmts(depth - 1, scope, True, in_macro) if chance(50) else None
                return ["if", test, body, other]
            if k == "for":
                ety = pick(["int", "str", "any"])
                it = ["list" if chance(85) else "tuple", [g(ety, min(d, 2) - 1, scope) for _ in range(draw(I(0, 3)))]]
                if chance(20):
                    it = ["filter", pick(["sort", "list"]), it, [], []]
                special = None
                if chance(18):
                    it, ety, special = grouped(scope), "any", "group"
                elif chance(8):
                    it, ety = ["call", ["attr", method_dict(scope), pick(["items", "keys", "values"])], [], [], None, None], "any"
                inner = new_scope(scope)
                name = pick(LOOPVAR)
                inner["types"][name] = ety
                if special == "group":
                    head = [["out", ["attr", ["name", name], "grouper"]], ["text", "="],
                            ["out", pick([["attr", ["name", name], "list"], ["filter", "length", ["attr", ["name", name], "list"], [], []],
                                          ["item", ["name", name], c(0)]])], ["text", ";"]]
                    inner["numeric"].discard(name)
                    return ["for", name, it, head + (stmts(depth - 1, inner, False, in_macro) if chance(40) else [])]
                if it[0] in ("list", "tuple") and all(is_numeric(x, scope["numeric"]) for x in it[1]):
                    inner["numeric"].add(name)
                else:
                    inner["numeric"].discard(name)
                return ["for", name, it, stmts(depth - 1, inner, False, in_macro)]
            if k == "with":
                ty = pick(["int", "str", "any", "float"])
                e = g(ty, d, scope)
                inner = new_scope(scope)
                name = pick(VARS)
                bind(inner, name, ty, e)
                return ["with", name, e, stmts(depth - 1, inner, False, in_macro)]
            if k == "macro":
                if in_macro:
                    return ["out", out_expr(d, scope)]
                name = pick(MACROS)
                params = []
                inner = new_scope(scope)
                for p in PARAMS[: draw(I(0, 2))]:
                    params.append([p, g(pick(["str", "int", "any", "str"]), min(d, 2), scope)])
                    inner["types"][p] = "any"
                    inner["numeric"].discard(p)
                body = stmts(depth - 1, inner, False, True)
                calls = []
                for _ in range(draw(I(1, 2))):
                    args = [g(pick(["str", "int", "any"]), min(d, 2), scope)] if params and chance(40) else []
                    kws = [[params[-1][0], g(pick(["str", "any"]), min(d, 2), scope)]] if params and not args and chance(30) else []
                    call = ["call", ["name", name], args, kws, None, None]
                    if chance(25):
                        call = ["concat", [call, g("str", 1, scope)]]
                    elif chance(15):
                        call = ["filter", pick(["upper", "trim", "e", "string", "length"]), call, [], []]
                    calls.append(call)
                return ["macro", name, params, body, calls]
            if k == "filterblock":
                f = pick(BLOCK_FILTERS)
                args = []
                if f == "replace":
                    args = [g("str", 1, scope), g("str", 1, scope)]
                elif f in ("center", "indent"):
                    args = [c(draw(I(0, 9)))]
                elif f == "default":
                    args = [g("str", 1, scope), c(True)]
                return ["filterblock", f, args, stmts(depth - 1, new_scope(scope), False, in_macro)]
            if k == "autoescape":
                mode = pick(["true", "false", "flag", "flag", "notflag", "true", "false", "flag"])
                return ["autoescape", mode, stmts(depth - 1, scope, conditional, in_macro)]
            if k == "setblock":
                name = pick(VARS)
                body = stmts(depth - 1, new_scope(scope), False, in_macro)
                scope["types"][name] = "str"
                scope["numeric"].discard(name)
                return ["setblock", name, body]
            raise ValueError(k)

        def stmts(depth, scope, conditional, in_macro):
            n = draw(I(1, max_stmts if depth >= 2 else 3))
            out = []
            for _ in range(n):
                out.append(stmt(depth, scope, conditional, in_macro))
                if budget[0] <= 0:
                    break
            return out

        body = stmts(2, {"types": {}, "numeric": set()}, False, False)
        if chance(45):
            body = [["autoescape", pick(["flag", "true", "notflag", "false", "true"]), body]]
        fin = "off"
        if chance(15):
            fin = pick(["none_empty", "env_none_empty", "ctx_none_empty"])
        env = {"autoescape": pick([False, True]), "finalize": fin, "undefined": pick(["default"] * 7 + ["strict", "chainable"])}
        n = len(units(body))
        lifts = []
        for j in range(nlifts):
            if n == 0:
                lifts.append([])
            elif j == 1 and chance(25):
                lifts.append(list(range(n)))
            else:
                bits = draw(I(0, (1 << n) - 1))
                lifts.append([i for i in range(n) if bits >> i & 1])
        guard(body)  # GuardError here = the generator and the guard disagree (harness error)
        return {"env": env, "body": body, "lifts": lifts, "style": draw(I(0, 5)) if chance(30) else 0}

    return template()
