import itertools, pickle, copy, collections
from jinja2.utils import LRUCache
class Model:
    def __init__(s, cap): s.cap=cap; s.d=collections.OrderedDict()  # oldest first
    def get(s,k,default=None):
        if k in s.d: s.d.move_to_end(k); return s.d[k]
        return default
    def getitem(s,k):
        if k in s.d: s.d.move_to_end(k); return s.d[k]
        raise KeyError(k)
    def set(s,k,v):
        if k in s.d: s.d.move_to_end(k)
        elif len(s.d)==s.cap: s.d.popitem(last=False)
        s.d[k]=v
    def delete(s,k):
        del s.d[k]
    def setdefault(s,k,v):
        if k in s.d: s.d.move_to_end(k); return s.d[k]
        s.set(k,v); return v
    def contains(s,k): return k in s.d
    def len(s): return len(s.d)
    def clear(s): s.d.clear()
    def keys(s): return list(reversed(s.d))
    def values(s): return [s.d[k] for k in reversed(s.d)]
    def items(s): return [(k,s.d[k]) for k in reversed(s.d)]
    def rev(s): return list(s.d)
KEYS="abc"
ops=[("get",k) for k in KEYS]+[("getitem",k) for k in KEYS]+[("set",k) for k in KEYS]+[("delete",k) for k in KEYS]+[("setdefault",k) for k in KEYS]+[("contains",k) for k in KEYS[:1]]+[("len",),("clear",),("copy",),("pickle",),("obs",)]
def apply(real, model, op, step):
    name=op[0]
    def both(fr,fm):
        try: a=("ok",fr())
        except KeyError as e: a=("KeyError",)
        except Exception as e: a=("EXC",type(e).__name__,str(e))
        try: b=("ok",fm())
        except KeyError as e: b=("KeyError",)
        return a,b
    if name=="get": return both(lambda:real.get(op[1]),lambda:model.get(op[1]))+ (real,)
    if name=="getitem": return both(lambda:real[op[1]],lambda:model.getitem(op[1]))+(real,)
    if name=="set": return both(lambda:real.__setitem__(op[1],step),lambda:model.set(op[1],step))+(real,)
    if name=="delete": return both(lambda:real.__delitem__(op[1]),lambda:model.delete(op[1]))+(real,)
    if name=="setdefault": return both(lambda:real.setdefault(op[1],step),lambda:model.setdefault(op[1],step))+(real,)
    if name=="contains": return both(lambda:op[1] in real,lambda:model.contains(op[1]))+(real,)
    if name=="len": return both(lambda:len(real),lambda:model.len())+(real,)
    if name=="clear": return both(lambda:real.clear(),lambda:model.clear())+(real,)
    if name=="copy":
        r2=real.copy(); return ("ok",None),("ok",None),r2
    if name=="pickle":
        r2=pickle.loads(pickle.dumps(real)); return ("ok",None),("ok",None),r2
    if name=="obs":
        return both(lambda:(list(real.keys()),list(real.values()),list(real.items()),list(iter(real)),list(reversed(real)),real.capacity),
                    lambda:(model.keys(),model.values(),model.items(),model.keys(),model.rev(),model.cap))+(real,)
n=0;bad=0
for cap in (1,2,3):
  for L in range(1,5):
    for hist in itertools.product(ops,repeat=L):
        real=LRUCache(cap); model=Model(cap); n+=1
        for step,op in enumerate(hist):
            a,b,real=apply(real,model,op,step)
            if a!=b: bad+=1; print("MISMATCH",cap,hist,op,a,b); break
            if len(real)>cap: bad+=1; print("OVERCAP",hist); break
        else:
            a,b,real=apply(real,model,("obs",),99)
            if a!=b: bad+=1; print("FINAL",cap,hist,a,b)
        if bad>5: raise SystemExit
print(n,bad)
