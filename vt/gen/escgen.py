"""G-esc: escaping programs for C15 / C16 (DESIGN.md section 4, C15 and C16).

Public API
----------
    programs(neutral=False, size=22)   strategy -> {"templates": {name: [stmts]}, "entry": "main", "tokens": n}
    datas()                            strategy -> render data dict (JSON), every string carries a unique token
    print_templates(templates, wrap=None, split_macros=False) -> {name: source}
    walk(templates)                    yields every IR list node (statements and expressions)
    harvest_tokens(obj)                -> {token: containing string} for every string found in a JSON value / IR
    TOKEN_RE, lit(s)

Template *text and identifiers are metacharacter-free* (no < > " ' & = and no delimiter characters); all
metacharacters live in data strings and in string literals.  Every data string / literal is built as
``piece* META token META piece*`` where ``token`` is unique (``zq<N>z``).

Two kind levels steer what may be done with a string expression (this is what makes the C15 / C16 oracles
sound, see the property modules):

  rich mode (neutral=False, C15):  lo = carries no filter-made markup: every operation is allowed on it;
                                   hi = may contain the markup urlize / xmlattr / tojson legitimately emit:
                                        only flows through content-preserving sinks (output, ~, +, join items,
                                        set / with / macro arguments, default, conditional expressions)
  neutral mode (neutral=True, C16): lo = a plain string in both autoescape settings: every operation that does
                                        not produce markup itself (no e / escape / forceescape / urlize /
                                        xmlattr / tojson / striptags; never safe);
                                   hi = a rendered fragment (macro / caller / set block / block reference /
                                        module result): only content-preserving sinks, ``["hcat", a, b]`` marks a
                                        ``~`` with such an operand (F5: skipped under a runtime-decided flag)

The kind of a name is fixed by its spelling, so it is flow-insensitive:
  lo variables  x0..x3 (data) p0 p1 (set) e0 e1 (loop / with targets) a0 a1 (macro parameters)
  hi variables  r0 r1 (set / set block) g0 (loop target) h0 (macro parameter)
  macros        m0..m2: result lo in rich mode (body emits no hi), hi in neutral mode;  u0 u1: result hi
  other data    k0 (attribute name with metacharacters) dk (dict with such keys) l0 l1 (lists of strings) d0 (dict) rows (list of dicts k/n/g) tree (rows with children c) n0 n1 (ints)

Never generated: the safe filter, Markup data, autoescape-false regions, gettext, blocks lexically inside an
autoescape region (the printer wraps block *bodies* instead; see C15 finding), lipsum.

IR (JSON lists)
  expressions  ["v", name] ["s", str] ["i", int] ["b", bool] ["none"] ["list", [e]] ["tuple", [e]] ["dict", [[key, e]]]
               ["bin", op, a, b] ["hcat", a, b] ["not", e] ["cond", then, test, else|None]
               ["f", filter, e, [args], [[kw, e]]] ["m", method, e, [args]] ["slice", e, a|None, b|None, step|None]
               ["item", e, key e] ["attr", e, name] ["call", callee e, [args], [[kw, e]]] ["test", e, name, [args], negated]
  statements   ["text", s] ["out", e] ["set", name, e] ["setblock", name, [filter chain], body]
               ["if", test, body, else|None] ["for", [targets], e, body, else|None, recursive] ["with", [[name, e]], body]
               ["macro", name, [[param, default|None]], body] ["callblock", [params], call e, body]
               ["filter", [filter chain], body] ["include", name, ctx|None, ignore_missing] ["import", name, alias, ctx|None]
               ["from", name, [[name, alias|None]], ctx|None] ["block", name, scoped, body] ["extends", name]
               ["autoescape", e, body]  (only produced by the printer's wrap option)
  a filter chain is [[name, [args], [[kw, e]]], ...]
"""
import re

from hypothesis import strategies as st

TOKEN_RE = re.compile(r"zq\d+z")

META = ["<", ">", '"', "'", "&"]
PIECES = [
    "<", ">", '"', "'", "&", "<b>", "</b>", "&lt;", "&gt;", "&amp;", "&amp;lt;", "&#39;", "&#34;", "&quot;", "&gt", "&x", "&&",
    "<<", "<!--", "-->", "<script>", "</script>", "' onx '", '" y "', "<a b>", "</a>", "<img src>", " ", "  ", "a", "Bc", "%", "%s",
    "%d", "{}", "{0}", "{", "}}", "\\", "/", ";", "\n", "\t", "-", ".", ",", "(", ")", "http://ex.org/p?a=1&b=2", "https://ex.org/<i>",
    "www.ex.org", "me@ex.io", "mailto:me@ex.io", "tel:+1", "é", "中", "​<", "\x0c", "#", "?", "@", ":", "|",
]
KEY_META = ["<", '"', "'", "&"]
KEY_PIECES = ["<", '"', "'", "&", "&lt;", "&amp;", "on", "x", "-", "data-", "<<", "&#39;"]
TEXTS = ["a", "-", " ", ".", ":", "[", "]", "(", ")", "x y", "0", "|", "/", "!", "+", ",", "T", "_", "*", "~"]
XKEYS = ["id", "class", "data-v", "title", "k2"]
ROWKEYS = ("k", "n", "g")

LO_DATA = ("x0", "x1", "x2", "x3")
LISTS = ("l0", "l1")

NEUTRAL_BLOCK_FILTERS = ("string", "trim")


def lit(s):
    """Jinja string literal for s (single quoted; backslash, quote and control characters escaped)."""
    out = []
    for ch in s:
        if ch == "\\":
            out.append("\\\\")
        elif ch == "'":
            out.append("\\'")
        elif ch == "\n":
            out.append("\\n")
        elif ch == "\t":
            out.append("\\t")
        elif ord(ch) < 32 or ord(ch) == 127:
            out.append("\\x%02x" % ord(ch))
        else:
            out.append(ch)
    return "'" + "".join(out) + "'"


# ---------------------------------------------------------------------------------------------------------
# printer


def pe(e):
    k = e[0]
    if k == "v":
        return e[1]
    if k == "s":
        return lit(e[1])
    if k == "i":
        return str(e[1])
    if k == "b":
        return "true" if e[1] else "false"
    if k == "none":
        return "none"
    if k == "list":
        return "[" + ", ".join(pe(x) for x in e[1]) + "]"
    if k == "tuple":
        return "(" + "".join(pe(x) + ", " for x in e[1]) + ")"
    if k == "dict":
        return "{" + ", ".join("%s: %s" % (pe(key) if isinstance(key, list) else lit(key), pe(x)) for key, x in e[1]) + "}"
    if k == "bin":
        return "(%s %s %s)" % (pe(e[2]), e[1], pe(e[3]))
    if k == "hcat":
        return "(%s ~ %s)" % (pe(e[1]), pe(e[2]))
    if k == "not":
        return "(not %s)" % pe(e[1])
    if k == "cond":
        if e[3] is None:
            return "(%s if %s)" % (pe(e[1]), pe(e[2]))
        return "(%s if %s else %s)" % (pe(e[1]), pe(e[2]), pe(e[3]))
    if k == "f":
        return "(%s|%s)" % (pe(e[2]), _pfilter(e[1], e[3], e[4]))
    if k == "m":
        return "(%s).%s(%s)" % (pe(e[2]), e[1], ", ".join(pe(x) for x in e[3]))
    if k == "slice":
        return "(%s)[%s:%s%s]" % (pe(e[1]), "" if e[2] is None else pe(e[2]), "" if e[3] is None else pe(e[3]),
                                  "" if e[4] is None else ":" + pe(e[4]))
    if k == "item":
        return "(%s)[%s]" % (pe(e[1]), pe(e[2]))
    if k == "attr":
        return "%s.%s" % (pe(e[1]) if e[1][0] in ("v", "attr", "item") else "(%s)" % pe(e[1]), e[2])
    if k == "call":
        parts = [pe(x) for x in e[2]] + ["%s=%s" % (kw, pe(x)) for kw, x in e[3]]
        return "%s(%s)" % (pe(e[1]), ", ".join(parts))
    if k == "test":
        args = "(%s)" % ", ".join(pe(x) for x in e[3]) if e[3] else ""
        return "(%s is %s%s%s)" % (pe(e[1]), "not " if e[4] else "", e[2], args)
    raise ValueError("unknown expression %r" % (e,))


def _pfilter(name, args, kwargs):
    parts = [pe(x) for x in args] + ["%s=%s" % (kw, pe(x)) for kw, x in kwargs]
    return name + ("(%s)" % ", ".join(parts) if parts else "")


def _pchain(chain):
    return "|".join(_pfilter(n, a, k) for n, a, k in chain)


def _ctx(c):
    return "" if c is None else (" with context" if c else " without context")


class Opts:
    """Printer options: ``flag`` = source of the expression of the autoescape regions to open (None: no regions),
    ``ext`` = suffix appended to every referenced template name (include / import / from / extends) except missing ones."""

    def __init__(self, flag=None, ext="", missing=("nope",)):
        self.flag, self.ext, self.missing = flag, ext, missing

    def name(self, n):
        return n if n in self.missing else n + self.ext


_PLAIN = Opts()


def pbody(body, o=_PLAIN):
    return "".join(ps(s, o) for s in body)


def _region(flag, inner):
    return "{%% autoescape %s %%}%s{%% endautoescape %%}" % (flag, inner)


def _wrapped(body, o):
    inner = pbody(body, o)
    return inner if o.flag is None else _region(o.flag, inner)


def _params(ps_):
    return ", ".join(p if d is None else "%s=%s" % (p, pe(d)) for p, d in ps_)


def ps(s, o=_PLAIN):
    """Source of one statement.  ``o.flag`` is only consulted for block bodies (a block tag is compiled with the
    template-level eval context, so a region has to be opened inside it)."""
    k = s[0]
    if k == "text":
        return s[1]
    if k == "out":
        return "{{ %s }}" % pe(s[1])
    if k == "set":
        return "{%% set %s = %s %%}" % (s[1], pe(s[2]))
    if k == "setblock":
        return "{%% set %s%s %%}%s{%% endset %%}" % (s[1], " | " + _pchain(s[2]) if s[2] else "", pbody(s[3], o))
    if k == "if":
        r = "{%% if %s %%}%s" % (pe(s[1]), pbody(s[2], o))
        if s[3] is not None:
            r += "{% else %}" + pbody(s[3], o)
        return r + "{% endif %}"
    if k == "for":
        r = "{%% for %s in %s%s %%}%s" % (", ".join(s[1]), pe(s[2]), " recursive" if s[5] else "", pbody(s[3], o))
        if s[4] is not None:
            r += "{% else %}" + pbody(s[4], o)
        return r + "{% endfor %}"
    if k == "with":
        return "{%% with %s %%}%s{%% endwith %%}" % (", ".join("%s = %s" % (n, pe(x)) for n, x in s[1]), pbody(s[2], o))
    if k == "macro":
        return "{%% macro %s(%s) %%}%s{%% endmacro %%}" % (s[1], _params(s[2]), pbody(s[3], o))
    if k == "callblock":
        return "{%% call%s %s %%}%s{%% endcall %%}" % ("(%s)" % ", ".join(s[1]) if s[1] else "", pe(s[2]), pbody(s[3], o))
    if k == "filter":
        return "{%% filter %s %%}%s{%% endfilter %%}" % (_pchain(s[1]), pbody(s[2], o))
    if k == "include":
        return "{%% include %s%s%s %%}" % (lit(o.name(s[1])), " ignore missing" if s[3] else "", _ctx(s[2]))
    if k == "import":
        return "{%% import %s as %s%s %%}" % (lit(o.name(s[1])), s[2], _ctx(s[3]))
    if k == "from":
        names = ", ".join(a if b is None else "%s as %s" % (a, b) for a, b in s[2])
        return "{%% from %s import %s%s %%}" % (lit(o.name(s[1])), names, _ctx(s[3]))
    if k == "block":
        return "{%% block %s%s %%}%s{%% endblock %%}" % (s[1], " scoped" if s[2] else "", _wrapped(s[3], o))
    if k == "extends":
        return "{%% extends %s %%}" % lit(o.name(s[1]))
    if k == "autoescape":
        return "{%% autoescape %s %%}%s{%% endautoescape %%}" % (pe(s[1]), pbody(s[2], o))
    raise ValueError("unknown statement %r" % (s,))


def print_template(body, wrap=None, split_macros=False, ext=""):
    """Source of a template body.  ``wrap`` (source of a flag expression, e.g. "true" or "fl") puts the whole body into
    ONE ``{% autoescape wrap %}`` region (a region is a scope: names assigned in it are neither visible after it nor
    exported, so region modes are only meaningful for programs without blocks / imports, see ``region_ok``).  With
    ``split_macros`` the top-level macro definitions are hoisted in front of the region with their *bodies* wrapped
    (the macro is then defined with autoescape off and called with autoescape on).  ``ext`` is appended to every
    referenced template name."""
    o = Opts(wrap, ext)
    if wrap is None:
        return pbody(body, o)
    head, rest = [], []
    for s in body:
        if s[0] == "macro" and split_macros:
            head.append("{%% macro %s(%s) %%}%s{%% endmacro %%}" % (s[1], _params(s[2]), _wrapped(s[3], o)))
        else:
            rest.append(ps(s, Opts(None, ext)))
    return "".join(head) + _region(wrap, "".join(rest))


def region_ok(templates):
    """True when the program can be rendered inside autoescape regions without changing what its names mean: no block,
    extends, import or from statement (those need top-level exports, and a region is a scope)."""
    return not any(n[0] in ("block", "extends", "import", "from") and len(n) >= 2 and not isinstance(n[1], list) for n in walk(templates))


def print_templates(templates, wrap=None, split_macros=False, ext=""):
    return {name + ext: print_template(body, wrap, split_macros, ext) for name, body in templates.items()}


# ---------------------------------------------------------------------------------------------------------
# traversal


def walk(node):
    """Yield every IR list whose first item is a tag string (statements and expressions alike)."""
    if isinstance(node, dict):
        for v in node.values():
            yield from walk(v)
    elif isinstance(node, list):
        if node and isinstance(node[0], str):
            yield node
        for x in node:
            if isinstance(x, (list, dict)):
                yield from walk(x)


def harvest_tokens(obj, out=None):
    """{token: the string that contains it} over every string reachable in a JSON value."""
    out = {} if out is None else out
    if isinstance(obj, str):
        for t in TOKEN_RE.findall(obj):
            out.setdefault(t, obj)
    elif isinstance(obj, dict):
        for k, v in obj.items():
            harvest_tokens(k, out)
            harvest_tokens(v, out)
    elif isinstance(obj, list):
        for x in obj:
            harvest_tokens(x, out)
    return out


# ---------------------------------------------------------------------------------------------------------
# filter signatures (argument name, code, optional).  codes: i small int, w width int, s lo string, b bool,
# I int or lo string, S list of scheme strings, n number, A attribute name of rows, T test name


def _spec(text):
    out = []
    for part in text.split():
        name, code = part.split(":")
        out.append((name, code.rstrip("?"), code.endswith("?")))
    return out


SPEC = {k: _spec(v) for k, v in {
    "indent": "width:I? first:b? blank:b?",
    "truncate": "length:w? killwords:b? end:s? leeway:i?",
    "wordwrap": "width:w? break_long_words:b? wrapstring:s? break_on_hyphens:b?",
    "urlize": "trim_url_limit:w? nofollow:b? target:s? rel:s? extra_schemes:S?",
    "replace": "old:s new:s count:i?",
    "center": "width:w?",
    "default": "default_value:s? boolean:b?",
    "d": "default_value:s? boolean:b?",
    "trim": "chars:s?",
    "tojson": "indent:i?",
    "xmlattr": "autospace:b?",
    "batch": "linecount:i fill_with:s?",
    "slice": "slices:i fill_with:s?",
    "join": "d:s? attribute:A?",
    "sort": "reverse:b? case_sensitive:b?",
    "unique": "case_sensitive:b?",
    "int": "default:i? base:i?",
    "float": "default:n?",
    "round": "precision:i?",
    "filesizeformat": "binary:b?",
    "dictsort": "case_sensitive:b? by:s? reverse:b?",
    "max": "case_sensitive:b?",
    "min": "case_sensitive:b?",
    "format": "a:s? b:s? c:s?",
}.items()}

# string -> string filters usable on lo operands in rich mode
SS_RICH = ["capitalize", "lower", "upper", "title", "trim", "string", "striptags", "e", "escape", "forceescape", "urlencode",
           "center", "indent", "truncate", "wordwrap", "replace", "default", "d", "format", "reverse", "first", "last",
           "pprint", "indent", "replace", "truncate", "wordwrap", "format"]
# on plain strings in neutral mode (nothing that produces markup or consumes it)
SS_NEUTRAL = [f for f in SS_RICH if f not in ("striptags", "e", "escape", "forceescape")]
# filters of filter sections / filtered set blocks in rich mode (finding N1 excludes the others)
BLOCK_RICH = ["capitalize", "lower", "upper", "title", "trim", "string", "e", "escape", "forceescape", "urlencode", "center", "indent",
              "truncate", "wordwrap", "replace", "format", "reverse", "first", "last", "indent", "replace", "truncate"]
BLOCK_SPEC = {"wordwrap": _spec("width:w? break_long_words:b?")}
MARKUP_DROPPERS = ("title", "wordwrap", "urlencode", "first", "last", "pprint", "striptags")
N1_FILTERS = ["default", "d", "join", "wordwrap", "striptags"]
N1_SPEC = {"default": _spec("default_value:s boolean:b?"), "d": _spec("default_value:s boolean:b?"), "join": _spec("d:s"),
           "wordwrap": _spec("width:w break_long_words:b wrapstring:s")}


def n1_class(templates):
    """True when a filter section / filtered set block uses a filter whose plain result is emitted as markup (finding N1 =
    F48): default / d with a non-constant-safe argument, join with a separator, wordwrap with a wrapstring, striptags,
    batch, slice (pprint's repr quotes are excluded for the same reason)."""
    for n in walk(templates):
        if n[0] in ("filter", "setblock") and len(n) >= 3:
            chain = n[1] if n[0] == "filter" else n[2]
            for i, (name, args, kwargs) in enumerate(chain):
                if name in ("striptags", "batch", "slice", "pprint"):
                    return True
                if i and chain[i - 1][0] in MARKUP_DROPPERS and (args or kwargs):
                    return True  # title|replace(a, x): the first filter returned a plain string, the second inserts x raw
                if name in ("default", "d") and (args or kwargs) and (args or [kwargs[0][1]])[0] != ["s", "-"]:
                    return True
                if name == "join" and (args or kwargs):
                    return True
                if name == "wordwrap" and (len(args) >= 3 or any(kw == "wrapstring" for kw, _ in kwargs)):
                    return True
    return False


def has_blocks(templates):
    return any(n[0] == "block" and len(n) == 4 and isinstance(n[1], str) for n in walk(templates))

# content-preserving filters allowed on hi operands (both modes)
SS_HI = ["string", "trim", "default", "d"]
STR_METHODS = ["upper", "lower", "title", "capitalize", "swapcase", "casefold", "strip", "lstrip", "rstrip", "replace", "format",
               "join", "center", "ljust", "rjust", "zfill", "expandtabs", "removeprefix", "removesuffix"]
LIST_METHODS = ["split", "rsplit", "splitlines", "partition", "rpartition"]
TESTS_S = ["defined", "string", "none", "lower", "upper", "sequence", "iterable", "mapping", "number", "undefined", "escaped", "true", "false"]


class _Lex:
    __slots__ = ("lo", "hi", "macros", "emit_hi", "macro_kind", "caller", "loop", "depth", "blocks", "libs", "rowvars", "in_block",
                 "super_ok", "toplevel", "has_inc", "used")

    def __init__(self):
        self.lo, self.hi = list(LO_DATA), []
        self.macros = {}      # name -> {"params": [(p, kind)], "caller": None|0|1, "hi": bool, "callee": expr}
        self.emit_hi = True
        self.macro_kind = None  # None | "m" | "u": the macro whose body we are in (for caller())
        self.caller = None      # arity of caller() available here
        self.loop = False
        self.depth = 0
        self.blocks = []        # block names callable through self.
        self.libs = {}          # alias -> {"macros": {...}, "lo": [...], "hi": [...]}
        self.rowvars = []
        self.in_block = False
        self.super_ok = False
        self.toplevel = False
        self.has_inc = False
        self.used = set()       # macro names already defined or imported in this template (each is defined once)

    def child(self, share=False, **kw):
        c = _Lex()
        c.lo, c.hi = (self.lo, self.hi) if share else (list(self.lo), list(self.hi))
        c.macros = self.macros if share else dict(self.macros)
        c.libs = self.libs if share else dict(self.libs)
        c.emit_hi, c.macro_kind, c.caller, c.loop = self.emit_hi, self.macro_kind, self.caller, self.loop
        c.depth, c.blocks, c.rowvars = self.depth + 1, self.blocks, list(self.rowvars)
        c.in_block, c.super_ok, c.has_inc, c.used = self.in_block, self.super_ok, self.has_inc, self.used
        for k, v in kw.items():
            setattr(c, k, v)
        return c


class _Gen:
    def __init__(self, tape, neutral, size):
        self.tape, self.pos, self.neutral, self.budget = tape, 0, neutral, size
        self.ntok = 0
        self.max_depth = 3
        self.cdepth = 0  # nesting of macro / caller calls inside call arguments (bounded: results repeat their arguments)

    # -- small draws: every choice reads one byte of the Hypothesis-drawn tape (0 = the first, simplest alternative;
    #    an exhausted tape keeps answering 0), which is ~30x cheaper than one st.integers() draw per choice
    def i(self, lo, hi):
        if self.pos >= len(self.tape):
            return lo
        b = self.tape[self.pos]
        self.pos += 1
        return lo + b % (hi - lo + 1)

    def chance(self, num, den):
        return self.i(0, den - 1) >= den - num

    def pick(self, seq):
        return seq[self.i(0, len(seq) - 1)]

    def weighted(self, table):
        table = [t for t in table if t[1] > 0]
        r = self.i(0, sum(w for _, w in table) - 1)
        for v, w in table:
            if r < w:
                return v
            r -= w
        raise AssertionError

    def token(self):
        self.ntok += 1
        return "zq%dz" % (900 + self.ntok)  # literals: 901.. ; data strings use 1..

    def rich_key(self):
        """A literal attribute name: key pieces, META (not >), token."""
        return "".join(self.pick(KEY_PIECES) for _ in range(self.i(0, 2))) + self.pick(KEY_META) + self.token()

    def rich(self):
        """A literal string: pieces META token META pieces."""
        pre = "".join(self.pick(PIECES) for _ in range(self.i(0, 2)))
        post = "".join(self.pick(PIECES) for _ in range(self.i(0, 2)))
        return pre + self.pick(META) + self.token() + self.pick(META) + post

    # -- atoms ----------------------------------------------------------------------------------------
    def s_lit(self):
        if self.chance(1, 5):
            return ["s", self.pick(["", " ", "-", ", ", "<", "&", '"', "'", ">", "<br>", "&amp;", "%s", "{}", "\n", "Q", "z", ";"])]
        return ["s", self.rich()]

    def int_e(self, lex, small=True):
        k = self.weighted([("lit", 5), ("var", 3), ("len", 1), ("loop", 2 if lex.loop else 0), ("sum", 1)])
        if k == "sum":
            return ["f", "sum", ["v", "rows"], [], [["attribute", ["s", "n"]]] + ([["start", ["i", 2]]] if self.chance(1, 2) else [])]
        if k == "lit":
            return ["i", self.i(0, 6 if small else 30)]
        if k == "var":
            return ["v", self.pick(("n0", "n1"))]
        if k == "len":
            return ["f", self.pick(("length", "count", "wordcount")), ["v", self.pick(lex.lo)], [], []]
        return ["attr", ["v", "loop"], self.pick(("index", "index0", "revindex", "length"))]

    def width(self, lex):
        if self.chance(1, 4):
            return ["v", self.pick(("n0", "n1"))]
        return ["i", self.pick((0, 1, 2, 3, 5, 8, 12, 20, 40))]

    def lo_atom(self, lex):
        table = [("var", 10), ("lit", 4), ("litem", 2), ("ditem", 2), ("row", 2 if lex.rowvars else 0), ("rows0", 1),
                 ("libvar", 2 if any(d["lo"] for d in lex.libs.values()) else 0)]
        if not self.neutral:
            table += [("mcall", 5 if self.callables(lex, False) else 0), ("caller", 4 if lex.caller is not None and lex.macro_kind == "m" and self.cdepth < 2 else 0),
                      ("self", 2 if lex.blocks else 0), ("super", 3 if lex.super_ok else 0)]
        k = self.weighted(table)
        if k == "var":
            return ["v", self.pick(lex.lo)]
        if k == "lit":
            return self.s_lit()
        if k == "litem":
            return ["item", ["v", self.pick(LISTS)], ["i", self.i(0, 2)]] if self.chance(1, 2) else ["f", self.pick(("first", "last")), ["v", self.pick(LISTS)], [], []]
        if k == "ditem":
            key = self.pick(XKEYS[:4])
            return ["attr", ["v", "d0"], key] if key.isidentifier() and self.chance(1, 2) else ["item", ["v", "d0"], ["s", key]]
        if k == "row":
            return ["attr", ["v", self.pick(lex.rowvars)], self.pick(("k", "k", "g"))]
        if k == "rows0":
            return ["attr", ["item", ["v", "rows"], ["i", self.i(0, 1)]], "k"]
        if k == "libvar":
            alias = self.pick([a for a, d in lex.libs.items() if d["lo"]])
            return ["attr", ["v", alias], self.pick(lex.libs[alias]["lo"])]
        if k == "mcall":
            return self.call(lex, self.pick(self.callables(lex, False)))
        if k == "caller":
            return self.caller_call(lex)
        if k == "self":
            return ["call", ["attr", ["v", "self"], self.pick(lex.blocks)], [], []]
        if k == "super":
            return ["call", ["v", "super"], [], []]
        raise AssertionError(k)

    def callables(self, lex, hi):
        """Names (plain or alias-qualified) of visible macros whose result kind is hi / lo."""
        if self.cdepth >= 2:
            return []
        return [n for n, d in lex.macros.items() if d["hi"] == hi and d["caller"] is None]

    def call(self, lex, name, with_caller=False):
        d = lex.macros[name]
        args, kwargs = [], []
        kw_mode = False
        self.cdepth += 1
        try:
            return self._call(lex, d)
        finally:
            self.cdepth -= 1

    def _call(self, lex, d):
        args, kwargs = [], []
        kw_mode = False
        for p, kind, has_default in d["params"]:
            if has_default and self.chance(1, 3):
                kw_mode = True
                continue
            e = self.lo_s(lex, 1) if kind == "lo" else self.any_s(lex, 1)
            if kw_mode or self.chance(1, 5):
                kw_mode = True
                kwargs.append([p, e])
            else:
                args.append(e)
        return ["call", d["callee"], args, kwargs]

    def caller_call(self, lex):
        self.cdepth += 1
        try:
            return ["call", ["v", "caller"], [self.lo_s(lex, 1) for _ in range(lex.caller)], []]
        finally:
            self.cdepth -= 1

    # -- arguments for a filter -----------------------------------------------------------------------
    def filter_args(self, lex, name, d, spec=None, const=False):
        spec = SPEC.get(name, []) if spec is None else spec
        args, kwargs = [], []
        kw_mode = False
        for pname, code, optional in spec:
            if optional and not self.chance(2, 3):
                kw_mode = True
                continue
            e = self.const_arg(code) if const else self.arg(lex, code, d)
            if name == "replace" and pname == "old" and self.chance(3, 4):
                e = ["s", self.pick(("z", "q", "a", " ", ";", "&", "<", "1", "zq", "t;"))]
            if kw_mode or (optional and self.chance(1, 4)):
                kw_mode = True
                kwargs.append([pname, e])
            else:
                args.append(e)
        return args, kwargs

    def const_arg(self, code):
        if code == "s" or (code == "I" and self.chance(1, 2)):
            return self.s_lit()
        if code == "b":
            return ["b", self.chance(1, 2)]
        return ["i", self.pick((2, 0, 1, 3, 5, 8, 12, 20, 40))]

    def arg(self, lex, code, d):
        if code == "s":
            return self.lo_s(lex, min(d, 1))
        if code == "i":
            return self.int_e(lex)
        if code == "w":
            return self.width(lex)
        if code == "b":
            return ["b", self.chance(1, 2)]
        if code == "I":
            return self.lo_s(lex, min(d, 1)) if self.chance(1, 2) else self.int_e(lex)
        if code == "S":
            return ["list", [["s", self.pick(("tel:", "x-tok:", "ftp://", "git+ssh:"))] for _ in range(self.i(1, 2))]]
        if code == "n":
            return ["i", self.i(0, 9)]
        if code == "A":
            return ["s", "k"]
        raise AssertionError(code)

    # -- lo strings -----------------------------------------------------------------------------------
    def lo_s(self, lex, d=2):
        if d <= 0:
            return self.lo_atom(lex)
        k = self.weighted([("atom", 14), ("filter", 14), ("method", 6), ("cat", 4), ("add", 2), ("mul", 1), ("mod", 2), ("slice", 3),
                           ("cond", 2), ("fromlist", 6), ("fromint", 1), ("fromdict", 2), ("mapped", 2)])
        if k == "atom":
            return self.lo_atom(lex)
        if k == "filter":
            name = self.pick(SS_NEUTRAL if self.neutral else SS_RICH)
            if name == "format":
                if self.chance(1, 4):
                    return ["f", "format", ["s", self.pick(("%(a)s", "<%(a)s>&"))], [], [["a", self.lo_s(lex, d - 1)]]]
                fmts = (("%s", 1), ("<%s>", 1), ("%s&%s", 2), ("'%s'", 1), ("%5s|%-3s", 2), ("%r", 1), ("%s%%", 1), ('"%s"', 1))
                fmt, n = self.pick(fmts)
                if self.chance(1, 4):
                    return ["f", "format", self.lo_s(lex, d - 1), [self.lo_s(lex, 0) for _ in range(self.i(0, 2))], []]
                return ["f", "format", ["s", fmt], [self.lo_s(lex, d - 1) for _ in range(n)], []]
            args, kwargs = self.filter_args(lex, name, d - 1)
            return ["f", name, self.lo_s(lex, d - 1), args, kwargs]
        if k == "method":
            name = self.pick(STR_METHODS)
            recv = self.lo_s(lex, d - 1)
            if name in ("strip", "lstrip", "rstrip"):
                args = [self.lo_s(lex, 0)] if self.chance(1, 2) else []
            elif name == "replace":
                args = [self.lo_s(lex, 0), self.lo_s(lex, 0)]
            elif name == "format":
                recv = ["s", self.pick(("{}", "<{}>", "{0}&{1}", "{a}", "{!r}", "{:>6}", "{0}{0}", "'{}'"))] if self.chance(2, 3) else recv
                args = [self.lo_s(lex, 0) for _ in range(self.i(0, 2))]
            elif name == "join":
                args = [self.list_e(lex, d - 1)]
            elif name in ("center", "ljust", "rjust"):
                args = [self.width(lex)] + ([["s", self.pick(("<", "&", "'", "*"))]] if self.chance(1, 2) else [])
            elif name == "zfill":
                args = [self.width(lex)]
            elif name in ("removeprefix", "removesuffix"):
                args = [self.lo_s(lex, 0)]
            else:
                args = []
            return ["m", name, recv, args]
        if k == "cat":
            return ["bin", "~", self.lo_s(lex, d - 1), self.lo_s(lex, d - 1) if self.chance(3, 4) else self.int_e(lex)]
        if k == "add":
            return ["bin", "+", self.lo_s(lex, d - 1), self.lo_s(lex, d - 1)]
        if k == "mul":
            return ["bin", "*", self.lo_s(lex, d - 1), ["i", self.i(0, 3)]]
        if k == "mod":
            fmt = ["s", self.pick(("%s", "<%s>", "[%s]&", '"%s"', "%5s", "%s%%"))] if self.chance(2, 3) else self.lo_s(lex, d - 1)
            return ["bin", "%", fmt, self.lo_s(lex, d - 1)]
        if k == "slice":
            e = self.lo_s(lex, d - 1)
            if self.chance(1, 4):
                return ["item", e, ["i", self.pick((0, 1, -1, 3))]]
            a = ["i", self.i(0, 6)] if self.chance(1, 2) else None
            b = ["i", self.pick((-1, 3, 6, 12))] if self.chance(1, 2) else None
            return ["slice", e, a, b, ["i", self.pick((-1, 2))] if self.chance(1, 5) else None]
        if k == "cond":
            return ["cond", self.lo_s(lex, d - 1), self.test(lex), self.lo_s(lex, d - 1) if self.chance(3, 4) else None]
        if k == "fromlist":
            lst = self.list_e(lex, d - 1)
            kk = self.weighted([("join", 8), ("pick", 3), ("string", 1)])
            if kk == "join":
                args, kwargs = self.filter_args(lex, "join", d - 1)
                if any(kw == "attribute" for kw, _ in kwargs) or len(args) > 1:
                    return ["f", "join", ["v", self.pick(("rows", "tree"))], args, kwargs]
                return ["f", "join", lst, args, kwargs]
            if kk == "pick":
                name = self.pick(("first", "last", "min", "max", "random"))
                args, kwargs = self.filter_args(lex, name, d - 1)
                return ["f", name, lst, args, kwargs]
            return ["f", self.pick(("string", "pprint")), lst, [], []]
        if k == "fromint":
            kk = self.pick(("string", "filesizeformat", "format", "round", "abs", "float", "int"))
            if kk == "format":
                return ["f", "format", ["s", self.pick(("%d", "<%03d>", "%x&"))], [self.int_e(lex)], []]
            if kk in ("float", "int"):
                args, kwargs = self.filter_args(lex, kk, 0)
                return ["f", kk, self.lo_s(lex, d - 1) if self.chance(1, 2) else self.int_e(lex), args if kk == "float" else args[:1], []]
            args, kwargs = self.filter_args(lex, kk, 0)
            return ["f", kk, self.int_e(lex, small=False), args, kwargs]
        if k == "fromdict":
            kk = self.pick(("urlencode", "pprint", "string", "dictsort", "items", "values", "keys", "dict"))
            dd = ["v", "d0"] if self.chance(2, 3) else ["dict", [[self.pick(XKEYS), self.lo_s(lex, 0)] for _ in range(self.i(0, 2))]]
            if kk == "dictsort":
                return ["f", "string", ["f", "dictsort", dd, [], [["by", ["s", self.pick(("key", "value"))]]] if self.chance(1, 2) else []], [], []]
            if kk == "items":
                return ["f", "string", ["f", "list", ["f", "items", dd, [], []], [], []], [], []]
            if kk in ("values", "keys"):
                return ["f", "join", ["call", ["attr", dd, kk], [], []], [self.lo_s(lex, 0)], []]
            if kk == "dict":
                return ["f", "string", ["call", ["v", "dict"], [], [["k", self.lo_s(lex, 0)]]], [], []]
            return ["f", kk, dd, [], []]
        if k == "mapped":
            return ["f", "join", self.list_e(lex, d), [self.lo_s(lex, 0)] if self.chance(1, 2) else [], []]
        raise AssertionError(k)

    # -- lists of lo strings --------------------------------------------------------------------------
    def list_e(self, lex, d=1):
        k = self.weighted([("var", 6), ("lit", 4), ("split", 3), ("chars", 1), ("rows", 4), ("xform", 6 if d > 0 else 0), ("dict", 2)])
        if k == "var":
            return ["v", self.pick(LISTS)]
        if k == "lit":
            return ["list", [self.lo_s(lex, max(d - 1, 0)) for _ in range(self.i(0, 3))]]
        if k == "split":
            name = self.pick(LIST_METHODS)
            args = [] if name == "splitlines" else [["s", self.pick((" ", "&", "<", ";", "/", "'", "q", "z"))]]
            if name in ("split", "rsplit") and self.chance(1, 3):
                args = []
            e = ["m", name, self.lo_s(lex, max(d - 1, 0)), args]
            return ["f", "list", e, [], []] if name.endswith("partition") else e
        if k == "chars":
            return ["f", "list", self.lo_s(lex, 0), [], []]
        if k == "rows":
            rows = ["v", self.pick(("rows", "rows", "tree"))]
            kk = self.pick(("map", "selectattr", "rejectattr", "sort", "unique", "groupby", "groupby2", "maxrow"))
            if kk == "map":
                return ["f", "list", ["f", "map", rows, [], [["attribute", ["s", "k"]]] + ([["default", self.lo_s(lex, 0)]] if self.chance(1, 3) else [])], [], []]
            if kk in ("selectattr", "rejectattr"):
                args = [["s", "n"]] + self.pick(([], [["s", "odd"]], [["s", "gt"], ["i", 1]]))
                if self.chance(1, 3):
                    args = [["s", "k"], ["s", "in"], ["v", self.pick(LISTS)]]
                return ["f", "list", ["f", "map", ["f", kk, rows, args, []], [], [["attribute", ["s", "k"]]]], [], []]
            if kk == "sort":
                return ["f", "list", ["f", "map", ["f", "sort", rows, [], [["attribute", ["s", self.pick(("k", "n", "g,k"))]]]], [], [["attribute", ["s", "k"]]]], [], []]
            if kk == "unique":
                return ["f", "list", ["f", "map", ["f", "unique", rows, [], [["attribute", ["s", "g"]]]], [], [["attribute", ["s", "k"]]]], [], []]
            if kk == "groupby":
                return ["f", "list", ["f", "map", ["f", "groupby", rows, [["s", self.pick(("k", "g"))]], []], [], [["attribute", ["s", "grouper"]]]], [], []]
            if kk == "groupby2":
                return ["f", "list", ["f", "map", ["f", "first", ["f", "map", ["f", "groupby", rows, [["s", "g"]], []], [["s", "last"]], []], [], []], [], [["attribute", ["s", "k"]]]], [], []]
            return ["list", [["attr", ["f", self.pick(("max", "min")), rows, [], [["attribute", ["s", "k"]]]], "k"]]]
        if k == "dict":
            kk = self.pick(("values", "dictsort", "items"))
            if kk == "values":
                return ["f", "list", ["call", ["attr", ["v", "d0"], "values"], [], []], [], []]
            inner = ["f", kk, ["v", "d0"], [], []]
            return ["f", "list", ["f", "map", inner, [["s", self.pick(("last", "first"))]], []], [], []]
        # xform: list -> list
        lst = self.list_e(lex, d - 1)
        kk = self.pick(("sort", "unique", "reverse", "map", "mapargs", "select", "reject", "batch", "slice", "list", "slicing", "add", "mul", "sum"))
        if kk == "sum":
            return ["f", "sum", ["list", [lst, self.list_e(lex, 0)]], [], [["start", ["list", []]]]]
        if kk in ("sort", "unique"):
            args, kwargs = self.filter_args(lex, kk, 0)
            return ["f", "list", ["f", kk, lst, args, kwargs], [], []]
        if kk == "reverse":
            return ["f", "list", ["f", "reverse", lst, [], []], [], []]
        if kk == "map":
            names = ["upper", "lower", "title", "trim", "string", "capitalize", "reverse", "urlencode", "first", "last"]
            if not self.neutral:
                names += ["e", "escape", "forceescape", "striptags"]
            return ["f", "list", ["f", "map", lst, [["s", self.pick(names)]], []], [], []]
        if kk == "mapargs":
            name = self.pick(("replace", "default", "indent", "truncate", "center", "wordwrap", "format", "trim"))
            if name == "format":
                return ["f", "list", ["f", "map", ["list", [["s", "%s"], ["s", "<%s>"], ["s", "%s&"]]], [["s", "format"], self.lo_s(lex, 0)], []], [], []]
            args, kwargs = self.filter_args(lex, name, 0)
            return ["f", "list", ["f", "map", lst, [["s", name]] + args, kwargs], [], []]
        if kk in ("select", "reject"):
            args = self.pick(([], [["s", "string"]], [["s", "in"], ["v", self.pick(LISTS)]], [["s", "eq"], self.lo_s(lex, 0)], [["s", "lower"]]))
            return ["f", "list", ["f", kk, lst, args, []], [], []]
        if kk in ("batch", "slice"):
            args, kwargs = self.filter_args(lex, kk, 0)
            if args and args[0][0] == "i":
                args[0] = ["i", max(1, args[0][1])]
            return ["f", "list", ["f", "map", ["f", kk, lst, args, kwargs], [["s", "join"]] + ([self.lo_s(lex, 0)] if self.chance(1, 2) else []), []], [], []]
        if kk == "list":
            return ["f", "list", lst, [], []]
        if kk == "slicing":
            return ["slice", lst, ["i", self.i(0, 1)] if self.chance(1, 2) else None, ["i", self.pick((-1, 2, 3))] if self.chance(1, 2) else None, None]
        if kk == "add":
            return ["bin", "+", lst, self.list_e(lex, 0)]
        return ["bin", "*", lst, ["i", self.i(0, 2)]]

    # -- boolean tests ----------------------------------------------------------------------------------
    def test(self, lex):
        k = self.weighted([("var", 3), ("is", 3), ("eq", 2), ("in", 2), ("num", 2), ("loop", 2 if lex.loop else 0), ("not", 1), ("list", 1)])
        if k == "var":
            return ["v", self.pick(lex.lo + ["nope"])]
        if k == "is":
            return ["test", ["v", self.pick(lex.lo + ["nope"] + list(LISTS))], self.pick(TESTS_S), [], self.chance(1, 4)]
        if k == "eq":
            return ["bin", self.pick(("==", "!=", "<", ">=")), ["v", self.pick(lex.lo)], self.lo_atom(lex) if self.neutral else ["v", self.pick(lex.lo)]]
        if k == "in":
            return ["bin", self.pick(("in", "not in")), self.pick((["s", "<"], ["s", "&"], ["s", "a"], ["v", self.pick(lex.lo)])), ["v", self.pick(lex.lo + list(LISTS))]]
        if k == "num":
            return ["bin", self.pick((">", "<=", "==")), ["v", self.pick(("n0", "n1"))], ["i", self.i(0, 6)]]
        if k == "loop":
            return ["attr", ["v", "loop"], self.pick(("first", "last"))]
        if k == "not":
            return ["not", self.test(lex)]
        return ["v", self.pick(LISTS)]

    # -- hi strings -----------------------------------------------------------------------------------
    def hi_atom(self, lex):
        table = [("var", 6 if lex.hi else 0), ("call", 8 if self.callables(lex, True) else 0),
                 ("caller", 5 if lex.caller is not None and (self.neutral or lex.macro_kind == "u") and self.cdepth < 2 else 0),
                 ("libvar", 2 if any(d["hi"] for d in lex.libs.values()) else 0)]
        if self.neutral:
            table += [("self", 3 if lex.blocks else 0), ("super", 4 if lex.super_ok else 0)]
        else:
            table += [("urlize", 6), ("xmlattr", 5), ("tojson", 5)]
        if not any(w for _, w in table):
            return self.lo_atom(lex)
        k = self.weighted(table)
        if k == "var":
            return ["v", self.pick(lex.hi)]
        if k == "call":
            return self.call(lex, self.pick(self.callables(lex, True)))
        if k == "caller":
            return self.caller_call(lex)
        if k == "libvar":
            alias = self.pick([a for a, d in lex.libs.items() if d["hi"]])
            return ["attr", ["v", alias], self.pick(lex.libs[alias]["hi"])]
        if k == "self":
            return ["call", ["attr", ["v", "self"], self.pick(lex.blocks)], [], []]
        if k == "super":
            return ["call", ["v", "super"], [], []]
        if k == "urlize":
            args, kwargs = self.filter_args(lex, "urlize", 1)
            return ["f", "urlize", self.lo_s(lex, 1), args, kwargs]
        if k == "xmlattr" and self.chance(1, 3):
            # attribute names that are data: a context string (k0), the keys of a context dict (dk) or a rich string literal;
            # they hold < " ' & but none of the characters xmlattr rejects (whitespace / > =) and end in their token
            kk = self.pick(("k0", "dk", "lit", "mixed"))
            if kk == "dk":
                dd = ["v", "dk"]
            else:
                key = ["v", "k0"] if kk == "k0" else self.rich_key()
                items = [[key, self.lo_s(lex, 0)]]
                if kk == "mixed":
                    items.insert(self.i(0, 1), [self.pick(XKEYS), self.lo_s(lex, 0)])
                dd = ["dict", items]
            args, kwargs = self.filter_args(lex, "xmlattr", 0)
            return ["f", "xmlattr", dd, args, kwargs]
        if k == "xmlattr":
            dd = ["v", "d0"] if self.chance(1, 3) else ["dict", [[key, self.pick((self.lo_s(lex, 1), self.int_e(lex), ["none"], ["v", "nope"], self.lo_s(lex, 0)))]
                                                             for key in XKEYS if self.chance(1, 2)]]
            args, kwargs = self.filter_args(lex, "xmlattr", 0)
            return ["f", "xmlattr", dd, args, kwargs]
        if k == "tojson":
            v = self.weighted([("s", 5), ("l", 2), ("d", 2), ("rows", 1), ("mix", 2)])
            e = {"s": lambda: self.lo_s(lex, 1), "l": lambda: self.list_e(lex, 1), "d": lambda: ["v", "d0"], "rows": lambda: ["v", self.pick(("rows", "tree"))],
                 "mix": lambda: ["dict", [[self.pick(("a", "b<", "c'")), self.lo_s(lex, 0)], ["n", ["list", [self.int_e(lex), ["none"], ["b", True], self.lo_s(lex, 0)]]]]]}[v]()
            args, kwargs = self.filter_args(lex, "tojson", 0)
            return ["f", "tojson", e, args, kwargs]
        raise AssertionError(k)

    def any_s(self, lex, d=1):
        """A string expression of either kind."""
        return self.hi_s(lex, d) if self.chance(1, 2) else self.lo_s(lex, d)

    def hi_s(self, lex, d=2):
        if d <= 0:
            return self.hi_atom(lex)
        k = self.weighted([("atom", 12), ("cat", 6), ("add", 2), ("mul", 1), ("cond", 2), ("filter", 3), ("join", 4), ("replace", 2)])
        if k == "atom":
            return self.hi_atom(lex)
        if k == "replace":
            # a plain value whose occurrences of a plain search string are replaced by a fragment: the value is escaped and
            # the fragment inserted as is.  The search string avoids the characters of the five entities (& # ; a m p l t g 3 4 9),
            # so it matches at the same places before and after escaping.
            args = [["s", self.pick(("z", "q", "@", " ", "Q", "-", "zq", "1z"))], self.hi_s(lex, d - 1)]
            return ["f", "replace", self.lo_s(lex, d - 1), args + ([["i", self.i(0, 3)]] if self.chance(1, 4) else []), []]
        if k == "cat":
            a, b = self.hi_s(lex, d - 1), self.any_s(lex, d - 1)
            if self.chance(1, 2):
                a, b = b, a
            return ["hcat", a, b]
        if k == "add":
            a, b = self.hi_s(lex, d - 1), self.any_s(lex, d - 1)
            if self.chance(1, 2):
                a, b = b, a
            return ["bin", "+", a, b]
        if k == "mul":
            return ["bin", "*", self.hi_s(lex, d - 1), ["i", self.i(0, 2)]]
        if k == "cond":
            return ["cond", self.hi_s(lex, d - 1), self.test(lex), self.any_s(lex, d - 1) if self.chance(3, 4) else None]
        if k == "filter":
            name = self.pick(SS_HI)
            if name == "trim":
                return ["f", "trim", self.hi_s(lex, d - 1), [], []]
            if name in ("default", "d"):
                return ["f", name, self.hi_s(lex, d - 1) if self.chance(1, 2) else ["v", "nope"], [self.any_s(lex, d - 1)], []]
            return ["f", name, self.hi_s(lex, d - 1), [], []]
        items = [self.any_s(lex, d - 1) for _ in range(self.i(1, 3))] + [self.hi_s(lex, d - 1)]
        sep = self.any_s(lex, 0) if self.chance(1, 3) else self.lo_s(lex, 0)
        return ["f", "join", ["list", items], [sep], []]

    # -- statements -----------------------------------------------------------------------------------
    def text(self):
        return ["text", self.pick(TEXTS)]

    def const_container(self):
        """A fully constant expression whose value is a container of metacharacter-rich string literals (folded at compile
        time: the constant-output path must escape the container's repr, quotes included)."""
        lst = ["list", [self.s_lit() if self.chance(3, 4) else ["i", self.i(0, 9)] for _ in range(self.i(1, 3))]]
        strs = ["list", [self.s_lit() for _ in range(self.i(1, 3))]]
        dct = ["dict", [[self.pick(XKEYS), self.s_lit()] for _ in range(self.i(1, 2))]]
        k = self.pick(("list", "tuple", "dict", "chars", "sort", "unique", "batch", "dictsort", "items", "map", "reverse", "slice", "nested", "listf"))
        if k == "list":
            return lst
        if k == "tuple":
            return ["tuple", lst[1]]
        if k == "dict":
            return dct
        if k == "chars":
            return ["f", "list", self.s_lit(), [], []]
        if k == "sort":
            return ["f", "sort", strs, [], []]
        if k == "unique":
            return ["f", "list", ["f", "unique", strs, [], []], [], []]
        if k == "batch":
            return ["f", "list", ["f", "batch", strs, [["i", 2]], []], [], []]
        if k == "dictsort":
            return ["f", "dictsort", dct, [], []]
        if k == "items":
            return ["f", "list", ["f", "items", dct, [], []], [], []]
        if k == "map":
            return ["f", "list", ["f", "map", strs, [["s", self.pick(("upper", "trim", "string"))]], []], [], []]
        if k == "reverse":
            return ["f", "list", ["f", "reverse", strs, [], []], [], []]
        if k == "slice":
            return ["f", "list", ["f", "slice", strs, [["i", 2]], []], [], []]
        if k == "nested":
            return ["list", [lst, dct]]
        return ["f", "list", lst, [], []]

    def number_default(self, lex):
        """An output whose OUTERMOST filter is a "number" filter that hands a data-controlled string through unchanged:
        int / float return their default for an unconvertible value, sum returns its start for an empty sequence."""
        k = self.pick(("int", "float", "int", "float", "sum"))
        d = self.lo_s(lex, 0) if self.chance(2, 3) else self.lo_s(lex, 1)
        if k == "sum":
            return ["f", "sum", ["list", []], [], [["start", d]]]
        value = ["v", self.pick(lex.lo)] if self.chance(3, 4) else self.pick((["none"], ["v", "nope"], ["s", "1e"], ["v", "l0"]))
        if self.chance(1, 2):
            return ["f", k, value, [d], []]
        return ["f", k, value, [], [["default", d]]]

    def format_fragment(self, lex):
        """[set block holding metacharacter-free text with replacement fields, fragment.format(data)]: Markup.format /
        format_map are documented to stay markup and to escape their arguments, so this is escaping-neutral (also in
        neutral mode, where fragments otherwise only reach content-preserving sinks)."""
        name = self.pick(("r0", "r1"))
        if name not in lex.hi:
            lex.hi.append(name)
        if self.chance(1, 3):
            body = [["text", self.pick(("[{id}]", "({id}:{id})", "{title}/"))]]
            e = ["m", "format_map", ["v", name], [["v", "d0"]]]
        else:
            fmt, n = self.pick((("[{}]", 1), ("({0}:{0})", 1), ("{}-{}", 2), ("{0}|{1}|{0}", 2), ("{a}.", 0)))
            body = [["text", fmt]]
            e = ["m", "format", ["v", name], [self.lo_s(lex, 1) for _ in range(n)]]
            if n == 0:
                e = ["call", ["attr", ["v", name], "format"], [], [["a", self.lo_s(lex, 1)]]]
        return [["setblock", name, [], body], ["out", e]]

    def out(self, lex):
        if self.chance(1, 12):
            return ["out", self.const_container()]
        if self.chance(1, 12):
            return ["out", self.number_default(lex)]
        if self.neutral and lex.libs and self.chance(1, 8):
            # a module object is only ever printed directly (TemplateModule.__html__); `lib ~ x`, `x + lib`, join with a
            # module and lib|string turn it into a plain string first (finding N4 of c16.py)
            return ["out", ["v", self.pick(sorted(lex.libs))]]
        if lex.emit_hi and self.chance(2, 5):
            return ["out", self.hi_s(lex, 2)]
        return ["out", self.lo_s(lex, 2)]

    def chain(self, lex, neutral_only, const_args=False):
        """A filter chain for a filter section / filtered set block (string -> string).  Only filters whose result
        on the rendered (safe) body is again safe or built from escaped material: see finding N1 in c15.py
        (wordwrap's wrapstring, default, join, striptags, batch/slice are excluded there).  ``const_args``: set-block
        filter arguments must be constants (names in them do not compile, finding N3)."""
        n = self.weighted([(1, 5), (2, 2)])
        out = []
        for _ in range(n):
            if out and out[-1][0] in MARKUP_DROPPERS and not neutral_only:
                # after a filter that returns a plain string for a safe one, an argument-inserting filter would emit its
                # arguments raw (N1): only argument-free filters may follow
                out.append([self.pick(("upper", "lower", "capitalize", "trim", "string", "e", "forceescape")), [], []])
                continue
            if neutral_only:
                name = self.pick(NEUTRAL_BLOCK_FILTERS + ("default",))
                out.append([name, [["s", "-"], ["b", True]] if name == "default" else [], []])
            elif self.chance(1, 12):
                # the input class of known finding N1 (F48): generated rarely so that the check can count what it excludes
                name = self.pick(N1_FILTERS)
                args, kwargs = self.filter_args(lex, name, 1, spec=N1_SPEC.get(name), const=const_args)
                out.append([name, args, kwargs])
            else:
                name = self.pick(BLOCK_RICH)
                args, kwargs = self.filter_args(lex, name, 1, spec=BLOCK_SPEC.get(name), const=const_args)
                out.append([name, args, kwargs])
        return out

    def block(self, lex, lo=1, hi=4):
        out = []
        for _ in range(self.i(lo, hi)):
            if self.budget <= 0 and out:
                break
            out.extend(self.stmt(lex))
        return out

    def stmt(self, lex):
        """-> list of statements (a definition is followed by a use)."""
        self.budget -= 1
        deep = lex.depth < self.max_depth and self.budget > 0
        table = [("text", 3), ("out", 12), ("setlo", 3), ("sethi", 3 if lex.emit_hi or True else 0)]
        if deep:
            table += [("if", 3), ("for", 5), ("forhi", 2), ("with", 2), ("setblock", 5), ("filter", 5),
                      ("macro", 6 if lex.toplevel else 0), ("callblock", 12 if any(d["caller"] is not None for d in lex.macros.values()) else 0),
                      ("include", 6 if lex.has_inc else 0), ("rec", 2), ("rowloop", 2), ("dictloop", 2), ("joiner", 1), ("ns", 1)]
        k = self.weighted(table)
        if k == "text":
            return [self.text()]
        if k == "out":
            return [self.out(lex)]
        if k == "setlo":
            name = self.pick(("p0", "p1"))
            s = ["set", name, self.lo_s(lex, 2)]
            if name not in lex.lo:
                lex.lo.append(name)
            return [s]
        if k == "sethi":
            name = self.pick(("r0", "r1"))
            s = ["set", name, self.hi_s(lex, 2)]
            if name not in lex.hi:
                lex.hi.append(name)
            return [s]
        if k == "if":
            return [["if", self.test(lex), self.block(lex.child(share=True, toplevel=False), 1, 3),
                     self.block(lex.child(share=True, toplevel=False), 1, 2) if self.chance(1, 3) else None]]
        if k == "for":
            var = self.pick(("e0", "e1"))
            c = lex.child(loop=True, toplevel=False)
            c.lo.append(var)
            body = self.block(c, 1, 3)
            if self.chance(1, 3):
                body.append(["out", ["call", ["attr", ["v", "loop"], "cycle"], [self.lo_s(c, 0), self.lo_s(c, 0)], []] if self.chance(1, 2)
                             else ["attr", ["v", "loop"], self.pick(("previtem", "nextitem"))]])
            return [["for", [var], self.list_e(lex, 1), body, self.block(lex.child(toplevel=False), 1, 1) if self.chance(1, 4) else None, False]]
        if k == "forhi":
            c = lex.child(loop=True, toplevel=False)
            c.hi.append("g0")
            items = [self.any_s(lex, 1) for _ in range(self.i(1, 3))]
            return [["for", ["g0"], ["list", items], self.block(c, 1, 3), None, False]]
        if k == "with":
            c = lex.child(toplevel=False)
            binds = []
            if self.chance(2, 3):
                binds.append([self.pick(("e0", "e1")), self.lo_s(lex, 1)])
                c.lo.append(binds[-1][0])
            if self.chance(1, 2) or not binds:
                binds.append(["g0", self.hi_s(lex, 1)])
                c.hi.append("g0")
            return [["with", binds, self.block(c, 1, 3)]]
        if k == "setblock":
            return self.format_fragment(lex) if self.chance(1, 5) else self.setblock(lex)
        if k == "filter":
            neutral_only = self.neutral or (lex.emit_hi and self.chance(1, 4))
            ch = self.chain(lex, neutral_only)
            c = lex.child(toplevel=False, emit_hi=lex.emit_hi and neutral_only)
            return [["filter", ch, self.block(c, 1, 3)]]
        if k == "macro":
            return self.macro(lex)
        if k == "callblock":
            return [self.callblock(lex, self.pick([n for n, d in lex.macros.items() if d["caller"] is not None]))]
        if k == "include":
            name = self.pick(("inc", "inc", "nope"))
            return [["include", name, self.pick((None, None, True, True, False)), name == "nope" or self.chance(1, 4)]]
        if k == "rec":
            c = lex.child(loop=True, toplevel=False)
            c.rowvars.append("w")
            body = [self.text(), ["out", ["attr", ["v", "w"], "k"]]] + self.block(c, 0, 1)
            body.append(["if", ["attr", ["v", "w"], "c"], [["text", "("], ["out", ["call", ["v", "loop"], [["attr", ["v", "w"], "c"]], []]], ["text", ")"]], None])
            return [["for", ["w"], ["v", "tree"], body, None, True]]
        if k == "rowloop":
            c = lex.child(loop=True, toplevel=False)
            c.rowvars.append("w")
            if self.chance(1, 2):
                c.lo.append("e0")
                inner = ["for", ["w"], ["v", "e1x"], self.block(c, 1, 2), None, False]
                return [["for", ["e0", "e1x"], ["f", "groupby", ["v", "rows"], [["s", self.pick(("g", "k"))]], []], [["out", ["v", "e0"]], inner], None, False]]
            src = self.pick((["v", "rows"], ["f", "sort", ["v", "rows"], [], [["attribute", ["s", "k"]]]], ["f", "selectattr", ["v", "rows"], [["s", "n"]], []]))
            return [["for", ["w"], src, self.block(c, 1, 3), None, False]]
        if k == "dictloop":
            c = lex.child(loop=True, toplevel=False)
            c.lo += ["e0", "e1"]
            src = self.pick((["f", "items", ["v", "d0"], [], []], ["f", "dictsort", ["v", "d0"], [], []], ["call", ["attr", ["v", "d0"], "items"], [], []]))
            return [["for", ["e0", "e1"], src, self.block(c, 1, 3), None, False]]
        if k == "joiner":
            if self.chance(1, 2):
                call = ["call", ["v", "jn"], [], []]
                return [["set", "jn", ["call", ["v", "joiner"], [self.lo_s(lex, 0)], []]], ["out", call], ["text", "a"], ["out", call], ["out", call]]
            return [["set", "cy", ["call", ["v", "cycler"], [self.lo_s(lex, 0), self.lo_s(lex, 0)], []]],
                    ["out", ["call", ["attr", ["v", "cy"], "next"], [], []]], ["out", ["attr", ["v", "cy"], "current"]]]
        if k == "ns":
            return [["set", "nsx", ["call", ["v", "namespace"], [], [["v", self.lo_s(lex, 1)]]]], ["out", ["attr", ["v", "nsx"], "v"]]]
        raise AssertionError(k)

    def setblock(self, lex):
        if self.neutral:
            name, body_hi, neutral_only = self.pick(("r0", "r1")), True, True
        elif lex.emit_hi is not None and self.chance(1, 3):
            name, body_hi, neutral_only = self.pick(("r0", "r1")), True, True
        else:
            name, body_hi, neutral_only = self.pick(("p0", "p1")), False, False
        ch = self.chain(lex, neutral_only, const_args=self.chance(1, 2)) if self.chance(1, 3) else []
        c = lex.child(toplevel=False, emit_hi=body_hi)
        s = ["setblock", name, ch, self.block(c, 1, 3)]
        pool = lex.hi if name[0] == "r" else lex.lo
        if name not in pool:
            pool.append(name)
        use = ["out", ["v", name]] if (name[0] == "p" or lex.emit_hi) else ["text", "."]
        if name[0] == "p" and self.chance(1, 2):
            use = ["out", self.lo_s(lex, 2)]
        return [s, use]

    def macro(self, lex):
        """-> [macro definition, a use of it] ([] when every macro name of the wanted kind is taken: a name is
        defined once per template, so that a body that calls an earlier macro can never reach itself)."""
        if self.neutral:
            kind, pool, result_hi = "m", ("m0", "m1", "m2"), True
        elif self.chance(1, 3):
            kind, pool, result_hi = "u", ("u0", "u1"), True
        else:
            kind, pool, result_hi = "m", ("m0", "m1", "m2"), False
        free = [n for n in pool if n not in lex.used]
        if not free:
            return [self.out(lex)]
        name = self.pick(free)
        lex.used.add(name)
        params = []
        for p in ("a0", "a1", "h0"):
            if self.chance(1, 2) and (p != "h0" or result_hi):
                params.append((p, "hi" if p == "h0" else "lo", False))
        ndef = self.i(0, len(params))
        defaults = {}
        for j in range(len(params) - ndef, len(params)):
            p, kind_p, _ = params[j]
            params[j] = (p, kind_p, True)
            # defaults are evaluated inside the call: like the body they never call self.b() / super()
            # ... and, like the body, read data only (not the template's set variables)
            dlex = lex.child(blocks=[], super_ok=False)
            dlex.lo, dlex.hi, dlex.rowvars, dlex.loop = list(LO_DATA), [], [], False
            defaults[p] = self.lo_s(dlex, 1)
        caller = self.weighted([(None, 3), (0, 2), (1, 2)])
        # a macro body never calls self.b() / super(): blocks call macros, so that could recurse
        c = lex.child(toplevel=False, emit_hi=result_hi, macro_kind=kind, caller=caller, loop=False, blocks=[], super_ok=False)
        c.rowvars = []
        # a macro body reads data and its parameters, not the template's set variables (closure reads are C03's business,
        # and hoisting the definition out of a region must not change what the body sees)
        c.lo = list(LO_DATA) + [p for p, kp, _ in params if kp == "lo"] * 3
        c.hi = [p for p, kp, _ in params if kp == "hi"] * 3
        c.macros = {n: d for n, d in lex.macros.items() if n != name}
        body = self.block(c, 1, 4)
        for p, kp, _ in params:
            if self.chance(2, 3):  # a parameter is usually printed (bare or through one operation)
                e = ["v", p]
                if kp == "lo" and self.chance(1, 2):
                    only = _Lex()
                    only.lo = [p]
                    e = self.lo_s(only.child(emit_hi=False), 1)
                if kp == "lo" or result_hi:
                    body.insert(self.i(0, len(body)), ["out", e])
        if caller is not None:
            body.insert(self.i(0, len(body)), ["out", self.caller_call(c)])
        desc = {"params": params, "caller": caller, "hi": result_hi, "callee": ["v", name]}
        lex.macros[name] = desc
        out = [["macro", name, [[p, defaults.get(p)] for p, _, _ in params], body]]
        if self.chance(4, 5):
            if caller is not None:
                out.append(self.callblock(lex, name))
            elif result_hi and not lex.emit_hi:
                out.append(["set", "r0", self.call(lex, name)])
                if "r0" not in lex.hi:
                    lex.hi.append("r0")
            elif result_hi:
                out.append(["out", self.call(lex, name) if self.chance(1, 2) else ["hcat", self.call(lex, name), self.any_s(lex, 1)]])
            else:
                e = self.call(lex, name)
                if self.chance(1, 2):
                    fname = self.pick(SS_RICH)
                    args, kwargs = self.filter_args(lex, fname, 1)
                    e = ["f", fname, e, args, kwargs] if fname != "format" else e
                out.append(["out", e])
        return out

    def callblock(self, lex, name):
        d = lex.macros[name]
        params = ["a0"][: d["caller"]]
        hi_body = d["hi"]
        c = lex.child(toplevel=False, emit_hi=hi_body, caller=None, macro_kind=None, loop=False)
        c.rowvars = []
        c.lo = c.lo + params
        call = self.call(lex, name)
        body = self.block(c, 1, 3)
        if params and self.chance(3, 4):
            body.insert(self.i(0, len(body)), ["out", ["v", params[0]] if self.chance(1, 2) else ["f", self.pick(("upper", "trim", "indent", "string")), ["v", params[0]], [], []]])
        stmt = ["callblock", params, call, body]
        if hi_body and not lex.emit_hi:
            return ["setblock", "r1", [], [stmt]]
        return stmt

    # -- templates ----------------------------------------------------------------------------------------
    def library(self, name):
        """A library template: macros (exported), top-level assignments, a little output; its body emits no hi."""
        lex = _Lex()
        lex.toplevel = True
        lex.emit_hi = self.neutral
        body = [["text", "L:"]]
        for _ in range(self.i(1, 3)):
            k = self.weighted([("macro", 5), ("setlo", 2), ("setblock", 2), ("out", 2)])
            if k == "macro":
                body.extend(self.macro(lex)[:1])
            elif k == "setlo":
                body.append(["set", "p0", self.lo_s(lex, 1)])
                if "p0" not in lex.lo:
                    lex.lo.append("p0")
            elif k == "setblock":
                c = lex.child(toplevel=False, emit_hi=True)
                body.append(["setblock", "r0", [], self.block(c, 1, 2)])
                if "r0" not in lex.hi:
                    lex.hi.append("r0")
            else:
                body.append(["out", self.lo_s(lex, 1)])
        return body, {"macros": dict(lex.macros), "lo": [n for n in lex.lo if n == "p0"], "hi": [n for n in lex.hi if n == "r0"]}

    def program(self):
        templates = {}
        main = _Lex()
        main.toplevel = True
        head = []
        shape = self.weighted([("plain", 4), ("libs", 5), ("blocks", 2), ("extends", 4)])
        if shape != "blocks" and self.chance(1, 2):
            inc = _Lex()
            templates["inc"] = [["text", "I:"]] + self.block(inc.child(emit_hi=self.neutral), 1, 3)
            main.has_inc = True
        if shape in ("libs", "extends"):
            libbody, desc = self.library("lib")
            templates["lib"] = libbody
            how = self.weighted([("import", 3), ("from", 3), ("none", 1)])
            ctx = self.pick((True, True, True, True, None, False))  # an import is "without context" by default
            if how == "import":
                head.append(["import", "lib", "lib", ctx])
                for n, d in desc["macros"].items():
                    main.macros["lib." + n] = dict(d, callee=["attr", ["v", "lib"], n])
                main.libs["lib"] = desc
            elif how == "from" and desc["macros"]:
                names = sorted(desc["macros"])
                head.append(["from", "lib", [[n, None] for n in names] + ([["p0", "q0"]] if desc["lo"] else []), ctx])
                for n in names:
                    main.macros[n] = desc["macros"][n]
                    main.used.add(n)
                if desc["lo"]:
                    main.lo.append("q0")
        if shape in ("blocks", "extends"):
            names = ["b0", "b1"][: self.i(1, 2)]
            if shape == "extends":
                base = _Lex()
                base.toplevel = True
                base.has_inc = main.has_inc
                base.blocks = list(names)
                bbody = [["text", "B:"]]
                for i, n in enumerate(names):
                    bbody.extend(self.block(base, 0, 1))
                    c = base.child(toplevel=False, emit_hi=self.neutral, blocks=names[i + 1:])
                    bbody.append(["block", n, False, self.block(c, 1, 2)])
                bbody.extend(self.block(base, 0, 2))
                templates["base"] = bbody
                head.insert(0, ["extends", "base"])
            body = list(head)
            main.blocks = list(names)
            for i, n in enumerate(names):
                if shape == "blocks" or self.chance(1, 3):
                    body.extend(self.toplevel_defs(main) if shape == "extends" else self.block(main, 0, 2))
                if shape == "extends" and self.chance(1, 4):
                    continue
                c = main.child(toplevel=False, emit_hi=self.neutral, super_ok=shape == "extends", blocks=names[i + 1:])
                bb = self.block(c, 1, 3)
                if shape == "extends" and self.chance(2, 3):
                    bb.insert(self.i(0, len(bb)), ["out", ["call", ["v", "super"], [], []]])
                body.append(["block", n, False, bb])
            if shape == "blocks":
                body.extend(self.block(main, 1, 3))
            templates["main"] = body
        else:
            templates["main"] = head + self.block(main, 2, 6)
        return templates

    def toplevel_defs(self, lex):
        """Top-level statements of a child template that do something although output is suppressed."""
        out = []
        for _ in range(self.i(1, 2)):
            k = self.weighted([("macro", 3), ("setlo", 2), ("setblock", 2)])
            if k == "macro":
                out.extend(self.macro(lex)[:1])
            elif k == "setlo":
                out.append(["set", "p0", self.lo_s(lex, 1)])
                if "p0" not in lex.lo:
                    lex.lo.append("p0")
            else:
                out.extend(self.setblock(lex)[:1])
        return out


TAPE = 640


@st.composite
def programs(draw, neutral=False, size=14, tape=TAPE):
    """Template sets {"main", optionally "inc", "lib", "base"}; see the module docstring."""
    g = _Gen(draw(st.binary(min_size=tape, max_size=tape)), neutral, size)
    templates = g.program()
    return {"templates": templates, "entry": "main", "neutral": bool(neutral)}


# ---------------------------------------------------------------------------------------------------------
# data


class _Tape:
    def __init__(self, tape):
        self.tape, self.pos = tape, 0

    def i(self, lo, hi):
        if self.pos >= len(self.tape):
            return lo
        b = self.tape[self.pos]
        self.pos += 1
        return lo + b % (hi - lo + 1)

    def pick(self, seq):
        return seq[self.i(0, len(seq) - 1)]


URL_FORMS = ["see http://ex.org/p?a=1&b=<%s>&c='x' now", "(www.%s.org), <www.ex.org/%s>", "mailto:%s@ex.io me@%s.io \"q\"",
             "a\n<b>%s</b>\n\n  '3'\n", "https://ex.org/%s?x=1\"&y=<2> tel:+1%s x-tok:%s&", "line one <%s>\nline two & more words to wrap here\n"]


@st.composite
def datas(draw):
    """Render data: every string is ``piece* META token META piece*`` with a unique token zq<N>z (N < 900)."""
    t = _Tape(draw(st.binary(min_size=192, max_size=192)))
    counter = [0]

    def rich():
        counter[0] += 1
        pre = "".join(t.pick(PIECES) for _ in range(t.i(0, 2)))
        post = "".join(t.pick(PIECES) for _ in range(t.i(0, 2)))
        return pre + t.pick(META) + "zq%dz" % counter[0] + t.pick(META) + post

    def urlish():
        counter[0] += 1
        return t.pick(URL_FORMS).replace("%s", "zq%dz" % counter[0])

    data = {}
    for n in LO_DATA:
        data[n] = urlish() if t.i(0, 4) == 4 else rich()
    for n in LISTS:
        data[n] = [rich() for _ in range(t.pick((2, 1, 3, 2, 0)))]
    d0 = {}
    for key in XKEYS[:4]:
        r = t.i(0, 6)
        if r <= 4:
            d0[key] = rich()
        elif r == 5:
            d0[key] = t.pick([None, 3, ""])
    data["d0"] = d0
    data["rows"] = [{"k": rich(), "n": t.i(0, 3), "g": t.pick(["a", "b<", "b<"])} for _ in range(t.i(2, 3))]
    tree = []
    for _ in range(t.i(1, 2)):
        node = {"k": rich(), "n": 1, "g": "a", "c": []}
        for _ in range(t.i(0, 2)):
            node["c"].append({"k": rich(), "n": 2, "g": "b<", "c": []})
        tree.append(node)
    data["tree"] = tree
    def key():
        counter[0] += 1
        return "".join(t.pick(KEY_PIECES) for _ in range(t.i(0, 2))) + t.pick(KEY_META) + "zq%dz" % counter[0]

    data["k0"] = key()
    data["dk"] = {key(): rich() for _ in range(t.i(1, 2))}
    data["n0"] = t.i(0, 12)
    data["n1"] = t.pick([2, 0, 1, 3, 30])
    return data
