"""Core of the verification harness: tiers, seeds, sharding, evidence, replay, known findings.

A property module ``vt.props.cNN`` provides

    PID, LEVEL ("exploration" | "fault_enumeration"), RULE (str), ASSUMPTIONS (list[str])
    shards(tier) -> list of JSON-able shard specs
    run_shard(spec, ctx) -> Rec          (ctx: Ctx with tier / seed / shard index; runs in a worker process)
    check_case(case) -> Outcome | None   (pure oracle on one JSON-able case; raises Violation)

``check_case`` is the single oracle entry point: generated search, committed replays, known
findings and ``--replay`` all go through it.  Any exception other than ``Violation`` raised
*inside* check_case is reported as a violation too (kind "exception") -- the code under test
must not crash the oracle; exceptions raised *outside* it (imports, generators, the pool)
are harness errors (exit 2).
"""
from __future__ import annotations

import collections
import glob
import hashlib
import json
import multiprocessing
import os
import sys
import time
import traceback

VERIF = os.path.dirname(os.path.dirname(os.path.abspath(__file__)))
NPROC = int(os.environ.get("VERIF_NPROC", "16"))


class Violation(Exception):
    """The property does not hold on this case."""

    def __init__(self, msg, **details):
        super().__init__(msg)
        self.details = details


class Discard(Exception):
    """The case is outside the decided domain (e.g. reference model declines)."""


class Excluded(Exception):
    """The case falls in a listed known finding's input class and is not executed/judged."""


class HarnessError(Exception):
    pass


class Outcome:
    __slots__ = ("nontrivial", "labels")

    def __init__(self, nontrivial=False, labels=()):
        self.nontrivial = bool(nontrivial)
        self.labels = tuple(labels)


def canon(case):
    return json.dumps(case, sort_keys=True, ensure_ascii=True, default=repr)


def case_hash(case):
    return int.from_bytes(hashlib.blake2b(canon(case).encode(), digest_size=8).digest(), "big")


def derive_seed(seed, *parts):
    h = hashlib.blake2b(("%d|%s" % (seed, "|".join(map(str, parts)))).encode(), digest_size=8).digest()
    return int.from_bytes(h, "big") % (2**63)


class Ctx:
    def __init__(self, pid, tier, seed, index=0, nshards=1):
        self.pid, self.tier, self.seed, self.index, self.nshards = pid, tier, seed, index, nshards

    @property
    def quick(self):
        return self.tier == "quick"

    def derive(self, *parts):
        return derive_seed(self.seed, self.pid, self.index, *parts)

    def pick(self, quick, thorough):
        return quick if self.tier == "quick" else thorough


NT_CAP = 400_000
SAMPLE_KEEP = 4


class Rec:
    """Per-shard recorder (picklable)."""

    def __init__(self):
        self.evaluations = 0
        self.nt = set()
        self.nt_overflow = 0
        self.labels = collections.Counter()
        self.samples = []  # (hash, case) smallest hashes = deterministic reservoir
        self.first = None
        self.last = None
        self.violations = []
        self.excluded = 0
        self.discarded = 0
        self.extra = {}

    # -- the one place where the oracle is invoked ---------------------------------
    def run(self, check_case, case, reraise=False):
        """Run the oracle on one case; returns True when it held."""
        self.evaluations += 1
        try:
            out = check_case(case)
        except Discard:
            self.discarded += 1
            return True
        except Excluded:
            self.excluded += 1
            return True
        except Violation as v:
            self.violations.append({"case": case, "msg": str(v), "details": _jsonable(v.details)})
            if reraise:
                raise
            return False
        except (KeyboardInterrupt, SystemExit, HarnessError):
            raise
        except BaseException as e:  # noqa: BLE001 - crash of oracle on this case == violation
            tb = traceback.format_exc(limit=12)
            self.violations.append(
                {"case": case, "msg": "unexpected %s: %s" % (type(e).__name__, e), "details": {"traceback": tb}}
            )
            if reraise:
                raise Violation("unexpected %s: %s" % (type(e).__name__, e)) from e
            return False
        h = None
        if out is not None:
            for lab in out.labels:
                self.labels[lab] += 1
            if out.nontrivial:
                h = case_hash(case)
                if len(self.nt) < NT_CAP:
                    self.nt.add(h)
                elif h not in self.nt:
                    self.nt_overflow += 1  # not provably distinct: not counted
        if self.first is None:
            self.first = case
        self.last = case
        if self.evaluations <= 64 or self.evaluations % 97 == 0:
            if h is None:
                h = case_hash(case)
            self.samples.append((h, case))
            if len(self.samples) > 4 * SAMPLE_KEEP:
                self.samples.sort(key=lambda t: t[0])
                del self.samples[SAMPLE_KEEP:]
        return True

    def merge(self, other):
        self.evaluations += other.evaluations
        room = NT_CAP * 4 - len(self.nt)
        if room > 0:
            self.nt |= other.nt
        self.nt_overflow += other.nt_overflow
        self.labels.update(other.labels)
        self.samples.extend(other.samples)
        self.samples.sort(key=lambda t: t[0])
        del self.samples[SAMPLE_KEEP:]
        if self.first is None:
            self.first = other.first
        if other.last is not None:
            self.last = other.last
        self.violations.extend(other.violations)
        self.excluded += other.excluded
        self.discarded += other.discarded
        for k, v in other.extra.items():
            if isinstance(v, (int, float)) and isinstance(self.extra.get(k, 0), (int, float)):
                self.extra[k] = self.extra.get(k, 0) + v
            else:
                self.extra.setdefault(k, v)


def _jsonable(x):
    try:
        json.dumps(x)
        return x
    except Exception:  # noqa: BLE001
        return json.loads(json.dumps(x, default=repr))


# ---------------------------------------------------------------------------------------
# Hypothesis / enumeration drivers (run inside a worker)


def hyp_shard(strategy, check_case, ctx, max_examples, rec=None, shrink=True, tag="h"):
    """Drive ``check_case`` with cases drawn from ``strategy`` (which must yield JSON-able
    cases).  Stops at the first failing case, shrinks it; the shrunk case is the last entry
    of rec.violations."""
    import hypothesis
    from hypothesis import HealthCheck, Phase, given, settings

    rec = rec if rec is not None else Rec()
    phases = [Phase.generate] + ([Phase.shrink] if shrink else [])

    @hypothesis.seed(ctx.derive(tag))
    @settings(
        max_examples=max_examples,
        database=None,
        deadline=None,
        derandomize=False,
        report_multiple_bugs=False,
        suppress_health_check=list(HealthCheck),
        phases=phases,
        print_blob=False,
        verbosity=hypothesis.Verbosity.quiet,
    )
    @given(strategy)
    def test(case):
        rec.run(check_case, case, reraise=True)

    nviol = len(rec.violations)
    try:
        test()
    except Violation:
        # keep only the final (shrunk) failing case of this run
        last = rec.violations[-1]
        del rec.violations[nviol:]
        rec.violations.append(last)
    except hypothesis.errors.Unsatisfiable as e:
        raise HarnessError("generator unsatisfiable: %s" % e) from e
    return rec


def enum_shard(cases, check_case, ctx=None, rec=None, stop_after=3):
    """Drive check_case over an iterable of cases (already sliced for this shard)."""
    rec = rec if rec is not None else Rec()
    for case in cases:
        rec.run(check_case, case)
        if len(rec.violations) >= stop_after:
            break
    return rec


def sliced(iterable, index, nshards):
    for i, x in enumerate(iterable):
        if i % nshards == index:
            yield x


# ---------------------------------------------------------------------------------------
# Runner


def _worker(args):
    modname, spec, tier, seed, index, nshards = args
    try:
        import importlib

        mod = importlib.import_module(modname)
        ctx = Ctx(mod.PID, tier, seed, index, nshards)
        rec = mod.run_shard(spec, ctx)
        return ("ok", rec)
    except BaseException:  # noqa: BLE001
        return ("error", traceback.format_exc())


def load_known(pid):
    out = []
    paths = [os.path.join(VERIF, "known_findings.json")] + sorted(glob.glob(os.path.join(VERIF, "known_findings.d", "*.json")))
    for path in paths:
        if not os.path.exists(path):
            continue
        with open(path) as f:
            data = json.load(f)
        out.extend(e for e in data.get("findings", []) if e.get("property") == pid)
    return out


def replay_files(pid):
    return sorted(glob.glob(os.path.join(VERIF, "replays", pid, "*.json")))


def write_found(pid, viol):
    d = os.path.join(os.environ.get("VERIF_FOUND_DIR") or os.path.join(VERIF, "found"), pid)
    os.makedirs(d, exist_ok=True)
    h = "%016x" % case_hash(viol["case"])
    path = os.path.join(d, h + ".json")
    with open(path, "w") as f:
        json.dump({"property": pid, "case": viol["case"], "msg": viol["msg"], "details": viol.get("details")}, f, indent=1, default=repr)
    return path


def run_check(mod, tier, seed):
    """Returns exit code."""
    t0 = time.time()
    pid = mod.PID
    total = Rec()
    violations_out = []  # (path, msg)
    known_lines = []

    # 1. committed replays (seed corpus + shrunk failures, incl. fixed findings)
    nreplayed = 0
    for path in replay_files(pid):
        with open(path) as f:
            doc = json.load(f)
        r = Rec()
        r.run(mod.check_case, doc["case"])
        nreplayed += 1
        if r.violations:
            violations_out.append((path, r.violations[0]["msg"]))
        r.violations = []
        total.merge(r)

    # 2. known findings: replay each listed input; still failing -> KNOWN-FINDING line
    known = [e for e in load_known(pid) if e.get("status") == "known"]
    known_canon = {}
    check_known = getattr(mod, "check_known", None)
    for e in known:
        if "case" not in e:
            continue
        known_canon[canon(e["case"])] = e
        r = Rec()
        (r.run(check_known, e) if check_known else r.run(mod.check_case, e["case"]))
        if r.violations:
            known_lines.append("KNOWN-FINDING: property=%s %s [%s]" % (pid, e.get("what", ""), e.get("id", "")))

    # 3. generated search
    specs = mod.shards(tier)
    jobs = [(mod.__name__, spec, tier, seed, i, len(specs)) for i, spec in enumerate(specs)]
    errors = []
    if jobs:
        nproc = min(NPROC, len(jobs))
        inline = nproc <= 1 or bool(os.environ.get("VERIF_INLINE"))
        executor = None
        if inline:
            results = map(_worker, jobs)
        else:
            # ProcessPoolExecutor (not multiprocessing.Pool): a worker that dies (e.g. OOM-killed) breaks
            # the pool and surfaces as a harness error instead of hanging the run forever
            import concurrent.futures as cf

            executor = cf.ProcessPoolExecutor(nproc, mp_context=multiprocessing.get_context("fork"))
            futures = [executor.submit(_worker, j) for j in jobs]

            def _results():
                for fut in cf.as_completed(futures):
                    try:
                        yield fut.result()
                    except BaseException as e:  # noqa: BLE001 - BrokenProcessPool etc.
                        yield ("error", "worker process failed: %s: %s" % (type(e).__name__, e))

            results = _results()
        stopped_early = False
        for status, payload in results:
            if status == "error":
                errors.append(payload)
            else:
                total.merge(payload)
                # sensitivity / seeded runs only need the first violation
                if payload.violations and os.environ.get("VERIF_STOP_ON_VIOLATION"):
                    stopped_early = True
                    break
        if executor is not None:
            if stopped_early:
                procs = list(getattr(executor, "_processes", {}).values())
                executor.shutdown(wait=False, cancel_futures=True)
                for pr in procs:
                    try:
                        pr.terminate()
                    except Exception:  # noqa: BLE001
                        pass
            else:
                executor.shutdown(wait=True)

    seen = set()
    for v in total.violations:
        c = canon(v["case"])
        if c in seen:
            continue
        seen.add(c)
        if c in known_canon:
            e = known_canon[c]
            line = "KNOWN-FINDING: property=%s %s [%s]" % (pid, e.get("what", ""), e.get("id", ""))
            if line not in known_lines:
                known_lines.append(line)
            continue
        violations_out.append((write_found(pid, v), v["msg"]))

    wall = time.time() - t0
    distinct_nt = len(total.nt)
    samples = []
    for c in [total.first] + [c for _, c in total.samples] + [total.last]:
        if c is not None and c not in samples:
            samples.append(c)
    coverage = {
        "evaluations": total.evaluations,
        "distinct_nontrivial": distinct_nt,
        "rule": mod.RULE,
        "samples": _jsonable(samples[:6]),
        "labels": dict(sorted(total.labels.items())),
        "excluded_known": total.excluded,
        "discarded_ambiguous": total.discarded,
        "replayed_files": nreplayed,
        "known_findings_replayed": len(known),
        "shards": len(specs),
    }
    if total.nt_overflow:
        coverage["nontrivial_not_counted_after_cap"] = total.nt_overflow
    coverage.update(_jsonable(total.extra))
    if getattr(mod, "EXHAUSTIVE", None):
        coverage["exhaustive"] = True
        coverage["exhaustive_note"] = mod.EXHAUSTIVE if isinstance(mod.EXHAUSTIVE, str) else ""
    evidence = {
        "property_id": pid,
        "tier": tier,
        "seed": seed,
        "level": mod.LEVEL,
        "coverage": coverage,
        "assumptions": list(getattr(mod, "ASSUMPTIONS", [])),
        "wall_s": round(wall, 2),
        "violations": len(violations_out),
    }
    evdir = os.environ.get("VERIF_EVIDENCE_DIR") or os.path.join(VERIF, "evidence")
    os.makedirs(evdir, exist_ok=True)
    with open(os.path.join(evdir, pid + ".json"), "w") as f:
        json.dump(evidence, f, indent=1, default=repr)
        f.write("\n")

    for line in known_lines:
        print(line)
    for path, msg in violations_out:
        print("VIOLATION property=%s replay=%s" % (pid, path))
        print("  " + msg.replace("\n", "\n  ")[:2000])
    print(
        "%s %s seed=%d: %d cases, %d distinct non-trivial, %d excluded, %d discarded, %d replays, %d violations, %.1fs"
        % (pid, tier, seed, total.evaluations, distinct_nt, total.excluded, total.discarded, nreplayed, len(violations_out), wall)
    )
    if total.labels:
        print("  labels: " + ", ".join("%s=%d" % kv for kv in sorted(total.labels.items())))
    if violations_out:
        return 1
    if errors:
        print("HARNESS-ERROR property=%s (%d shard(s) failed)" % (pid, len(errors)), file=sys.stderr)
        print(errors[0], file=sys.stderr)
        return 2
    floor = getattr(mod, "floors", None)
    if floor is not None:
        msg = floor(total, tier)
        if msg:
            print("HARNESS-ERROR property=%s generator floor not met: %s" % (pid, msg), file=sys.stderr)
            return 2
    if distinct_nt < 2:
        print("HARNESS-ERROR property=%s fewer than 2 non-trivial cases" % pid, file=sys.stderr)
        return 2
    return 0


def run_replay(mod, path):
    with open(path) as f:
        doc = json.load(f)
    r = Rec()
    r.run(mod.check_case, doc["case"])
    if r.violations:
        print("VIOLATION property=%s replay=%s" % (mod.PID, path))
        print("  " + r.violations[0]["msg"][:4000])
        tb = (r.violations[0].get("details") or {}).get("traceback")
        if tb:
            print(tb)
        return 1
    print("%s replay %s: holds" % (mod.PID, path))
    return 0
