"""C07 - the loop variable reports correct iteration state for every iterable.

Three case kinds (plain JSON), all judged by the specification functions below, which compute the
documented value of every ``loop`` attribute from the materialised list and never look at jinja2:

``{"kind": "q", "items": [0, 3, 1], "q": ["last", "length"], "mask": "10", "envs": [...], "forms": [...]}``
    exhaustive part: ``{% for x in seq %}{{ x }}<queries on the iterations selected by mask>;{% endfor %}``
    rendered for every form of the iterable in the sync and the async environment ("envs"/"forms" are
    optional restrictions, used by minimised replays).

``{"kind": "f", "env": "sync", "form": "gen", "undef": "default"|"strict"|"debug"|"chainable", "items": [...], "filter": cond|null, "else": bool, "body": [stmt...]}``
    Hypothesis part: loop filter, else branch, break / continue (loopcontrols extension), conditional queries.

``{"kind": "n", "env": "sync", "form": "gen", "rows": [[0, 1], [], [2]], "pos": "iter"|"filter"|"else", "a": "revindex", "direct": false}``
    nested loops (enumerated): the outer loop's ``loop`` is read inside the inner for tag -- in its iterable, its loop
    filter or its else branch, all of which belong to the outer loop's scope -- and, unless "direct", nowhere else.

``{"kind": "r", "env": "async", "cform": "agen", "tree": [node...], "q": [...], "filter": cond|null, "else": bool}``
    Hypothesis part: recursive loop over a tree (node = {"v": int, "c": [node...]}), checking depth / depth0
    and the per-level iteration state.
"""
import asyncio
import itertools

from vt import core

PID = "C07"
LEVEL = "exploration"
EXHAUSTIVE = (
    "every tier enumerates completely: all item sequences of length 0-4 over {0,1,2,3} x every ordered selection "
    "(with repetition) of <= 2 queries from the 12 documented loop attributes x query masks over the iteration number "
    "{1, 10, 01, 001, 011} x iterable forms {list, tuple, iterator, generator, sized non-sequence} in the sync "
    "environment and {list, iterator, generator, sized non-sequence, async generator, suspending async generator} in "
    "the async environment, plus in both, when the items are distinct, a dict and a label-indexed non-dict mapping "
    "with the items as keys"
)
RULE = (
    "(1) itertools enumeration sliced over 16 shards: item sequences over {0,1,2,3} (quick length 0-4; thorough 0-6 for <= 2 "
    "queries and 0-5 for 3 queries) x ordered query selections with repetition from {index, index0, revindex, revindex0, "
    "first, last, length, previtem, nextitem, depth, cycle, changed} (quick <= 2, thorough <= 3) x iteration masks (which iterations, by "
    "index modulo the mask length, run the queries: 1/10/01/001/011, thorough also 100 for <= 2 queries, 1/10/01 for 3) x 11 iterable-form/environment pairs (15 when the items are distinct: dict and "
    "label-indexed mapping keyed by the items, whose [] is not positional), each rendered and compared with the "
    "specification, plus a block of loop.cycle argument shapes (one scalar, one list, one tuple, two scalars, a list among "
    "several) alone and followed by last / length; (1b) enumerated nested loops: the outer loop attribute is read only inside the inner for tag's iterable, "
    "loop filter or else branch (3 positions x attributes x with/without an additional direct use x row sets (6 fixed ones plus all lists of <= 3, "
    "thorough <= 4, rows from {[], [0], [1,2], [3,0,1]}) x 11 "
    "form/environment pairs of the outer iterable); (1c) enumerated plain and recursive loops that print the missing neighbour (previtem "
    "in the first, nextitem in the last iteration) under the default, strict, debug and chainable undefined types; "
    "(2) Hypothesis (environment's undefined type drawn from those four): loops with a loop filter, else branch, break/continue and conditional queries, and "
    "recursive loops over trees of depth <= 4 with per-level forms, in sync and async (real event loop, async generators "
    "that suspend) environments. Non-trivial = (1) a look-ahead attribute (last, nextitem, length, revindex, revindex0) "
    "queried on some but not all iterations of a sequence with >= 2 items (every case renders unsized forms); (1b) the outer "
    "loop is read only from inside the nested for tag; (2) the filter "
    "removed an item, the else branch was due, a break/continue fired, or the recursion went below the top level; "
    "distinct = distinct case."
)
ASSUMPTIONS = [
    "attribute values transcribed from docs/templates.rst (loop variable table, loop filtering, else, recursive loops) "
    "and docs/extensions.rst (loop controls); attributes of a filtered loop describe the filtered sequence",
    "previtem / nextitem at the ends are the environment's undefined type (docs/api.rst: Undefined types): printing it "
    "gives '' (default, chainable), a '{{ ... }}' placeholder whose wording is not compared (debug) or UndefinedError "
    "(strict; also for == on it); the other queries guard them with 'is defined'",
    "loop.cycle returns args[index0 % len(args)] (docstring): a single list or tuple argument is returned as is",
    "the iterable, the loop filter and the else branch of a for tag are outside that loop's own body: `loop` there is "
    "the enclosing loop's (tests/test_core_tags.py::test_loop_errors shows the tag's own loop is not visible there; "
    "docs: loop refers to the innermost loop whose body is being rendered)",
    "looping over a mapping visits its keys in insertion order and loop attributes describe that key sequence",
    "iterables are consumed once, are not shared between loops and raise nothing; item values are small ints",
    "the exhaustive part drives render_async() by hand (coroutine.send), the Hypothesis part uses asyncio.run",
    "compiled templates are memoised per process by (environment kind, source): templates are stateless (C29)",
    "for-else after break/continue (fixed finding: the else branch ran when no iteration completed the loop body) is "
    "generated and judged; regression inputs in replays/C07/else_after_*.json",
]

ATTRS = ["index", "index0", "revindex", "revindex0", "first", "last", "length", "previtem", "nextitem", "depth",
         "cycle", "changed"]
EXTRA_ATTRS = ["depth0", "cycle1", "cycle2", "changedx", "cycleL", "cycleT", "cycleM", "prev_u", "next_u"]
# argument shapes of loop.cycle: one scalar, one list, one tuple, two scalars, a list among several (cycle = three scalars)
CYCLE_SHAPES = ["cycle1", "cycleL", "cycleT", "cycle2", "cycleM"]
# prev_u / next_u USE the missing neighbour: ((loop.previtem if loop.previtem is undefined else 'I')|string)[:2]
UNDEFS = ["default", "strict", "debug", "chainable"]
UNDEFINED_ERROR = "<UndefinedError>"


class _UndefUse(Exception):
    """The specification reached a use of an undefined value that the environment's undefined type rejects."""


def _edge_text(undef):
    """First two characters of the printed undefined neighbour (docs/api.rst, Undefined types)."""
    if undef == "strict":
        raise _UndefUse()
    if undef == "debug":
        return "{{"  # DebugUndefined prints a {{ ... }} placeholder; its wording is not compared
    if undef in ("default", "chainable"):
        return ""
    raise core.HarnessError("undefined type %r" % (undef,))
LOOKAHEAD = {"last", "nextitem", "length", "revindex", "revindex0"}
SYNC_FORMS = ["list", "tuple", "iter", "gen", "sized"]
ASYNC_FORMS = ["list", "iter", "gen", "sized", "agen", "agen_s"]
UNSIZED = {"iter", "gen", "agen", "agen_s"}
# iterables whose [] is a key lookup, not a position (only for sequences of distinct items, which become the keys)
MAPPING_FORMS = ["dict", "keyed"]


# ----------------------------------------------------------------------------------------
# specification (no jinja2 in here)


class _Never:
    pass


def attr_value(name, i, vals, depth0, state):
    """Documented value of loop.<name> in iteration i (0-based) over the materialised ``vals``."""
    n = len(vals)
    if name == "index":
        return i + 1
    if name == "index0":
        return i
    if name == "revindex":
        return n - i
    if name == "revindex0":
        return n - i - 1
    if name == "first":
        return i == 0
    if name == "last":
        return i == n - 1
    if name == "length":
        return n
    if name == "previtem":
        return vals[i - 1] if i > 0 else "U"
    if name == "nextitem":
        return vals[i + 1] if i < n - 1 else "U"
    if name == "depth":
        return depth0 + 1
    if name == "depth0":
        return depth0
    if name == "cycleL":
        return ["a", "b"]  # one list argument: that list on every iteration, printed as a list
    if name == "cycleT":
        return ("a", "b")
    if name == "cycleM":
        return (["a", "b"], "c")[i % 2]
    if name == "prev_u":
        return "I" if i > 0 else _edge_text(state.get("undef", "default"))
    if name == "next_u":
        return "I" if i < n - 1 else _edge_text(state.get("undef", "default"))
    if name.startswith("cycle"):
        k = int(name[5:] or 3)
        return "abc"[i % k]
    if name in ("changed", "changedx"):
        key = (vals[i] // 2,) if name == "changed" else ("x", vals[i])
        changed = state.get("chg", _Never) != key
        state["chg"] = key
        return changed
    raise core.HarnessError("attribute %r" % (name,))


def attr_expr(name, item="x"):
    if name in ("previtem", "nextitem"):
        return "(loop.%s%s if loop.%s is defined else 'U')" % (name, item[1:], name)
    if name == "cycleL":
        return "loop.cycle(['a', 'b'])"
    if name == "cycleT":
        return "loop.cycle(('a', 'b'))"
    if name == "cycleM":
        return "loop.cycle(['a', 'b'], 'c')"
    if name in ("prev_u", "next_u"):
        a = "loop.previtem" if name == "prev_u" else "loop.nextitem"
        return "((%s if %s is undefined else 'I')|string)[:2]" % (a, a)
    if name.startswith("cycle"):
        k = int(name[5:] or 3)
        return "loop.cycle(%s)" % ", ".join("'%s'" % c for c in "abc"[:k])
    if name == "changed":
        return "loop.changed(%s // 2)" % item
    if name == "changedx":
        return "loop.changed('x', %s)" % item
    if name in ATTRS or name in EXTRA_ATTRS:
        return "loop." + name
    raise core.HarnessError("attribute %r" % (name,))


def cond_value(c, i, vals, undef="default"):
    k = c["c"]
    x = vals[i]
    n = len(vals)
    if k == "mod":
        return x % c["k"] == c["r"]
    if k == "lt":
        return x < c["k"]
    if k == "ne":
        return x != c["k"]
    if k == "idx":
        return i % c["k"] == c["r"]
    if k == "last":
        return i == n - 1
    if k == "first":
        return i == 0
    if k == "nexteq":
        if i == n - 1 and undef == "strict":
            raise _UndefUse()  # comparing a StrictUndefined raises
        return i < n - 1 and vals[i + 1] == c["k"]
    if k == "reveq":
        return n - i - 1 == c["k"]
    if k == "true":
        return True
    raise core.HarnessError("condition %r" % (c,))


def cond_expr(c, item="x"):
    k = c["c"]
    if k == "mod":
        return "%s %% %d == %d" % (item, c["k"], c["r"])
    if k == "lt":
        return "%s < %d" % (item, c["k"])
    if k == "ne":
        return "%s != %d" % (item, c["k"])
    if k == "idx":
        return "loop.index0 %% %d == %d" % (c["k"], c["r"])
    if k == "last":
        return "loop.last"
    if k == "first":
        return "loop.first"
    if k == "nexteq":
        return "loop.nextitem == %d" % c["k"]
    if k == "reveq":
        return "loop.revindex0 == %d" % c["k"]
    if k == "true":
        return "true"
    raise core.HarnessError("condition %r" % (c,))


X_CONDS = ("mod", "lt", "ne")


def _filter_pass(c, v):
    if c is None:
        return True
    if c["c"] not in X_CONDS:
        raise core.HarnessError("loop filter may only look at the item: %r" % (c,))
    return cond_value(c, 0, [v])


# -- kind q ---------------------------------------------------------------------------------


def q_source(q, mask):
    inner = "".join(",{{ %s }}" % attr_expr(a) for a in q)
    if "0" in mask:
        ones = [j for j, ch in enumerate(mask) if ch == "1"]
        if len(ones) == 1:
            test = "loop.index0 %% %d == %d" % (len(mask), ones[0])
        else:
            test = "loop.index0 %% %d in (%s)" % (len(mask), ", ".join(map(str, ones)))
        inner = "{%% if %s %%}%s{%% endif %%}" % (test, inner)
    return "{% for x in seq %}{{ x }}" + inner + ";{% endfor %}"


def q_expected(items, q, mask):
    out = []
    state = {}
    for i, x in enumerate(items):
        parts = [str(x)]
        if mask[i % len(mask)] == "1":
            for a in q:
                parts.append(str(attr_value(a, i, items, 0, state)))
        out.append(",".join(parts) + ";")
    return "".join(out)


# -- kind f ---------------------------------------------------------------------------------


def _stmts_source(stmts):
    out = []
    for s in stmts:
        if s["t"] == "q":
            out.append(",{{ %s }}" % attr_expr(s["a"]))
        elif s["t"] == "ctl":
            if s["what"] not in ("break", "continue"):
                raise core.HarnessError("ctl %r" % (s,))
            out.append("{%% if %s %%}!{%% %s %%}{%% endif %%}" % (cond_expr(s["cond"]), s["what"]))
        elif s["t"] == "if":
            out.append("{%% if %s %%}%s{%% endif %%}" % (cond_expr(s["cond"]), _stmts_source(s["body"])))
        else:
            raise core.HarnessError("stmt %r" % (s,))
    return "".join(out)


def f_source(case):
    flt = " if " + cond_expr(case["filter"]) if case["filter"] else ""
    els = "{% else %}E" if case["else"] else ""
    return "[{%% for x in seq%s %%}{{ x }}%s;%s{%% endfor %%}]" % (flt, _stmts_source(case["body"]), els)


class _Ctl(Exception):
    def __init__(self, what):
        self.what = what


def _run_stmts(stmts, i, vals, state, out):
    for s in stmts:
        if s["t"] == "q":
            out.append("," + str(attr_value(s["a"], i, vals, 0, state)))
        elif s["t"] == "ctl":
            if cond_value(s["cond"], i, vals, state.get("undef", "default")):
                out.append("!")
                raise _Ctl(s["what"])
        else:
            if cond_value(s["cond"], i, vals, state.get("undef", "default")):
                _run_stmts(s["body"], i, vals, state, out)


def f_expected(case):
    """-> (text, facts)"""
    vals = [v for v in case["items"] if _filter_pass(case["filter"], v)]
    out = ["["]
    state = {"undef": case.get("undef", "default")}
    facts = {"removed": len(vals) != len(case["items"]), "else_due": not vals, "break": False, "continue": False,
             "completed": 0, "iterations": 0, "undef_error": False}
    for i, x in enumerate(vals):
        facts["iterations"] += 1
        out.append(str(x))
        try:
            _run_stmts(case["body"], i, vals, state, out)
        except _UndefUse:
            facts["undef_error"] = True
            return UNDEFINED_ERROR, facts
        except _Ctl as c:
            facts[c.what] = True
            if c.what == "break":
                break
            continue
        out.append(";")
        facts["completed"] += 1
    if case["else"] and not vals:
        out.append("E")
    out.append("]")
    return "".join(out), facts


# -- kind r ---------------------------------------------------------------------------------


def r_source(case):
    flt = " if " + cond_expr(case["filter"], "n.v") if case["filter"] else ""
    els = "{% else %}E" if case["else"] else ""
    qs = "".join(",{{ %s }}" % attr_expr(a, "n.v") for a in case["q"])
    return "{%% for n in tree%s recursive %%}<{{ n.v }}:{{ loop.depth }}:{{ loop.depth0 }}%s{{ loop(n.c) }}>%s{%% endfor %%}" % (
        flt, qs, els)


def r_expected(case):
    facts = {"maxdepth": 0, "removed": False, "else_due": False, "undef_error": False}
    undef = case.get("undef", "default")

    def level(nodes, depth0):
        kept = [n for n in nodes if _filter_pass(case["filter"], n["v"])]
        if len(kept) != len(nodes):
            facts["removed"] = True
        if not kept:
            if case["else"]:
                facts["else_due"] = True
                return "E"
            return ""
        facts["maxdepth"] = max(facts["maxdepth"], depth0 + 1)
        vals = [n["v"] for n in kept]
        state = {"undef": undef}
        out = []
        for i, n in enumerate(kept):
            out.append("<%d:%d:%d" % (n["v"], depth0 + 1, depth0))
            for a in case["q"]:
                out.append("," + str(attr_value(a, i, vals, depth0, state)))
            out.append(level(n["c"], depth0 + 1))
            out.append(">")
        return "".join(out)

    try:
        return level(case["tree"], 0), facts
    except _UndefUse:
        facts["undef_error"] = True
        return UNDEFINED_ERROR, facts


# ----------------------------------------------------------------------------------------
# iterables and rendering


class _Suspend:
    """An awaitable that suspends the coroutine once (like asyncio.sleep(0)), usable with and without a loop."""

    def __await__(self):
        yield


class Sized:
    """Iterable with a length that is not a sequence."""

    def __init__(self, items):
        self._items = list(items)

    def __len__(self):
        return len(self._items)

    def __iter__(self):
        return iter(list(self._items))


class Keyed:
    """A sized iterable over labels whose [] looks a label up (like a label-indexed series); not a dict."""

    def __init__(self, mapping):
        self._mapping = dict(mapping)

    def __len__(self):
        return len(self._mapping)

    def __iter__(self):
        return iter(list(self._mapping))

    def __getitem__(self, label):
        return self._mapping[label]


def make_iterable(form, items):
    items = list(items)
    if form == "list":
        return items
    if form == "tuple":
        return tuple(items)
    if form == "iter":
        return iter(items)
    if form == "gen":
        return (x for x in items)
    if form == "sized":
        return Sized(items)
    if form in MAPPING_FORMS:
        if len(set(items)) != len(items):
            raise core.HarnessError("mapping form needs distinct items: %r" % (items,))
        mapping = {k: "V%s" % (k,) for k in items}  # iterating a mapping yields its keys, in insertion order
        return mapping if form == "dict" else Keyed(mapping)
    if form == "agen":
        async def agen():
            for x in items:
                yield x
        return agen()
    if form == "agen_s":
        async def agen_s():
            for x in items:
                await _Suspend()
                yield x
            await _Suspend()
        return agen_s()
    raise core.HarnessError("form %r" % (form,))


def _drive(coro):
    try:
        while True:
            coro.send(None)
    except StopIteration as e:
        return e.value


_memo = {}


def _template(envkind, src, undef="default"):
    key = (envkind, src, undef)
    t = _memo.get(key)
    if t is None:
        import jinja2
        from jinja2 import Environment

        if len(_memo) > 32:
            _memo.clear()
        if undef not in UNDEFS:
            raise core.HarnessError("undefined type %r" % (undef,))
        ucls = {"default": jinja2.Undefined, "strict": jinja2.StrictUndefined, "debug": jinja2.DebugUndefined,
                "chainable": jinja2.ChainableUndefined}[undef]
        env = Environment(enable_async=envkind == "async", extensions=["jinja2.ext.loopcontrols"], undefined=ucls)
        t = _memo[key] = env.from_string(src)
    return t


def _forms(envkind, items=None):
    """Forms of the iterable for an environment; with ``items``: also the mapping forms when the items are distinct."""
    base = SYNC_FORMS if envkind == "sync" else ASYNC_FORMS
    if items is not None and len(set(items)) == len(items):
        return base + MAPPING_FORMS
    return base


def _check_q(case):
    items, q, mask = case["items"], case["q"], case["mask"]
    if not mask or set(mask) - {"0", "1"} or "1" not in mask:
        raise core.HarnessError("mask %r" % (mask,))
    src = q_source(q, mask)
    exp = q_expected(items, q, mask)
    for envkind in case.get("envs") or ("sync", "async"):
        t = _template(envkind, src)
        for form in case.get("forms") or _forms(envkind, items):
            if form not in _forms(envkind, items):
                continue
            seq = make_iterable(form, items)
            got = t.render(seq=seq) if envkind == "sync" else _drive(t.render_async(seq=seq))
            if got != exp:
                raise core.Violation(
                    "loop attributes differ from the specification\n template: %s\n seq: %s form of %r, %s environment\n"
                    " expected: %r\n observed: %r" % (src, form, items, envkind, exp, got),
                    env=envkind, form=form, expected=exp, observed=got, source=src)
    masked = "0" in mask and any(mask[i % len(mask)] == "0" for i in range(len(items))) and any(
        mask[i % len(mask)] == "1" for i in range(len(items)))
    look = sorted(set(q) & LOOKAHEAD)
    nontrivial = bool(look) and masked and len(items) >= 2
    labels = ["kind_q", "len_%d" % len(items), "nq_%d" % len(q), "mask_" + mask]
    if len(set(items)) == len(items) and len(items) >= 2:
        labels.append("q_mapping_forms")
    if look:
        labels.append("q_lookahead_partial" if masked else "q_lookahead_every_iteration")
    return core.Outcome(nontrivial, labels)


def _render_one(envkind, src, ctx, undef="default"):
    from jinja2 import UndefinedError

    t = _template(envkind, src, undef)
    try:
        if envkind == "sync":
            return t.render(ctx)
        return asyncio.run(t.render_async(ctx))
    except UndefinedError:
        return UNDEFINED_ERROR


def _check_f(case):
    envkind, form = case["env"], case["form"]
    if form not in _forms(envkind, case["items"]):
        raise core.HarnessError("form %s in %s environment for %r" % (form, envkind, case["items"]))
    exp, facts = f_expected(case)
    src = f_source(case)
    undef = case.get("undef", "default")
    got = _render_one(envkind, src, {"seq": make_iterable(form, case["items"])}, undef)
    if got != exp:
        raise core.Violation(
            "loop output differs from the specification\n template: %s\n seq: %s form of %r, %s environment\n expected: %r\n"
            " observed: %r" % (src, form, case["items"], envkind + "/" + undef + "-undefined", exp, got),
            expected=exp, observed=got, source=src)
    labels = ["kind_f", "env_" + envkind, "form_" + form, "undef_" + undef]
    if facts["undef_error"]:
        labels.append("exp_undefined_error")
    for k in ("removed", "else_due", "break", "continue"):
        if facts[k]:
            labels.append("f_" + k)
    if case["filter"]:
        labels.append("f_filter")
    if case["else"] and facts["iterations"] > 0 and facts["completed"] == 0 and not facts["undef_error"]:
        labels.append("f_else_no_iteration_completed")
    nontrivial = facts["removed"] or facts["else_due"] or facts["break"] or facts["continue"]
    return core.Outcome(nontrivial, labels)


def _build_tree(nodes, cform):
    return make_iterable(cform, [{"v": n["v"], "c": _build_tree(n["c"], cform)} for n in nodes])


def _check_r(case):
    envkind, cform = case["env"], case["cform"]
    if cform not in _forms(envkind):
        raise core.HarnessError("form %s in %s environment" % (cform, envkind))
    exp, facts = r_expected(case)
    src = r_source(case)
    undef = case.get("undef", "default")
    got = _render_one(envkind, src, {"tree": _build_tree(case["tree"], cform)}, undef)
    if got != exp:
        raise core.Violation(
            "recursive loop output differs from the specification\n template: %s\n tree: %r (%s containers), %s environment\n"
            " expected: %r\n observed: %r" % (src, case["tree"], cform, envkind + "/" + undef + "-undefined", exp, got),
            expected=exp, observed=got, source=src)
    labels = ["kind_r", "env_" + envkind, "form_" + cform, "r_depth_%d" % facts["maxdepth"], "undef_" + undef]
    if facts["undef_error"]:
        labels.append("exp_undefined_error")
    if set(case["q"]) & {"prev_u", "next_u"} and facts["maxdepth"] >= 1:
        labels.append("r_neighbour_used_" + undef)
    if facts["removed"]:
        labels.append("r_removed")
    if facts["else_due"]:
        labels.append("r_else_due")
    return core.Outcome(facts["maxdepth"] >= 2, labels)


# -- kind n: nested loops reading the outer loop from inside the inner for tag ------------------

N_ATTRS = ["index", "index0", "revindex", "revindex0", "first", "last", "length", "depth", "cycle", "changed"]
N_FILTER_ATTRS = ["index", "index0", "revindex", "revindex0", "first", "last", "length", "depth", "cycle"]
N_POS = ["iter", "filter", "else"]


def _n_expr(a):
    # the outer items are rows (lists); changed() is keyed on the row length
    return "loop.changed(row|length)" if a == "changed" else attr_expr(a)


def _n_filter_expr(a):
    if a in ("first", "last"):
        return "loop." + a
    if a == "cycle":
        return "loop.cycle(true, false)"
    return "c < loop." + a


def n_source(case):
    a, pos = case["a"], case["pos"]
    if a not in (N_FILTER_ATTRS if pos == "filter" else N_ATTRS):
        raise core.HarnessError("attribute %r at %r" % (a, pos))
    head = "{{ loop.index }}:" if case["direct"] else ""
    if pos == "iter":
        inner = "{%% for c in row + [%s] %%}{{ c }},{%% endfor %%}" % _n_expr(a)
    elif pos == "filter":
        inner = "{%% for c in row if %s %%}{{ c }},{%% endfor %%}" % _n_filter_expr(a)
    elif pos == "else":
        inner = "{%% for c in row %%}{{ c }},{%% else %%}<{{ %s }}>{%% endfor %%}" % _n_expr(a)
    else:
        raise core.HarnessError("position %r" % (pos,))
    return "{% for row in rows %}" + head + inner + ";{% endfor %}"


def n_expected(case):
    rows, a, pos = case["rows"], case["a"], case["pos"]
    keys = [2 * len(r) for r in rows]  # attr_value's changed() compares vals[i] // 2, here the row length
    state = {}
    out = []
    for i, row in enumerate(rows):
        if case["direct"]:
            out.append("%d:" % (i + 1))
        if pos == "iter":
            out.extend("%s," % c for c in row + [attr_value(a, i, keys, 0, state)])
        elif pos == "filter":
            for c in row:
                v = attr_value(a, i, keys, 0, state)
                keep = v if a in ("first", "last") else (i % 2 == 0 if a == "cycle" else c < v)
                if keep:
                    out.append("%s," % c)
        else:
            if row:
                out.extend("%s," % c for c in row)
            else:
                out.append("<%s>" % attr_value(a, i, keys, 0, state))
        out.append(";")
    return "".join(out)


def _check_n(case):
    envkind, form = case["env"], case["form"]
    if form not in _forms(envkind):
        raise core.HarnessError("form %s in %s environment" % (form, envkind))
    src = n_source(case)
    exp = n_expected(case)
    t = _template(envkind, src)
    rows = make_iterable(form, [list(r) for r in case["rows"]])
    got = t.render(rows=rows) if envkind == "sync" else _drive(t.render_async(rows=rows))
    if got != exp:
        raise core.Violation(
            "nested loop output differs from the specification (outer loop read inside the inner for tag)\n template: %s\n"
            " rows: %s form of %r, %s environment\n expected: %r\n observed: %r" % (src, form, case["rows"], envkind, exp, got),
            expected=exp, observed=got, source=src)
    labels = ["kind_n", "n_pos_" + case["pos"], "n_direct" if case["direct"] else "n_only_nested"]
    return core.Outcome(not case["direct"] and len(case["rows"]) >= 1, labels)


N_ROWSETS_FIXED = [[], [[]], [[], []], [[1], [0, 2]], [[0, 1, 2], [], [3, 1], [2]], [[2, 0, 1], [1, 2, 3], [0], []]]
_N_ROW_ALPHABET = [[], [0], [1, 2], [3, 0, 1]]


def n_cases(tier):
    maxrows = 3 if tier == "quick" else 4
    rowsets = N_ROWSETS_FIXED + [list(map(list, rs)) for k in range(1, maxrows + 1)
                                 for rs in itertools.product(_N_ROW_ALPHABET, repeat=k)]
    for pos in N_POS:
        for a in (N_FILTER_ATTRS if pos == "filter" else N_ATTRS):
            for direct in (False, True):
                for rows in rowsets:
                    for envkind in ("sync", "async"):
                        for form in _forms(envkind):
                            yield {"kind": "n", "env": envkind, "form": form, "rows": rows, "pos": pos, "a": a,
                                   "direct": direct}


# -- enumerated: the missing neighbour is used, under every undefined type (kinds f and r) ------

_U_ITEMS = [[], [1], [1, 2, 3]]
_U_TREES = [[{"v": 1, "c": []}],
            [{"v": 1, "c": [{"v": 2, "c": []}, {"v": 3, "c": []}]}, {"v": 2, "c": []}],
            [{"v": 0, "c": [{"v": 1, "c": [{"v": 2, "c": []}]}]}]]


def u_cases(tier):
    for undef in UNDEFS:
        for a in ("prev_u", "next_u"):
            for envkind in ("sync", "async"):
                for form in _forms(envkind):
                    for items in _U_ITEMS:
                        yield {"kind": "f", "env": envkind, "form": form, "undef": undef, "items": items, "filter": None,
                               "else": False, "body": [{"t": "q", "a": a}]}
                        yield {"kind": "f", "env": envkind, "form": form, "undef": undef, "items": items, "filter": None,
                               "else": True, "body": [{"t": "if", "cond": {"c": "idx", "k": 2, "r": 0},
                                                       "body": [{"t": "q", "a": a}]}]}
                    for tree in _U_TREES:
                        yield {"kind": "r", "env": envkind, "cform": form, "undef": undef, "tree": tree, "q": [a],
                               "filter": None, "else": False}


def check_case(case):
    kind = case["kind"]
    if kind == "n":
        return _check_n(case)
    if kind == "q":
        return _check_q(case)
    if kind == "f":
        return _check_f(case)
    if kind == "r":
        return _check_r(case)
    raise core.HarnessError("kind %r" % (kind,))


# ----------------------------------------------------------------------------------------
# enumeration (kind q)


def _selections(maxq, exactly=None):
    rng = [exactly] if exactly is not None else range(maxq + 1)
    for r in rng:
        for q in itertools.product(ATTRS, repeat=r):
            yield list(q)


def _sequences(minlen, maxlen):
    for L in range(minlen, maxlen + 1):
        for items in itertools.product(range(4), repeat=L):
            yield list(items)


def q_cases(tier):
    shapes = [[a] for a in CYCLE_SHAPES] + [[a, b] for a in CYCLE_SHAPES for b in ("last", "length")]
    if tier == "quick":
        blocks = [(_selections(2), ["1", "10", "01", "001", "011"], 4),
                  (shapes, ["1", "10", "01"], 4)]
    else:
        blocks = [(_selections(2), ["1", "10", "01", "001", "011", "100"], 6),
                  (_selections(3, exactly=3), ["1", "10", "01"], 5),
                  (shapes, ["1", "10", "01", "001", "011", "100"], 5)]
    for sels, masks, maxlen in blocks:
        for q in sels:
            for mask in masks:
                if not q and mask != "1" and mask != "10":
                    continue  # without queries the mask only changes the (empty) if block
                for items in _sequences(0, maxlen):
                    yield {"kind": "q", "items": items, "q": q, "mask": mask}


# ----------------------------------------------------------------------------------------
# Hypothesis strategies (kinds f and r); they yield the JSON case directly


def _strategies():
    from hypothesis import strategies as st

    attr = st.sampled_from(ATTRS + EXTRA_ATTRS + sorted(LOOKAHEAD))  # look-ahead attributes twice as likely

    @st.composite
    def x_cond(draw):
        k = draw(st.sampled_from(X_CONDS))
        if k == "mod":
            m = draw(st.integers(2, 3))
            return {"c": "mod", "k": m, "r": draw(st.integers(0, m - 1))}
        return {"c": k, "k": draw(st.integers(0, 5))}

    @st.composite
    def any_cond(draw):
        k = draw(st.sampled_from(["x", "x", "idx", "last", "first", "nexteq", "reveq", "true"]))
        if k == "x":
            return draw(x_cond())
        if k == "idx":
            m = draw(st.integers(2, 3))
            return {"c": "idx", "k": m, "r": draw(st.integers(0, m - 1))}
        if k == "nexteq":
            return {"c": k, "k": draw(st.integers(0, 5))}
        if k == "reveq":
            return {"c": k, "k": draw(st.integers(0, 3))}
        return {"c": k}

    q_stmt = st.builds(lambda a: {"t": "q", "a": a}, attr)
    ctl_stmt = st.builds(lambda w, c: {"t": "ctl", "what": w, "cond": c}, st.sampled_from(["break", "continue"]), any_cond())
    if_stmt = st.builds(lambda c, b: {"t": "if", "cond": c, "body": b}, any_cond(), st.lists(q_stmt, min_size=1, max_size=3))
    stmt = st.one_of(q_stmt, q_stmt, ctl_stmt, if_stmt)

    @st.composite
    def env_form(draw):
        envkind = draw(st.sampled_from(["sync", "async"]))
        return envkind, draw(st.sampled_from(_forms(envkind)))

    @st.composite
    def f_case(draw):
        envkind = draw(st.sampled_from(["sync", "async"]))
        items = draw(st.lists(st.integers(0, 5), max_size=7))
        form = draw(st.sampled_from(_forms(envkind, items)))  # mapping forms only when the items are distinct
        return {"kind": "f", "env": envkind, "form": form, "undef": draw(st.sampled_from(UNDEFS)),
                "items": items,
                "filter": draw(st.one_of(st.none(), x_cond())),
                "else": draw(st.booleans()),
                "body": draw(st.lists(stmt, max_size=5))}

    node = st.recursive(
        st.builds(lambda v: {"v": v, "c": []}, st.integers(0, 5)),
        lambda kids: st.builds(lambda v, c: {"v": v, "c": c}, st.integers(0, 5), st.lists(kids, max_size=3)),
        max_leaves=8)

    def _depth(nodes):
        return 1 + max(map(_depth, (n["c"] for n in nodes))) if nodes else 0

    def _prune(nodes, depth):
        if depth == 0:
            return []
        return [{"v": n["v"], "c": _prune(n["c"], depth - 1)} for n in nodes]

    @st.composite
    def r_case(draw):
        envkind, cform = draw(env_form())
        tree = _prune(draw(st.lists(node, min_size=1, max_size=3)), 4)
        return {"kind": "r", "env": envkind, "cform": cform, "undef": draw(st.sampled_from(UNDEFS)), "tree": tree,
                "q": draw(st.lists(attr, max_size=3)),
                "filter": draw(st.one_of(st.none(), x_cond())),
                "else": draw(st.booleans())}

    return f_case(), r_case()


def shards(tier):
    return [{"i": i} for i in range(16)]


def run_shard(spec, ctx):
    rec = core.Rec()
    for case in core.sliced(q_cases(ctx.tier), ctx.index, ctx.nshards):
        if not rec.run(check_case, case):
            _minimise_q(rec, case)
            if len(rec.violations) >= 3:
                break
    core.enum_shard(core.sliced(n_cases(ctx.tier), ctx.index, ctx.nshards), check_case, ctx, rec=rec)
    core.enum_shard(core.sliced(u_cases(ctx.tier), ctx.index, ctx.nshards), check_case, ctx, rec=rec)
    f_case, r_case = _strategies()
    core.hyp_shard(f_case, check_case, ctx, ctx.pick(2500, 30000), rec=rec, tag="f")
    core.hyp_shard(r_case, check_case, ctx, ctx.pick(1200, 15000), rec=rec, tag="r")
    return rec


def _minimise_q(rec, case):
    """Replace the last violation (a case rendered in all forms / environments) by the first failing
    single (environment, form) restriction of it."""
    whole = rec.violations.pop()
    for envkind in ("sync", "async"):
        for form in _forms(envkind, case["items"]):
            small = dict(case, envs=[envkind], forms=[form])
            probe = core.Rec()
            if not probe.run(check_case, small):
                rec.violations.append(probe.violations[0])
                return
    rec.violations.append(whole)


def floors(total, tier):
    lab = total.labels
    need = {"kind_q": 1000, "q_lookahead_partial": 1000, "kind_f": 1000, "kind_r": 500, "kind_n": 1000, "n_only_nested": 500, "q_mapping_forms": 1000, "form_dict": 50, "form_keyed": 50, "r_neighbour_used_strict": 30,
            "r_neighbour_used_debug": 30, "r_neighbour_used_chainable": 30, "exp_undefined_error": 50, "f_removed": 200, "f_else_due": 100,
            "f_break": 200, "f_continue": 200, "r_depth_3": 50, "r_else_due": 100, "env_async": 500, "form_agen_s": 50}
    low = ["%s=%d<%d" % (k, lab.get(k, 0), v) for k, v in need.items() if lab.get(k, 0) < v]
    if low:
        return "classes below floor: " + ", ".join(low)
    return None
