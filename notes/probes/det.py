import sys, hashlib
from jinja2 import Environment
e=Environment(extensions=['jinja2.ext.i18n','jinja2.ext.do','jinja2.ext.loopcontrols'])
srcs=[
"{% if a %}{% set alpha=1 %}{% set beta=2 %}{% set gamma=3 %}{% set delta=4 %}{% else %}{% set eps=1 %}{% set zeta=2 %}{% endif %}{{ alpha }}{{ beta }}{{ gamma }}{{ delta }}{{ eps }}{{ zeta }}",
"{% for a,b,c,d,e in x %}{% set q,r,s,t,u = a,b,c,d,e %}{% include 'z' %}{% endfor %}",
"{% from 'm' import aa, bb, cc, dd, ee with context %}{% macro m(x) %}{{ varargs }}{{ kwargs }}{{ caller() }}{% endmacro %}",
"{{ x|upper|lower|title|trim|e|safe|int|float|abs }}{{ y is odd }}{{ y is even }}{{ y is string }}{{ y is number }}{{ y is mapping }}",
"{% set a1,b1,c1,d1,e1,f1,g1 = 1,2,3,4,5,6,7 %}{% block k scoped %}{{ a1 }}{% endblock %}",
"{% with aa=1,bb=2,cc=3,dd=4 %}{% include 'z' %}{% endwith %}{% set zz=1 %}{% set yy=1 %}{% set xx=2 %}",
"{% if a %}{% set n1 = 1 %}{% elif b %}{% set n2 = 1 %}{% set n3 = 1 %}{% else %}{% set n4 = 1 %}{% set n5=1 %}{% set n6=1 %}{% endif %}{% include 'z' %}{{ n1 }}{{ n2 }}{{ n3 }}{{ n4 }}{{ n5 }}{{ n6 }}",
"{% trans a=1,b=2,c=3,d=4 %}{{ a }}{{ b }}{{ c }}{{ d }}{{ e }}{{ f }}{{ g }}{% endtrans %}",
"{% trans %}{{ e1 }}{{ f1 }}{{ g1 }}{{ h1 }}{{ i1 }}{% pluralize %}{{ e1 }}{{ j1 }}{{ k1 }}{% endtrans %}",
]
h=hashlib.sha1()
for s in srcs:
    code=e.compile(s, raw=True); h.update(code.encode())
    print(hashlib.sha1(code.encode()).hexdigest()[:10], end=" ")
print()
