#!/bin/bash
# usage: tools/seeded_verify.sh <ID-k>   -- confirm a seeded change from /tmp/seed-out/<ID-k> in a fresh scratch worktree of /repo HEAD,
# then store it as /verif/seeded/<ID-k>/ (patch.diff, demo.py, meta.json with what was run).  The worktree is removed afterwards.
set -u
id=$1; src=/tmp/seed-out/$id; wt=/tmp/sv-$id-$$
[ -f $src/patch.diff ] || { echo "$id: no patch"; exit 2; }
git -C /repo worktree add -q --detach $wt HEAD || exit 2
trap "git -C /repo worktree remove --force $wt >/dev/null 2>&1" EXIT
cd $wt
run() { PYTHONPATH=$wt/src timeout 300 /venv/bin/python "$@"; }
run $src/demo.py > /tmp/sv-$id.clean.out 2>&1; clean=$?
if ! git apply --check $src/patch.diff 2>/tmp/sv-$id.apply.err; then echo "$id: PATCH DOES NOT APPLY at HEAD: $(head -2 /tmp/sv-$id.apply.err)"; exit 3; fi
git apply $src/patch.diff
run $src/demo.py > /tmp/sv-$id.patched.out 2>&1; patched=$?
PYTHONPATH=$wt/src timeout 900 /venv/bin/python -m pytest -q -p no:cacheprovider -x tests > /tmp/sv-$id.tests.out 2>&1; tests=$?
summary=$(tail -1 /tmp/sv-$id.tests.out)
echo "$id: demo clean=$clean patched=$patched tests=$tests ($summary)"
if [ $clean -eq 0 ] && [ $patched -ne 0 ] && [ $tests -eq 0 ]; then
  mkdir -p /verif/seeded/$id; cp $src/patch.diff $src/demo.py /verif/seeded/$id/
  head_sha=$(git -C /repo rev-parse --short HEAD)
  /venv/bin/python - "$id" "$head_sha" "$summary" <<'PY'
import json, sys
id, head, summary = sys.argv[1:4]
m = json.load(open("/tmp/seed-out/%s/meta.json" % id))
out = {"property": m.get("property", id.split("-")[0]), "breaks": m.get("summary"), "needs_to_manifest": m.get("needs"), "files": m.get("files"),
       "confirmed": {"repo_head": head, "ran": ["demo.py on a clean scratch worktree of /repo HEAD: exit 0", "git apply patch.diff; demo.py: exit != 0", "pytest tests (unedited suite) with the patch: " + summary], "worktree_removed": True},
       "detected_by": None}
json.dump(out, open("/verif/seeded/%s/meta.json" % id, "w"), indent=1)
PY
  echo "$id: KEPT"
else
  echo "$id: REJECTED"; exit 4
fi
