"""C11 - plain text, comments and raw blocks render verbatim.

Cases
  {"kind": "plain", "src": s}                      a source without any delimiter start; rendered under all six
                                                   newline_sequence x keep_trailing_newline settings
  {"kind": "skel", "sk": abstract skeleton, "syn": name}   text + comment + raw segments only

Oracles: (plain) ws.plain_text - split at \r\n | \r | \n, drop one trailing empty line unless
keep_trailing_newline, join with newline_sequence; (skel) the whitespace model, plus - when no tag
carries '-' and trimming is off - the direct statement "comments contribute nothing, raw bodies
are verbatim" computed piecewise with ws.plain_text.
"""
from vt import core
from vt.gen import skel
from vt.ref import ws

PID = "C11"
LEVEL = "exploration"
EXHAUSTIVE = (
    "every string of <= 4 (quick) / <= 5 (thorough) symbols over the 15-symbol alphabet {a { } % # space tab \\n \\r \\r\\n - e-acute "
    "U+000C U+2028 U+0085}, and in the thorough tier additionally every 6-symbol string over the 10-symbol sub-alphabet "
    "{a { % space \\n \\r \\r\\n - U+000C }}, that contains no delimiter start, under all 6 newline_sequence x keep_trailing_newline settings"
)
RULE = (
    "(1) exhaustive short strings (see exhaustive_note), (2) Hypothesis texts of <= 400 (quick) / 2000 (thorough) characters over all "
    "Unicode categories except surrogates, enriched with line breaks / delimiter characters / control characters, every '{' that would "
    "start a delimiter defused by construction, (3) Hypothesis skeletons of text, comments and raw blocks whose bodies contain delimiter "
    "look-alikes, every modifier, under 6 delimiter sets. Non-trivial = the source contains a line break, a lone delimiter character, or "
    "a comment/raw body with a delimiter look-alike; distinct = distinct case JSON."
)
ASSUMPTIONS = [
    "line breaks are exactly \\r\\n, \\r and \\n (lexer docstring: 'Only \\n, \\r\\n and \\r are treated as line breaks')",
    "surrogate code points are not generated (they cannot be encoded and are outside what a loader can deliver)",
    "comment bodies do not begin/end with '+' or '-' and are non-empty (ambiguous with a modifier)",
    "lstrip_blocks before a tag preceded on its line by whitespace other than spaces/tabs is not judged (configuration skipped, counted)",
    "environments are reused across cases inside a worker (configuration objects only)",
    "each of a case's configurations is realised by one creation route (fresh Environment / overlay of an already used environment / jinja2.Template(source, **options)) and one "
    "finalize kind (none / plain / pass_environment / pass_context / pass_eval_context, all string-altering), rotating with a hash of the "
    "source, so every case sees all routes and every finalize kind; template data must never be finalized (docs/api.rst)",
]

NK = [(n, k) for n in ws.NL_SEQS for k in (False, True)]
_envs = {}


FINALIZERS = ["none", "plain", "pass_environment", "pass_context", "pass_eval_context"]
ROUTES = ["fresh", "overlay", "template"]
_fins = {}


def _finalizer(kind):
    """string-altering finalize functions: template DATA must never pass through them (docs/api.rst: finalize is
    'a callable that can be used to process the result of a variable expression before it is output')"""
    import jinja2

    if kind in _fins:  # one function object per kind (Template(...) keys its shared environments on it)
        return _fins[kind]
    if kind == "none":
        fin = None
    elif kind == "plain":
        fin = lambda v: "<%s>" % (v,)  # noqa: E731
    else:
        deco = getattr(jinja2, kind)

        @deco
        def fin(first, v):
            return "<%s>" % (v,)

    _fins[kind] = fin
    return fin


def get_env(syn_name, trim, lstrip, nls, ktn, fin="none", route="fresh"):
    """route 'fresh': Environment(**options); route 'overlay': an overlay, carrying the whitespace / newline options, of a
    default-option environment that has already rendered a template (the property quantifies over configurations however created)"""
    key = (syn_name, trim, lstrip, nls, ktn, fin, route)
    env = _envs.get(key)
    if env is None:
        from jinja2 import Environment

        kw = skel.env_kwargs(skel.syntax(syn_name))
        if route == "fresh":
            env = Environment(trim_blocks=trim, lstrip_blocks=lstrip, newline_sequence=nls, keep_trailing_newline=ktn, finalize=_finalizer(fin), **kw)
        else:
            base = Environment(finalize=_finalizer(fin), **kw)
            if base.from_string("warm\r\nup\n").render() != "warm\nup":
                raise core.Violation("default environment does not render 'warm\\r\\nup\\n' as 'warm\\nup' (finalize=%s, syntax=%s)" % (fin, syn_name))
            env = base.overlay(trim_blocks=trim, lstrip_blocks=lstrip, newline_sequence=nls, keep_trailing_newline=ktn)
        _envs[key] = env
    return env


def render(src, syn_name, trim, lstrip, nls, ktn, fin, route):
    """route 'template': the jinja2.Template(source, **options) constructor"""
    if route == "template":
        from jinja2 import Template

        return Template(src, trim_blocks=trim, lstrip_blocks=lstrip, newline_sequence=nls, keep_trailing_newline=ktn,
                        finalize=_finalizer(fin), **skel.env_kwargs(skel.syntax(syn_name))).render()
    return get_env(syn_name, trim, lstrip, nls, ktn, fin, route).from_string(src).render()


def _variant(h, j):
    """finalize variant and creation route for configuration number j of a case with hash h: every case sees all routes
    and (with 6 configurations) every finalize kind"""
    return FINALIZERS[(h + j) % len(FINALIZERS)], ROUTES[(h // 5 + j) % len(ROUTES)]


LONE = set("{}%#")


def _plain(case):
    src = case["src"]
    if skel.has_start(src):
        raise core.Discard()
    h = sum(map(ord, src)) + len(src)
    for j, (nls, ktn) in enumerate(NK):
        exp = ws.plain_text(src, nls, ktn)
        fin, route = _variant(h, j)
        got = render(src, "default", False, False, nls, ktn, fin, route)
        if got != exp:
            raise core.Violation("plain text not rendered verbatim\n source: %r\n newline_sequence=%r keep_trailing_newline=%s finalize=%s environment=%s\n expected: %r\n rendered: %r"
                                 % (src, nls, ktn, fin, route, exp, got))
    labels = []
    has_nl = "\n" in src or "\r" in src
    if has_nl:
        labels.append("linebreak")
    if "\r\n" in src:
        labels.append("crlf")
    if "\r" in src.replace("\r\n", ""):
        labels.append("lone-cr")
    if src.endswith(("\n", "\r")):
        labels.append("trailing-break")
    if LONE & set(src):
        labels.append("lone-delimiter-char")
    labels.append("plain:len<=6" if len(src) <= 12 else "plain:long")
    return core.Outcome(has_nl or bool(LONE & set(src)), labels)


def _direct(csk, nls, ktn):
    """comments contribute nothing, raw bodies verbatim (valid only without '-' and without trimming)"""
    pieces = [s[1] if s[0] == "text" else s[3] for s in csk if s[0] in ("text", "raw")]
    last_is_text = bool(csk) and csk[-1][0] == "text"
    res = []
    for i, p in enumerate(pieces):
        final = last_is_text and i == len(pieces) - 1
        res.append(ws.plain_text(p, nls, True if not final else ktn))
    return "".join(res)


def _skel(case):
    syn_name = case.get("syn", "default")
    syn = skel.syntax(syn_name)
    if any(s[0] not in ("text", "comment", "raw") for s in case["sk"]):
        raise core.Discard()
    csk = skel.instantiate(case["sk"], syn)
    # adjacent texts are one text for the model; merge so that _direct sees the same pieces
    merged = []
    for s in csk:
        if s[0] == "text" and merged and merged[-1][0] == "text":
            merged[-1] = ["text", merged[-1][1] + s[1]]
        else:
            merged.append(s)
    csk = merged
    src = skel.source(csk, syn)
    pr = skel.printer(syn)
    no_minus = all("-" not in (s[1], s[2]) + ((s[4], s[5]) if s[0] == "raw" else ()) for s in csk if s[0] != "text")
    effects = set()
    h = sum(map(ord, src)) + len(src)
    j = -1
    for trim, lstrip in ((False, False), (True, True)):
        for ktn in (False, True):
            try:
                a = ws.analyse(csk, pr, trim, lstrip, ktn)
            except ws.Decline:
                raise core.Discard()
            effects |= a.effects
            if a.ambiguous:
                continue
            for nls in ws.NL_SEQS:
                exp = a.rendered(nls)
                j += 1
                fin, route = _variant(h, j)
                got = render(src, syn_name, trim, lstrip, nls, ktn, fin, route)
                cfg = "trim_blocks=%s lstrip_blocks=%s newline_sequence=%r keep_trailing_newline=%s syntax=%s finalize=%s environment=%s" % (
                    trim, lstrip, nls, ktn, syn_name, fin, route)
                if got != exp:
                    raise core.Violation("comment/raw skeleton: output differs from the model\n source: %r\n config: %s\n expected: %r\n rendered: %r"
                                         % (src, cfg, exp, got))
                if no_minus and not trim:
                    exp2 = _direct(csk, nls, ktn)
                    if got != exp2:
                        raise core.Violation("comments must contribute nothing and raw bodies must be verbatim\n source: %r\n config: %s\n expected: %r\n rendered: %r"
                                             % (src, cfg, exp2, got))
    look = any(skel.LOOKALIKE_RE.search(s[3]) for s in case["sk"] if s[0] in ("comment", "raw"))
    kinds = {s[0] for s in csk}
    labels = {"skel", "syn:" + syn_name} | {"kind:" + k for k in kinds}
    if "lstrip:ambiguous-ws" in effects:
        labels.add("lstrip:ambiguous-ws(config skipped)")
    if look:
        labels.add("lookalike-body")
    if no_minus and kinds - {"text"}:
        labels.add("direct-oracle")
    if any(s[0] == "raw" and ("\n" in s[3] or "\r" in s[3]) for s in csk):
        labels.add("raw-body-linebreak")
    return core.Outcome(look or "\n" in src or "\r" in src, sorted(labels))


def check_case(case):
    if case["kind"] == "plain":
        return _plain(case)
    return _skel(case)


def shards(tier):
    return [{"i": i} for i in range(16)]


def skel_strategy(syn_name):
    from hypothesis import strategies as st

    alpha = skel.alpha_ws(skel.syntax(syn_name))
    return skel.skeletons(alpha, kinds=("text", "text", "comment", "raw", "ownline"), max_segs=7, multiline=True).map(
        lambda sk: {"kind": "skel", "sk": [s for s in sk if s[0] in ("text", "comment", "raw")], "syn": syn_name})


SHARD_SYN = ["default"] * 5 + ["prefixvar", "dollar"] + ["blockbr", "parens", "latex"] + ["php", "erb", "brackets", "three", "ops", "default"]


def run_shard(spec, ctx):
    rec = core.Rec()
    quick = ctx.quick
    gen = skel.short_strings(4 if quick else 5, skel.ALPHA15, ctx.index, ctx.nshards)
    core.enum_shard(({"kind": "plain", "src": s} for s in gen), check_case, ctx, rec=rec)
    if not quick:
        gen = skel.short_strings(6, skel.ALPHA10, ctx.index, ctx.nshards, min_len=6)
        core.enum_shard(({"kind": "plain", "src": s} for s in gen), check_case, ctx, rec=rec)
    if rec.violations:
        return rec
    skel.hyp_chunks(skel.long_texts(ctx.pick(400, 2000)).map(lambda s: {"kind": "plain", "src": s}), check_case, ctx,
                    ctx.pick(250, 2000), rec, "long", chunk=500)
    skel.hyp_chunks(skel_strategy(SHARD_SYN[ctx.index % 16]), check_case, ctx, ctx.pick(1500, 24000), rec, "skel")
    return rec


def floors(total, tier):
    need = ["crlf", "lone-cr", "trailing-break", "lone-delimiter-char", "plain:long", "lookalike-body", "direct-oracle", "kind:raw", "kind:comment",
            "raw-body-linebreak"]
    low = [k for k in need if total.labels.get(k, 0) < 50]
    return ("labels below floor of 50: %s" % low) if low else None
