"""C21 - undefined types follow their documented operation tables (exhaustive table check).

Case: {"ut": type key, "origin": ..., "op": ..., "operand": operand key | None, "route": "py"|"tpl"}
The expected column is a table transcribed from the class docstrings / docs/api.rst, written
here without consulting jinja2.runtime at run time.
"""
import copy
import itertools
import logging
import pickle

from vt import core

PID = "C21"
LEVEL = "exploration"
EXHAUSTIVE = "the full cross product types x origins x operations x operands x routes is enumerated in every tier"
RULE = (
    "exhaustive product of 8 undefined types (4 classes, each plain and as make_logging_undefined(base=...)) x 6 origins "
    "(missing name / attribute / str item / int item / explicit hint) x operation table (both operand orders for binary "
    "operators) x 8 other operands x routes (python protocol call; rendered template where the operation has template "
    "syntax). Non-trivial = anything except str/bool of the plain default type, i.e. every aliased operator entry and "
    "protocol method; distinct = distinct case tuple."
)
ASSUMPTIONS = [
    "expected table transcribed from the Undefined/ChainableUndefined/DebugUndefined/StrictUndefined docstrings",
    "'a' % u and Markup % u are excluded: Python's own str formatting accepts any object with __getitem__ before the reflected operator is tried",
    "logging variants: only the documented logging of printing / iteration / truth tests is required (operator errors are 'certain failures', unspecified)",
    "cells where Python asks the *other* operand first (str %% u, Markup * u, Markup + chainable, other-undefined ==/!= strict) are not judged",
    "pickle only for module-level types (a class created inside make_logging_undefined is not picklable in Python)",
]

BASES = ["default", "chainable", "debug", "strict"]
UTYPES = BASES + ["log_" + b for b in BASES]
ORIGINS = ["name", "attr", "item_str", "item_int", "item_zero", "hint"]
OPERANDS = ["int0", "float", "str", "list", "none", "markup", "undef_same", "undef_other", "object"]
BINOPS = ["+", "-", "*", "/", "//", "%", "**"]
CMPOPS = ["<", "<=", ">", ">="]
UNARY_OPS = ["str", "format", "fstring", "bool", "iter", "len", "hash", "pos", "neg", "int", "float", "complex",
             "getattr", "getattr_us", "getattr_dpre", "getattr_dsuf", "getitem_str", "getitem_int", "call", "call_args", "is_defined", "is_undefined",
             "default", "default_true", "copy", "deepcopy", "pickle", "dunder_probe", "html_probe",
             "filter_list", "filter_join", "filter_first"]
TPL_UNARY = {"str", "bool", "iter", "len", "pos", "neg", "getattr", "getattr_us", "getattr_dpre", "getattr_dsuf", "getitem_str", "getitem_int", "call", "call_args",
             "is_defined", "is_undefined", "default", "default_true", "int", "float",
             "filter_list", "filter_join", "filter_first"}
PY_SKIP = {"filter_list", "filter_join", "filter_first"}  # template-only operations (sync and async routes)

HINT = "custom hint text 4711"


class Obj:
    pass


class _LogCapture(logging.Handler):
    def __init__(self):
        super().__init__()
        self.records = []

    def emit(self, record):
        self.records.append((record.levelname, record.getMessage()))


_state = {}


def _setup():
    if _state:
        return _state
    import jinja2
    from jinja2 import ChainableUndefined, DebugUndefined, Environment, StrictUndefined, Undefined, make_logging_undefined

    classes = {"default": Undefined, "chainable": ChainableUndefined, "debug": DebugUndefined, "strict": StrictUndefined}
    logger = logging.getLogger("vt.c21")
    logger.propagate = False
    logger.setLevel(logging.DEBUG)
    cap = _LogCapture()
    logger.handlers[:] = [cap]
    envs = {}
    for b, cls in classes.items():
        envs[b] = Environment(undefined=cls)
        lcls = make_logging_undefined(logger, base=cls)
        envs["log_" + b] = Environment(undefined=lcls)
        envs["async:" + b] = Environment(undefined=cls, enable_async=True)
        envs["async:log_" + b] = Environment(undefined=lcls, enable_async=True)
    _state.update(envs=envs, cap=cap, UndefinedError=jinja2.UndefinedError, Undefined=Undefined, classes=classes,
                  Markup=jinja2.utils.markupsafe.Markup if hasattr(jinja2.utils, "markupsafe") else __import__("markupsafe").Markup)
    return _state


def _make(env, origin):
    """Create the undefined value through the engine."""
    if origin == "name":
        return env.compile_expression("foo_var", undefined_to_none=False)()
    if origin == "attr":
        return env.compile_expression("o.bar_attr", undefined_to_none=False)(o=Obj())
    if origin == "item_str":
        return env.compile_expression("d['key_k']", undefined_to_none=False)(d={"x": 1})
    if origin == "item_int":
        return env.compile_expression("l[77]", undefined_to_none=False)(l=[1, 2])
    if origin == "item_zero":  # a falsy key
        return env.compile_expression("l0[0]", undefined_to_none=False)(l0=[])
    if origin == "hint":
        return env.undefined(HINT)
    raise core.HarnessError(origin)


def _names(origin, operand):
    """Names one of which the error message must contain: with two undefined operands Python
    lets whichever is asked first raise, so either operand's name is a correct message."""
    out = [NAME_IN_MSG[origin]]
    if operand == "undef_same":
        out.append("other_same")
    elif operand == "undef_other":
        out.append("other_kind")
    return out


NAME_IN_MSG = {"name": "foo_var", "attr": "bar_attr", "item_str": "key_k", "item_int": "77", "item_zero": "element 0", "hint": HINT}
TPL_EXPR = {"name": "foo_var", "attr": "o.bar_attr", "item_str": "d['key_k']", "item_int": "l[77]", "item_zero": "l0[0]", "hint": "mk()"}


def _operand(key, env, ut):
    st = _setup()
    if key == "int0":
        return 0
    if key == "float":
        return 1.5
    if key == "str":
        return "a"
    if key == "list":
        return []
    if key == "none":
        return None
    if key == "markup":
        return st["Markup"]("m")
    if key == "undef_same":
        return env.undefined(name="other_same")
    if key == "undef_other":
        # an undefined of a different class that is not strict-related to ut
        base = ut[4:] if ut.startswith("log_") else ut
        other = "debug" if base != "debug" else "default"
        return st["classes"][other](name="other_kind")
    if key == "object":
        return Obj()
    raise core.HarnessError(key)


def debug_str(origin):
    if origin == "name":
        return lambda s: s == "{{ foo_var }}"
    if origin == "hint":
        return lambda s: s == "{{ undefined value printed: %s }}" % HINT
    needle = "[0]" if origin == "item_zero" else NAME_IN_MSG[origin]
    return lambda s: s.startswith("{{ no such element: ") and s.endswith(" }}") and needle in s


def expected(base, origin, op, operand):
    """-> ("err",) | ("val", predicate, description) | ("skip",)"""
    ERR = ("err",)
    strict = base == "strict"

    def val(pred, desc):
        return ("val", pred, desc)

    if op in ("str", "format", "fstring"):
        if strict:
            return ERR
        if base == "debug":
            return val(debug_str(origin), "debug text naming the origin")
        return val(lambda s: s == "", "''")
    if op == "bool":
        return ERR if strict else val(lambda v: v is False, "False")
    if op == "iter":
        return ERR if strict else val(lambda v: v == [], "[]")
    if op in ("filter_list", "filter_join", "filter_first"):
        return ERR if strict else val(lambda v: True, "an empty result")
    if op == "len":
        return ERR if strict else val(lambda v: v == 0, "0")
    if op == "hash":
        return ERR if strict else val(lambda v: isinstance(v, int), "an int")
    if op in ("pos", "neg", "int", "float", "complex", "call", "call_args"):
        return ERR
    if op in ("getattr", "getattr_us", "getattr_dpre", "getattr_dsuf", "getitem_str", "getitem_int"):
        if base == "chainable":
            return val("same_kind_undefined", "an undefined of the same type")
        return ERR
    if op == "is_defined":
        return val(lambda v: v is False, "False")
    if op == "is_undefined":
        return val(lambda v: v is True, "True")
    if op in ("default", "default_true"):
        return val(lambda v: v == "dflt", "'dflt'")
    if op in ("copy", "deepcopy", "pickle"):
        return val("same_kind_undefined_copy", "an equivalent undefined of the same type")
    if op == "dunder_probe":
        return ("attrerr",)
    if op == "html_probe":
        if base == "chainable":
            return val(lambda v: v == "", "'' from __html__()")
        return ("attrerr",)
    if op == "contains_in_u":  # operand in u
        return ERR if strict else val(lambda v: v is False, "False")
    if op == "u_in_list":  # u in [operand]
        if strict and operand == "undef_other":
            return ("skip",)
        if strict:
            return ERR
        return val(lambda v: v is (operand == "undef_same"), "True iff the list holds an undefined of the same type")
    if strict and operand == "undef_other" and op in ("r==", "r!=", "u_in_list"):
        return ("skip",)  # the other (non-strict, unrelated) undefined is asked first by Python and answers
    if op in ("==", "!=", "r==", "r!="):
        if strict:
            return ERR
        same = operand == "undef_same"
        want = same if op in ("==", "r==") else (not same)
        return val(lambda v: v is want, repr(want))
    if op in BINOPS or (op[0] == "r" and op[1:] in BINOPS):
        if op == "r%" and operand in ("str", "markup"):
            return ("skip",)  # Python's own str formatting accepts the undefined as a mapping
        if op == "r+" and operand == "markup" and base == "chainable":
            return ("skip",)  # Markup.__add__ accepts anything with __html__ (documented for ChainableUndefined)
        if op == "r*" and operand == "markup":
            return ("skip",)  # MarkupSafe's Markup.__mul__ answers first (TypeError from str.__mul__)
        return ERR
    if op in CMPOPS or (op[0] == "r" and op[1:] in CMPOPS):
        return ERR
    raise core.HarnessError("no table row for %r" % op)


PYOPS = {
    "+": lambda a, b: a + b, "-": lambda a, b: a - b, "*": lambda a, b: a * b, "/": lambda a, b: a / b,
    "//": lambda a, b: a // b, "%": lambda a, b: a % b, "**": lambda a, b: a ** b,
    "<": lambda a, b: a < b, "<=": lambda a, b: a <= b, ">": lambda a, b: a > b, ">=": lambda a, b: a >= b,
    "==": lambda a, b: a == b, "!=": lambda a, b: a != b,
}


def _do_py(env, u, op, other):
    if op == "str":
        return str(u)
    if op == "format":
        return format(u, "")
    if op == "fstring":
        return f"{u}"
    if op == "bool":
        return bool(u)
    if op == "iter":
        return list(u)
    if op == "len":
        return len(u)
    if op == "hash":
        return hash(u)
    if op == "pos":
        return +u
    if op == "neg":
        return -u
    if op == "int":
        return int(u)
    if op == "float":
        return float(u)
    if op == "complex":
        return complex(u)
    if op == "getattr":
        return u.some_attr
    if op == "getattr_us":
        return getattr(u, "_private_attr")
    if op == "getattr_dpre":  # starts with two underscores but is not a dunder name
        return getattr(u, "__mangled_attr")
    if op == "getattr_dsuf":
        return getattr(u, "suffixed_attr__")
    if op == "getitem_str":
        return u["some_key"]
    if op == "getitem_int":
        return u[3]
    if op == "call":
        return u()
    if op == "call_args":
        return u(1, k=2)
    if op == "is_defined":
        return env.call_test("defined", u)
    if op == "is_undefined":
        return env.call_test("undefined", u)
    if op == "default":
        return env.call_filter("default", u, ["dflt"])
    if op == "default_true":
        return env.call_filter("default", u, ["dflt", True])
    if op == "copy":
        return copy.copy(u)
    if op == "deepcopy":
        return copy.deepcopy(u)
    if op == "pickle":
        return pickle.loads(pickle.dumps(u, pickle.HIGHEST_PROTOCOL))
    if op == "dunder_probe":
        return u.__some_dunder__
    if op == "html_probe":
        return u.__html__()
    if op == "contains_in_u":
        return other in u
    if op == "u_in_list":
        return u in [other]
    if op[0] == "r" and op[1:] in PYOPS:
        return PYOPS[op[1:]](other, u)
    return PYOPS[op](u, other)


def _tpl_source(origin, op, via_context=False):
    # via_context: the undefined value was produced by the engine beforehand and reaches the template as the
    # context variable "uv" (as after {% set uv = missing %}{% include %}, or a value handed on by the caller)
    e = "uv" if via_context else TPL_EXPR[origin]
    o = "w"
    table = {
        "str": "{{ %s }}" % e, "bool": "{{ 'T' if %s else 'F' }}" % e,
        "iter": "[{%% for q in %s %%}x{%% endfor %%}]" % e, "len": "{{ %s|length }}" % e,
        "pos": "{{ +(%s) }}" % e, "neg": "{{ -(%s) }}" % e, "getattr": "{{ (%s).some_attr is undefined }}|{{ (%s).some_attr }}" % (e, e),
        "getattr_us": "{{ (%s)._private_attr is undefined }}|{{ (%s)._private_attr }}" % (e, e),
        "getattr_dpre": "{{ (%s).__mangled_attr is undefined }}|{{ (%s).__mangled_attr }}" % (e, e),
        "getattr_dsuf": "{{ (%s).suffixed_attr__ is undefined }}|{{ (%s).suffixed_attr__ }}" % (e, e),
        "getitem_str": "{{ (%s)['some_key'] is undefined }}|{{ (%s)['some_key'] }}" % (e, e),
        "getitem_int": "{{ (%s)[3] is undefined }}|{{ (%s)[3] }}" % (e, e),
        "call": "{{ (%s)() }}" % e, "call_args": "{{ (%s)(1, k=2) }}" % e,
        "is_defined": "{{ %s is defined }}" % e, "is_undefined": "{{ %s is undefined }}" % e,
        "default": "{{ %s|default('dflt') }}" % e, "default_true": "{{ %s|default('dflt', true) }}" % e,
        "int": "{{ %s|int }}" % e, "float": "{{ %s|float }}" % e,
        "filter_list": "{{ %s|list }}" % e, "filter_join": "[{{ %s|join(',') }}]" % e,
        "filter_first": "{{ (%s|first) is undefined }}" % e,
        "contains_in_u": "{{ %s in %s }}" % (o, e), "u_in_list": "{{ %s in [%s] }}" % (e, o),
    }
    if op in table:
        return table[op]
    if op[0] == "r" and op[1:] in PYOPS:
        return "{{ %s %s %s }}" % (o, op[1:], e)
    return "{{ %s %s %s }}" % (e, op, o)


def _render_expect(base, origin, op, operand, exp):
    """Expected rendered text for the template route (or None = error expected)."""
    if exp[0] == "err":
        return None
    strict, debug = base == "strict", base == "debug"
    if op == "str":
        return None  # decided with predicate
    if op == "bool":
        return "F"
    if op == "iter":
        return "[]"
    if op == "filter_list":
        return "[]"
    if op == "filter_join":
        return "[]"
    if op == "filter_first":
        return "True"
    if op == "len":
        return "0"
    if op in ("getattr", "getattr_us", "getattr_dpre", "getattr_dsuf", "getitem_str", "getitem_int"):
        return "True|"  # chainable: undefined again, prints ''
    if op in ("is_defined",):
        return "False"
    if op == "is_undefined":
        return "True"
    if op in ("default", "default_true"):
        return "dflt"
    if op in ("contains_in_u",):
        return "False"
    if op == "u_in_list":
        return str(operand == "undef_same")
    if op in ("==", "r=="):
        return str(operand == "undef_same")
    if op in ("!=", "r!="):
        return str(operand != "undef_same")
    raise core.HarnessError("no render expectation for %s" % op)


def check_case(case):
    st = _setup()
    ut, origin, op, operand, route = case["ut"], case["origin"], case["op"], case["operand"], case["route"]
    base = ut[4:] if ut.startswith("log_") else ut
    logging_type = ut.startswith("log_")
    env = st["envs"][("async:" + ut) if route.startswith("atpl") else ut]
    UE = st["UndefinedError"]
    exp = expected(base, origin, op, operand)
    nontrivial = not (ut == "default" and op in ("str", "bool"))
    if exp[0] == "skip":
        raise core.Discard()
    # in python, a comparison of u with an undefined of a *subclass* type lets the subclass answer first; strict raises
    other = _operand(operand, env, ut) if operand else None
    cap = st["cap"]
    del cap.records[:]
    desc = "%s/%s %s %s via %s" % (ut, origin, op, operand, route)

    if route == "py":
        u = _make(env, origin)
        if not isinstance(u, st["Undefined"]):
            raise core.Violation("%s: engine produced %r, not an undefined value" % (desc, u))
        try:
            got = ("val", _do_py(env, u, op, other))
        except UE as e:
            got = ("err", str(e))
        except AttributeError as e:
            got = ("attrerr", str(e))
        except Exception as e:  # noqa: BLE001
            raise core.Violation("%s: raised %s (%s), documented outcomes are a result or UndefinedError" % (desc, type(e).__name__, e))
        if exp[0] == "err":
            if got[0] != "err":
                raise core.Violation("%s: expected UndefinedError, got %r" % (desc, got))
            if not any(n in got[1] for n in _names(origin, operand)):
                raise core.Violation("%s: UndefinedError message %r does not name %r" % (desc, got[1], NAME_IN_MSG[origin]))
        elif exp[0] == "attrerr":
            if got[0] != "attrerr":
                raise core.Violation("%s: dunder probe must raise AttributeError, got %r" % (desc, got))
        else:
            if got[0] != "val":
                raise core.Violation("%s: expected %s, got %s %r" % (desc, exp[2], got[0], got[1]))
            pred = exp[1]
            v = got[1]
            if pred == "same_kind_undefined":
                ok = type(v) is type(u) and isinstance(v, st["Undefined"])
            elif pred == "same_kind_undefined_copy":
                ok = type(v) is type(u) and v._undefined_message == u._undefined_message
                if ok and base != "strict":
                    ok = str(v) == str(u) and (v == u) is True and hash(v) == hash(u)
                if ok and base == "strict":
                    try:
                        str(v)
                        ok = False
                    except UE as e:
                        ok = NAME_IN_MSG[origin] in str(e)
            else:
                ok = pred(v)
            if not ok:
                raise core.Violation("%s: expected %s, got %r" % (desc, exp[2], v))
            if logging_type and op in ("str", "format", "fstring", "iter", "bool"):
                if not any(lv == "WARNING" and NAME_IN_MSG[origin] in m for lv, m in cap.records):
                    raise core.Violation("%s: logging undefined did not log a warning (%r)" % (desc, cap.records))
    else:
        src = _tpl_source(origin, op, via_context=route.endswith("v"))
        ctx = {"o": Obj(), "d": {"x": 1}, "l": [1, 2], "l0": [], "mk": lambda: env.undefined(HINT), "w": other}
        if route.endswith("v"):
            ctx["uv"] = _make(st["envs"][ut], origin)  # compile_expression is sync-only
        try:
            got = ("val", env.from_string(src).render(ctx))
        except UE as e:
            got = ("err", str(e))
        except Exception as e:  # noqa: BLE001
            raise core.Violation("%s [%s]: raised %s (%s)" % (desc, src, type(e).__name__, e))
        if exp[0] == "err":
            if got[0] != "err":
                raise core.Violation("%s [%s]: expected UndefinedError, rendered %r" % (desc, src, got[1]))
            if not any(n in got[1] for n in _names(origin, operand)):
                raise core.Violation("%s [%s]: message %r does not name %r" % (desc, src, got[1], NAME_IN_MSG[origin]))
        else:
            if got[0] != "val":
                raise core.Violation("%s [%s]: expected %s, got UndefinedError %r" % (desc, src, exp[2], got[1]))
            if op == "str":
                ok = exp[1](got[1])
            else:
                ok = got[1] == _render_expect(base, origin, op, operand, exp)
            if not ok:
                raise core.Violation("%s [%s]: expected %s, rendered %r" % (desc, src, exp[2], got[1]))
    return core.Outcome(nontrivial, (base, "route_" + route, "logging" if logging_type else "plain", "exp_" + exp[0]))


def all_cases():
    for ut, origin in itertools.product(UTYPES, ORIGINS):
        for op in UNARY_OPS:
            if op == "pickle" and ut.startswith("log_"):
                continue
            if op not in PY_SKIP:
                yield {"ut": ut, "origin": origin, "op": op, "operand": None, "route": "py"}
            if op in TPL_UNARY:
                yield {"ut": ut, "origin": origin, "op": op, "operand": None, "route": "tpl"}
                # the same template in an enable_async environment (async iteration protocol, auto_await)
                yield {"ut": ut, "origin": origin, "op": op, "operand": None, "route": "atpl"}
                # the value reaches the template through the context instead of being produced in place
                yield {"ut": ut, "origin": origin, "op": op, "operand": None, "route": "tplv"}
                yield {"ut": ut, "origin": origin, "op": op, "operand": None, "route": "atplv"}
        for operand in OPERANDS:
            ops = ["contains_in_u", "u_in_list", "==", "!=", "r==", "r!="]
            ops += BINOPS + ["r" + o for o in BINOPS] + CMPOPS + ["r" + o for o in CMPOPS]
            for op in ops:
                for route in ("py", "tpl", "atpl", "tplv"):
                    yield {"ut": ut, "origin": origin, "op": op, "operand": operand, "route": route}


def shards(tier):
    return [{"i": i} for i in range(16)]


def run_shard(spec, ctx):
    return core.enum_shard(core.sliced(all_cases(), ctx.index, ctx.nshards), check_case, ctx)
