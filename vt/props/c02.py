"""C02 - compiled expressions evaluate as the documented expression semantics.

Case: {"expr": IR tree (vt.gen.expr), "datas": [encoded context, ...] (vt.gen.data), "style": int}
The tree is printed with minimal parentheses for the documented grammar, compiled in four environments
(default, enable_async, SandboxedEnvironment, optimized=False) and observed at compile_expression(src)(data)
(sync environments: value and type) and at the rendered text of "{{ src }}" (all four); both are compared with
the independent reference evaluator vt.ref.evalexpr (never the code under test).  Value and type are observed
through compile_expression in the three synchronous environments, the rendered text in the default and the
async environment (render_async driven without an event loop: the data holds no awaitables).
"""
from vt import core
from vt.gen import data as gdata
from vt.gen import expr as gexpr
from vt.ref import evalexpr as ref

PID = "C02"
LEVEL = "exploration"
RULE = (
    "Hypothesis type-directed expression trees (vt.gen.expr.exprs: literals, names, list/tuple/dict displays, unary, "
    "binary, ~, and/or, comparison chains incl. in / not in, conditional with and without else, . and [] lookups, slices, "
    "calls with * and **, 30 filters and 33 tests with positional and keyword arguments; depth <= 4 quick / 6 thorough; "
    "~8 % ill-typed operands) x 3 generated contexts each (ints, floats incl. non-finite, strings, lists, tuples, dicts, "
    "Markup, None, probe objects with independent attribute / item tables, probe callables, unbound names), printed with "
    "minimal parentheses and style-dependent whitespace, run in 4 environments through compile_expression and "
    "rendering. Non-trivial = the tree has >= 3 operator/postfix nodes and at least one operand whose grouping is "
    "decided by precedence or associativity (printed without parentheses); distinct = distinct serialized case."
)
ASSUMPTIONS = [
    "the reference evaluator (vt/ref/evalexpr.py) transcribes templates.rst 'Expressions' / 'Notes on subscriptions' and the "
    "filter / test docstrings; Python's own operators decide values and error classes of operator applications",
    "where the documentation does not decide (string filters on Markup, first/last/min/max of an empty sequence, identity of "
    "non-singletons, 'number' of a bool, slices of mappings, text of objects whose repr shows an address, evaluation beyond "
    "the magnitude bounds |int| < 2**2048 / length <= 5000) the case is discarded, not judged",
    "errors are compared by class family: UndefinedError, TypeError, ZeroDivisionError, ValueError, OverflowError, "
    "KeyError/IndexError raised by Python operator methods",
    "autoescape is off in all four environments (escaping is C15/C16's subject)",
]

ENV_NAMES = ["default", "async", "sandbox", "unoptimized"]
VALUE_ENVS = ("default", "sandbox", "unoptimized")   # compile_expression: value and type
RENDER_ENVS = ("default", "async")                    # "{{ src }}": rendered text
_state = {}


def _setup():
    if _state:
        return _state
    import warnings

    import jinja2

    # Python warns when compiling generated code such as "None[1:2]"; that is the ill-typed input, not a finding
    warnings.filterwarnings("ignore", category=SyntaxWarning)
    from jinja2.sandbox import SandboxedEnvironment

    _state.update(
        envs={
            "default": jinja2.Environment(),
            "async": jinja2.Environment(enable_async=True),
            "sandbox": SandboxedEnvironment(),
            "unoptimized": jinja2.Environment(optimized=False),
        },
        Undefined=jinja2.Undefined,
        UndefinedError=jinja2.UndefinedError,
        TemplateSyntaxError=jinja2.TemplateSyntaxError,
    )
    return _state


def classify(exc, st):
    """Error class family of an exception raised by the implementation, or None."""
    if isinstance(exc, st["UndefinedError"]):
        return "undefined"
    for cls, kind in ((ZeroDivisionError, "zerodiv"), (OverflowError, "overflow"), (TypeError, "type"),
                      (ValueError, "value"), (LookupError, "lookup")):
        if isinstance(exc, cls):
            return kind
    return None


def _run(f, st):
    try:
        return ("val", f())
    except (st["UndefinedError"], ArithmeticError, TypeError, ValueError, LookupError) as e:
        kind = classify(e, st)
        if kind is None:
            raise
        return ("err", kind, "%s: %s" % (type(e).__name__, e))


def _drive(coro):
    """Run a coroutine that never really suspends (no I/O, no awaitable data) without an event loop."""
    try:
        coro.send(None)
    except StopIteration as e:
        return e.value
    coro.close()
    raise core.HarnessError("render_async suspended although the data holds no awaitables")


def reference(expr, enc):
    """-> ("val", canon, text|None, trace) | ("err", kind, None, trace) | None (declined)"""
    trace = set()
    try:
        v = ref.eval_expr(expr, gdata.decode_context(enc), trace=trace)
        c = gdata.canon_value(v, (ref.RefUndefined,))
        if gdata.canon_contains(c, "opaque"):
            return None
        text = str(v) if ref.stringable(v) else None
        return ("val", c, text, trace)
    except ref.RefError as e:
        return ("err", e.kind, None, trace)
    except ref.RefDecline:
        return None


def check_known(entry):
    """Known findings are replayed without the by-construction exclusion of their input class."""
    return check_case(entry["case"], allow_known=True)


def check_case(case, allow_known=False):
    st = _setup()
    expr, datas, style = case["expr"], case["datas"], case.get("style", 0)
    try:
        ref.static_check(expr, allow_known)
    except ref.RefDecline:
        raise core.Discard()
    except ref.RefExcluded:
        raise core.Excluded()
    src, info = gexpr.print_expr_info(expr, style)
    refs = [reference(expr, enc) for enc in datas]
    if all(r is None for r in refs):
        raise core.Discard()

    labels = set(gexpr.tree_labels(expr))
    for r in refs:
        if r is not None:
            labels |= r[3]
            labels.add("ref_value" if r[0] == "val" else "ref_error_" + r[1])
        else:
            labels.add("data_declined")

    for envname in ENV_NAMES:
        env = st["envs"][envname]
        try:
            cexpr = env.compile_expression(src, undefined_to_none=False) if envname in VALUE_ENVS else None
            tmpl = env.from_string("{{ " + src + " }}") if envname in RENDER_ENVS else None
        except st["TemplateSyntaxError"] as e:
            raise core.Violation("[%s] source printed from the tree is rejected: %s\n  source: %s" % (envname, e, src))
        for enc, r in zip(datas, refs):
            if r is None:
                continue
            where = "[%s] %s\n  data: %r" % (envname, src, enc)
            if cexpr is not None:
                got = _run(lambda: cexpr(gdata.decode_context(enc)), st)
                if r[0] == "val":
                    if got[0] != "val":
                        raise core.Violation("compile_expression raised %s, documented value %r\n  %s" % (got[2], r[1], where))
                    c = gdata.canon_value(got[1], (st["Undefined"],))
                    if c != r[1]:
                        raise core.Violation("compile_expression value %r, documented value %r\n  %s" % (c, r[1], where))
                else:
                    if got[0] != "err":
                        raise core.Violation("compile_expression returned %r, documented outcome is an error of class %s\n  %s"
                                             % (got[1], r[1], where))
                    if got[1] != r[1]:
                        raise core.Violation("compile_expression raised %s, documented error class %s\n  %s" % (got[2], r[1], where))
            if tmpl is None:
                continue
            if envname == "async":
                got = _run(lambda: _drive(tmpl.render_async(gdata.decode_context(enc))), st)
            else:
                got = _run(lambda: tmpl.render(gdata.decode_context(enc)), st)
            if r[0] == "val":
                if got[0] != "val":
                    raise core.Violation("render raised %s, documented value %r\n  %s" % (got[2], r[1], where))
                if r[2] is not None and got[1] != r[2]:
                    raise core.Violation("rendered %r, documented text %r\n  %s" % (got[1], r[2], where))
            else:
                if got[0] != "err":
                    raise core.Violation("rendered %r, documented outcome is an error of class %s\n  %s" % (got[1], r[1], where))
                if got[1] != r[1]:
                    raise core.Violation("render raised %s, documented error class %s\n  %s" % (got[2], r[1], where))

    sensitive = info["prec_sensitive"] > 0
    if sensitive:
        labels.add("prec_sensitive")
    nops = gexpr.count_ops(expr)
    return core.Outcome(nops >= 3 and sensitive, labels)


def names_used(expr):
    return sorted({n[1] for n in gexpr.walk(expr) if n[0] == "name"})


def cases(max_depth, ndata=3):
    import hypothesis.strategies as st

    @st.composite
    def case(draw):
        want = draw(st.sampled_from(["any", "any", "int", "str", "bool", "list", "float", "any"]))
        expr = draw(gexpr.exprs(max_depth, want))
        schema = {n: gexpr.SCHEMA[n] for n in names_used(expr) if n in gexpr.SCHEMA}
        datas = [draw(gdata.contexts(schema)) for _ in range(ndata)]
        style = draw(st.sampled_from([0, 0, 1, 2, 3, 5, 8, 13, 21, 34, 55]))
        return {"expr": expr, "datas": datas, "style": style}

    return case()


def shards(tier):
    return [{"i": i} for i in range(16)]


def run_shard(spec, ctx):
    rec = core.Rec()
    n = ctx.pick(1800, 18000)
    # most of the budget at the tier's depth, a slice of shallow trees (dense in short precedence patterns)
    core.hyp_shard(cases(ctx.pick(4, 6)), check_case, ctx, n, rec=rec, tag="deep")
    if not rec.violations:
        core.hyp_shard(cases(ctx.pick(2, 3)), check_case, ctx, n // 3, rec=rec, tag="shallow")
    return rec


def floors(total, tier):
    n = total.evaluations - total.discarded - total.excluded
    if n and total.labels.get("prec_sensitive", 0) < 0.4 * n:
        return "prec_sensitive %d of %d judged cases (< 40 %%)" % (total.labels.get("prec_sensitive", 0), n)
    for lab in ("chained_cmp", "not_in", "is_not", "cond_no_else", "attr_item_conflict", "undefined_operand", "slice"):
        if total.labels.get(lab, 0) < 20:
            return "label %s seen %d times (< 20)" % (lab, total.labels.get(lab, 0))
    return None
