#!/venv/bin/python
"""Regenerate the 'seeded changes' table of DESIGN.md (between the SEEDED-TABLE markers) from seeded/*/meta.json."""
import glob, json, os, re
rows = []
for d in sorted(glob.glob("/verif/seeded/*/meta.json")):
    m = json.load(open(d)); sid = d.split("/")[-2]
    det = m.get("detected_by") or {}
    res = "; ".join("%s %s (%s, %.0f s)" % (p, v["result"], v["tier"], v["seconds"]) for p, v in sorted(det.items())) or "not run yet"
    note = m.get("strengthened", "")
    if m.get("declined"):
        note = (note + "; " if note else "") + "not judged: " + m["declined"]
    rows.append("| %s | %s | %s | %s%s |" % (sid, (m.get("breaks") or "").replace("|", "/")[:230], (m.get("needs_to_manifest") or "").replace("|", "/")[:200], res, (" — " + note) if note else ""))
table = "| id | change | needs to manifest | caught by |\n|---|---|---|---|\n" + "\n".join(rows)
p = "/verif/DESIGN.md"; s = open(p).read()
s = re.sub(r"(<!-- SEEDED-TABLE-BEGIN -->\n).*?(<!-- SEEDED-TABLE-END -->)", lambda mo: mo.group(1) + table + "\n" + mo.group(2), s, flags=re.S)
open(p, "w").write(s)
print(len(rows), "rows")
