import itertools, collections, asyncio
from jinja2 import Environment
from jinja2.runtime import Undefined
attrs = ["index","index0","revindex","revindex0","first","last","length","previtem","nextitem","depth","cycle","changed"]
def expr(a):
    if a=="cycle": return "loop.cycle('a','b','c')"
    if a=="changed": return "loop.changed(x // 2)"
    if a in("previtem","nextitem"): return "(loop.%s if loop.%s is defined else 'U')"%(a,a)
    return "loop."+a
def expected(items, queries_per_iter):
    out=[]; n=len(items); last_changed=object()
    for i,x in enumerate(items):
        parts=[str(x)]
        for a in queries_per_iter[i % len(queries_per_iter)]:
            v={"index":i+1,"index0":i,"revindex":n-i,"revindex0":n-i-1,"first":i==0,"last":i==n-1,"length":n,
               "previtem":items[i-1] if i>0 else 'U',"nextitem":items[i+1] if i<n-1 else 'U',"depth":1,"cycle":"abc"[i%3]}.get(a)
            if a=="changed":
                v = (last_changed != (x//2,)); last_changed=(x//2,)
            parts.append(str(v))
        out.append(",".join(parts))
    return ";".join(out) + (";" if out else "") if False else "".join(p+";" for p in out)
envs={"sync":Environment(),"async":Environment(enable_async=True)}
def forms(items):
    yield "list", lambda: list(items)
    yield "tuple", lambda: tuple(items)
    yield "iter", lambda: iter(list(items))
    yield "gen", lambda: (x for x in items)
    async def ag():
        for x in items: yield x
    yield "agen", ag
bad=collections.Counter(); ex={}; n=0
import random
rnd=random.Random(1)
for L in range(0,5):
    items=[rnd.randrange(0,4) for _ in range(L)]
    for q1 in itertools.chain.from_iterable(itertools.permutations(attrs,r) for r in (0,1,2)):
      for q2 in ([q1], [q1,()], [(),q1]):
        # per-iteration different queries via if loop.index0 % k
        k=len(q2)
        body="{{ x }}"
        for j,q in enumerate(q2):
            body+="{%% if loop.index0 %% %d == %d %%}"%(k,j)+"".join(",{{ %s }}"%expr(a) for a in q)+"{% endif %}"
        src="{% for x in seq %}"+body+";{% endfor %}"
        exp=expected(items,q2)
        for en,env in envs.items():
            t=env.from_string(src)
            for fn,mk in forms(items):
                if fn=="agen" and en=="sync": continue
                n+=1
                try: got=t.render(seq=mk())
                except Exception as e: got="EXC:"+type(e).__name__+str(e)[:40]
                if got!=exp:
                    kk=(en,fn); bad[kk]+=1; ex.setdefault(kk,(src,items,exp,got))
print(n, sum(bad.values()))
for k,v in bad.items(): print(k,v,ex[k])
