"""Adversarial sandbox grammar shared by C17 / C18 / C19.

* ``World`` -- the probe data handed to a template: probe objects whose private attributes are
  ``Tracer`` values (record any use, print as the sentinel), plus real interpreter objects (function,
  bound method, generator, coroutine, async generator, code, frame, traceback, class) whose internal
  attributes mention the sentinel in their text form.
* ``escape_case()`` -- Hypothesis strategy for C17 cases: receiver x access primitive x name x
  consumption, rendered to template source.  ``core_cases()`` enumerates the primitive x name core.
* ``structural_violations(code)`` -- the code-structure oracle over ``env.compile(src, raw=True)``.
* ``struct_program()`` -- broad statement programs used only for the structural oracle.
* ``call_case()`` / ``call_core_cases()`` -- C18 call paths.
* ``render(env, src, ctx)`` -- sync / async render with a private event loop.

Everything a case needs is in the JSON case itself ({"env", "async", "src", ...}); the world is
rebuilt from scratch inside check_case.
"""
from __future__ import annotations

import ast
import asyncio
import re
import types

from hypothesis import strategies as st

SENT = "ZQXLEAKQZ"


# ---------------------------------------------------------------------------------------
# rendering helper


def render(env, src, ctx):
    """Compile and render; returns the text.  Exceptions propagate."""
    tmpl = env.from_string(src)
    if not env.is_async:
        return tmpl.render(ctx)
    loop = asyncio.new_event_loop()
    try:
        return loop.run_until_complete(tmpl.render_async(ctx))
    finally:
        try:
            loop.run_until_complete(loop.shutdown_asyncgens())
        finally:
            loop.close()


# ---------------------------------------------------------------------------------------
# tracer values and the probe world


class Tracer:
    """A value that must never reach a sandboxed template: every way of using it is recorded."""

    def __init__(self, log, name):
        object.__setattr__(self, "_t_log", log)
        object.__setattr__(self, "_t_name", name)

    def _t_use(self, what):
        self._t_log.append((self._t_name, what))

    def _t_child(self, what):
        self._t_use(what)
        return Tracer(self._t_log, self._t_name + "/" + what)

    def __str__(self):
        self._t_use("str")
        return SENT

    def __repr__(self):
        self._t_use("repr")
        return SENT

    def __format__(self, spec):
        self._t_use("format")
        return SENT

    def __html__(self):
        self._t_use("html")
        return SENT

    def __getattr__(self, name):
        if name.startswith("_t_"):
            raise AttributeError(name)
        return self._t_child("getattr:" + name)

    def __setattr__(self, name, value):
        self._t_use("setattr:" + name)

    def __getitem__(self, key):
        return self._t_child("getitem")

    def __call__(self, *a, **k):
        return self._t_child("call")

    def __iter__(self):
        self._t_use("iter")
        return iter([Tracer(self._t_log, self._t_name + "/item")])

    def __len__(self):
        self._t_use("len")
        return 1

    def __bool__(self):
        self._t_use("bool")
        return True

    def __contains__(self, x):
        self._t_use("contains")
        return True

    def __eq__(self, other):
        self._t_use("eq")
        return self is other

    def __ne__(self, other):
        self._t_use("ne")
        return self is not other

    def __hash__(self):
        self._t_use("hash")
        return 7

    def _t_cmp(self, other):
        self._t_use("cmp")
        return False

    __lt__ = __le__ = __gt__ = __ge__ = _t_cmp

    def _t_arith(self, *other):
        return self._t_child("arith")

    __add__ = __radd__ = __sub__ = __rsub__ = __mul__ = __rmul__ = __truediv__ = __rtruediv__ = _t_arith
    __floordiv__ = __rfloordiv__ = __mod__ = __rmod__ = __pow__ = __rpow__ = __neg__ = __pos__ = _t_arith

    def __int__(self):
        self._t_use("int")
        return 1

    def __float__(self):
        self._t_use("float")
        return 1.0

    def __index__(self):
        self._t_use("index")
        return 1


_FN_SRC = (
    "def fn_%(S)s(a=1):\n"
    "    k = '%(S)s_const'\n"
    "    return 'fnval'\n"
    "def gen_%(S)s():\n"
    "    yield 'g1'\n"
    "    yield 'g2'\n"
    "async def co_%(S)s():\n"
    "    return 'coval'\n"
    "async def ag_%(S)s():\n"
    "    yield 'a1'\n"
    "def frame_%(S)s():\n"
    "    import sys\n"
    "    return sys._getframe()\n"
    "def raise_%(S)s():\n"
    "    raise KeyError('%(S)s_exc')\n"
) % {"S": SENT}

_static = {}


def _statics():
    """Interpreter objects whose internals mention the sentinel; built once per process."""
    if _static:
        return _static
    glob = {SENT + "_glob": 1, "__name__": SENT + "_mod"}
    exec(compile(_FN_SRC, SENT + "_file.py", "exec"), glob)
    fn = glob["fn_" + SENT]
    try:
        glob["raise_" + SENT]()
    except KeyError as e:
        tb = e.__traceback__.tb_next
    _static.update(
        glob=glob,
        fn=fn,
        genf=glob["gen_" + SENT],
        cof=glob["co_" + SENT],
        agf=glob["ag_" + SENT],
        code=fn.__code__,
        frame=glob["frame_" + SENT](),
        tb=tb,
    )
    return _static


class MyStr(str):
    pass


class FmtTable(dict):
    """name -> '{0.name}' as a plain str / Markup / str subclass: format strings supplied as data."""

    def __init__(self, wrap):
        super().__init__()
        self._wrap = wrap

    def __missing__(self, key):
        return self._wrap("{0.%s}" % key)


class World:
    """Fresh probe data for one render."""

    def __init__(self, names=()):
        from markupsafe import Markup

        self.log = log = []
        s = _statics()

        class Probe:
            _cp = Tracer(log, "Probe._cp")
            __cd__ = Tracer(log, "Probe.__cd__")
            pub = "pubval"

            def __init__(self, name, depth=1):
                self.name = name
                self._p = Tracer(log, name + "._p")
                self._ = Tracer(log, name + "._")
                self.__dict__["__dd"] = Tracer(log, name + ".__dd")
                self.__dict__["_Probe__mangled"] = Tracer(log, name + "._Probe__mangled")
                if depth:
                    self.child = Probe(name + "c", depth - 1)
                    self.items = [Probe(name + "i0", 0), Probe(name + "i1", 0)]
                    self.table = {"k": Probe(name + "k", 0)}

            @property
            def _prop(self):
                return Tracer(log, self.name + "._prop")

            def __getattr__(self, attr):
                if attr.startswith("_dyn") or attr.startswith("__dyn"):
                    return Tracer(log, self.name + "." + attr)
                raise AttributeError(attr)

            def meth(self, *a, **k):
                return "methval"

            def _pmeth(self, *a, **k):
                return Tracer(log, self.name + "._pmeth()")

            def __repr__(self):
                return "<probe %s>" % self.name

        Probe.__name__ = Probe.__qualname__ = "Probe" + SENT
        Probe.__module__ = SENT + "_mod"
        o, o2 = Probe("a"), Probe("b")
        self.co = s["cof"]()
        self.ctx = {
            "o": o,
            "o2": o2,
            "ps": [o, o2],
            "C": Probe,
            "f": s["fn"],
            "m": o.meth,
            "g": s["genf"](),
            "co": self.co,
            "ag": s["agf"](),
            "code": s["code"],
            "frame": s["frame"],
            "tb": s["tb"],
            "st": "abc",
            "mys": MyStr("abc"),
            "mk": Markup("abc"),
            "num": 42,
            "lst": [o, o2],
            "tup": (o, o2),
            "dct": {"k": o, "j": o2},
            "nested": {"a": [o], "b": {"c": o}},
            "names": list(names),
            "libname": LIB_NAME,
            "fmts": FmtTable(str),
            "mfmts": FmtTable(Markup),
            "sfmts": FmtTable(MyStr),
        }

    def close(self):
        self.co.close()


def apply_filter(f, *args):
    """Harness-defined filter: calls its first argument (a call made without ``environment.call``)."""
    return f(*args)


LIB_NAME = "lib" + SENT
LIB_SRC = "libbody" + SENT + "{% macro mac(a=1) %}macval{% endmacro %}{% set pubvar = 'pubval' %}"


def make_env(kind, is_async=False, autoescape=False, loader=None, extensions=()):
    """kind: 'plain' (control), 'sandbox', 'immutable'.  Every environment can import the template LIB_NAME."""
    import jinja2

    if loader is None:
        loader = jinja2.DictLoader({LIB_NAME: LIB_SRC})
    from jinja2.sandbox import ImmutableSandboxedEnvironment, SandboxedEnvironment

    cls = {"plain": jinja2.Environment, "sandbox": SandboxedEnvironment, "immutable": ImmutableSandboxedEnvironment}[kind]
    env = cls(enable_async=is_async, autoescape=autoescape, loader=loader, extensions=list(extensions), cache_size=0)
    env.filters["apply"] = apply_filter
    return env


# ---------------------------------------------------------------------------------------
# C17: names, receivers, primitives, consumption

TRACER_NAMES = ["_p", "_cp", "__dd", "__cd__", "_prop", "_dynx", "__dynx__", "_pmeth", "_", "_Probe__mangled"]
# dunder names tried wherever they exist on the receiver
DUNDER_PICK = [
    "__class__", "__dict__", "__init__", "__module__", "__doc__", "__reduce__", "__reduce_ex__", "__getattribute__",
    "__repr__", "__str__", "__eq__", "__dir__", "__sizeof__", "__init_subclass__", "__subclasshook__", "__setattr__",
    "__new__", "__hash__", "__format__", "__mro__", "__bases__", "__base__", "__subclasses__", "__name__", "__qualname__",
    "__call__", "__globals__", "__code__", "__closure__", "__defaults__", "__builtins__", "__kwdefaults__", "__get__",
    "__annotations__", "__func__", "__self__", "__wrapped__", "__next__", "__iter__", "__await__", "__aiter__", "__anext__",
    "__add__", "__mod__", "__len__", "__getitem__", "__contains__", "__html__", "__html_format__", "__int__", "__slots__",
    "__weakref__", "__enter__", "__exit__", "__getattr__", "__delattr__", "__getstate__", "__class_getitem__",
]
# names that exist nowhere on Python 3 (the sandbox answers undefined for them): kept as a low-weight class
LEGACY_NAMES = ["func_globals", "func_code", "func_closure", "func_defaults", "im_class", "im_func", "im_self", "__nonexistent__",
                "_nonexistent"]

_PROBE_HOPS = [
    ("o", []), ("o2", []), ("o", [("a", "child")]), ("o", [("a", "items"), ("i", 0)]), ("o", [("a", "table"), ("i", "k")]),
    ("lst", [("i", 0)]), ("tup", [("i", 1)]), ("dct", [("i", "k")]), ("nested", [("i", "a"), ("i", 0)]),
    ("nested", [("i", "b"), ("i", "c")]), ("ps", [("i", 1)]),
]
# Data receivers: (context variable, hops) with hops = [("a", attr) | ("i", key)]
_DATA_RECV = _PROBE_HOPS + [
    ("C", []), ("f", []), ("m", []), ("o", [("a", "meth")]), ("g", []), ("co", []), ("ag", []), ("code", []), ("frame", []),
    ("tb", []), ("st", []), ("mys", []), ("mk", []), ("num", []), ("lst", []), ("dct", []),
    ("f", [("a", "__code__")]), ("g", [("a", "gi_frame")]), ("tb", [("a", "tb_frame")]),
]

# Engine-provided receivers: (prefix, expression, suffix); available only as expressions.
_ENGINE_RECV = [
    ("", "''", ""),
    ("", "'a{0}'", ""),
    ("", "('x'|safe)", ""),
    ("", "0", ""),
    ("", "[]", ""),
    ("", "{}", ""),
    ("", "()", ""),
    ("", "true", ""),
    ("", "none", ""),
    ("", "range(2)", ""),
    ("", "range", ""),
    ("", "lipsum", ""),
    ("", "cycler", ""),
    ("", "joiner", ""),
    ("", "namespace", ""),
    ("", "namespace(a=1)", ""),
    ("", "cycler(1, 2)", ""),
    ("", "joiner()", ""),
    ("", "nope", ""),
    ("", "self", ""),
    ("{% block bk %}{% endblock %}", "self.bk", ""),
    ("{% macro mm(a=1) %}x{% endmacro %}", "mm", ""),
    ("{% for it in [1, 2] %}", "loop", "{% endfor %}"),
    ("{% for it in [[1]] recursive %}", "loop", "{% endfor %}"),
    ("{% for it in [1, 2] %}", "loop.cycle", "{% endfor %}"),
    ("{% macro cm() %}", "caller", "{% endmacro %}{% call cm() %}x{% endcall %}"),
    ("{% macro vm() %}", "varargs", "{% endmacro %}{{ vm(1) }}"),
    ("{% macro km() %}", "kwargs", "{% endmacro %}{{ km(a=1) }}"),
    ("{% set ns = namespace(v=o) %}", "ns.v", ""),
    ("{% set al = o %}", "al", ""),
    ("{% with wl = o.child %}", "wl", "{% endwith %}"),
    ("{% for it in ps %}", "it", "{% endfor %}"),
    ("{% for it in ps %}", "loop.previtem", "{% endfor %}"),
    ("{% for it in ps %}", "loop.nextitem", "{% endfor %}"),
    ("{% for k, it in dct|items %}", "it", "{% endfor %}"),
    ("{% macro rm(it) %}", "it", "{% endmacro %}{{ rm(o) }}"),
    ("", "(ps|first)", ""),
    ("", "(ps|last)", ""),
    ("", "(nope|default(o))", ""),
    ("", "(o if true else 1)", ""),
    ("", "(ps|list)[0]", ""),
    ("", "(ps|reverse|first)", ""),
    ("", "(ps|batch(1)|first|first)", ""),
    ("", "(ps|sort(attribute='name')|first)", ""),
    ("", "(dct|dictsort|first)[1]", ""),
    ("{% import '" + LIB_NAME + "' as imod %}", "imod", ""),
    ("{% import '" + LIB_NAME + "' as imod with context %}", "imod", ""),
    ("{% import libname as imod %}", "imod", ""),
    ("{% from '" + LIB_NAME + "' import mac %}", "mac", ""),
    ("{% from '" + LIB_NAME + "' import mac as mc2 with context %}", "mc2", ""),
    ("", "(o.meth)", ""),
    ("", "(st.upper)", ""),
    ("", "(lst.index)", ""),
]


def _name_pool(obj):
    """Private / internal attribute names worth trying on obj: every single-underscore name it has, the
    picked dunder names it has, and the public names the sandbox classifies as internal for its type."""
    try:
        listed = dir(obj)
    except Exception:  # noqa: BLE001
        listed = []
    pool = [n for n in listed if n.startswith("_") and not (n.startswith("__") and n.endswith("__"))]
    pool += [n for n in TRACER_NAMES + ["_Namespace__attrs", "_TemplateReference__context"] if n not in pool and _has(obj, n)]
    pool += [n for n in DUNDER_PICK if _has(obj, n)]
    pool += [n for n in listed if not n.startswith("_") and _documented_internal(obj, n)]
    if isinstance(obj, type):
        pool.append("mro")  # lives on the metaclass, so dir(cls) does not list it
    return pool or ["__class__"]


def _documented_internal(obj, n):
    """The documented classification of public names as internal (sandbox docs / is_internal_attribute docstring and
    the UNSAFE_* constants), written down here so that the generator does not consult the code under test."""
    if isinstance(obj, type):
        return n == "mro"
    if isinstance(obj, (types.CodeType, types.TracebackType, types.FrameType)):
        return True
    if isinstance(obj, types.GeneratorType):
        return n in ("gi_frame", "gi_code")
    if isinstance(obj, types.CoroutineType):
        return n in ("cr_frame", "cr_code")
    if isinstance(obj, types.AsyncGeneratorType):
        return n in ("ag_frame", "ag_code")
    return False


def _has(obj, n):
    try:
        getattr(obj, n)
        return True
    except Exception:  # noqa: BLE001
        return False


_pools = {}


def pools():
    """-> dict(data=[(base, hops, names)...], engine=[(pre, expr, suf, names)...], all=[names])  (built once)."""
    if _pools:
        return _pools
    w = World()
    try:
        data = []
        for base, hops in _DATA_RECV:
            obj = w.ctx[base]
            for kind, k in hops:
                obj = getattr(obj, k) if kind == "a" else obj[k]
            data.append((base, hops, _name_pool(obj)))
        engine = []
        env = make_env("plain")
        grabbed = []
        ctx = dict(w.ctx, grab=lambda x: grabbed.append(x) or "")
        for pre, expr, suf in _ENGINE_RECV:
            del grabbed[:]
            env.from_string(pre + "{{ grab(" + expr + ") }}" + suf).render(ctx)
            if not grabbed:
                raise RuntimeError("engine receiver %r not reached" % expr)
            engine.append((pre, expr, suf, _name_pool(grabbed[0])))
    finally:
        w.close()
    allnames = sorted(set(n for r in data for n in r[2]) | set(n for r in engine for n in r[3]) | set(LEGACY_NAMES))
    # names tried on *any* receiver must be private everywhere: public names that are internal only on some
    # type (mro, gi_frame, co_code, frame.clear, code.replace, ...) stay with their own receivers
    private = [n for n in allnames if n.startswith("_")] + [n for n in LEGACY_NAMES if not n.startswith("_")]
    _pools.update(data=data, engine=engine, all=sorted(set(private)))
    return _pools


def _q(s):
    """Template string literal for s (names and keys are plain ASCII without quotes)."""
    return "'" + s + "'"


def recv_expr(base, hops, style=0):
    e = base
    for kind, k in hops:
        if kind == "a":
            e = [e + "." + k, e + "[" + _q(k) + "]", "(" + e + "|attr(" + _q(k) + "))"][style % 3]
        elif isinstance(k, int):
            e = e + "[%d]" % k
        else:
            e = [e + "[" + _q(k) + "]", e + "." + k][style % 2]
    return e


def recv_path(hops):
    return ".".join(str(k) for _, k in hops)


def recv_field(hops):
    out = ""
    for kind, k in hops:
        out += ("." + k) if kind == "a" else "[%s]" % k
    return out


# ---- access primitives --------------------------------------------------------------
# Each primitive: fn(R) -> (prefix, expression, suffix) given
#   R = dict(expr, base, path, field, fbase, name, v, w, u)
# kind of the expression:
#   "value"        the looked-up attribute value
#   "text"         a string that is '' when every field was refused
#   "seq"          an iterable of looked-up values
#   "seq_default"  an iterable where refused values were replaced by the default ''
#   "recvs_if" / "recvs_unless"  an iterable of receivers, non-empty / empty iff the value was handed over (and true)
#   "opaque"       a filter result computed from the values (sort, unique, ...): a leak shows as tracer use
#   "groups"       groupby result


def _name_exprs(n):
    """Expressions evaluating to the name string n at run time."""
    half = max(1, len(n) // 2)
    return [
        _q(n),
        "(" + _q(n[:half]) + " ~ " + _q(n[half:]) + ")",
        "(" + _q(n) + "|string)",
        "(" + _q(n) + "|safe)",
        "(" + _q(n[:half]) + " " + _q(n[half:]) + ")" if n[half:] else _q(n),
        "([" + _q(n) + "]|first)",
        "(" + _q(n.upper()) + "|lower)" if n.lower() == n else "(" + _q(" " + n + " ") + "|trim)",
        "(" + _q(n[::-1]) + "|reverse)",
    ]


def _joinpath(*parts):
    return ".".join(p for p in parts if p)


PRIMS = {}


MODULE_EXPRS = ("imod",)  # receivers that are imported template modules: the from-import primitives apply to them


def prim(kind, needs_base=False):
    """needs_base: False = any receiver, True = data receivers only, "module" = imported-module receivers only."""
    def deco(fn):
        PRIMS[fn.__name__] = (fn, kind, needs_base)
        return fn

    return deco


@prim("value")
def dot(R):
    return "", "%s.%s" % (R["expr"], R["name"]), ""


@prim("value")
def sub(R):
    return "", "%s[%s]" % (R["expr"], _name_exprs(R["name"])[R["v"] % 8]), ""


@prim("value")
def sub_setname(R):
    return "{%% set nm = %s %%}" % _q(R["name"]), "%s[nm]" % R["expr"], ""


@prim("value")
def attr_filter(R):
    return "", "(%s|attr(%s))" % (R["expr"], _name_exprs(R["name"])[R["v"] % 8]), ""


@prim("value")
def attr_filter_setname(R):
    return "{%% set nm = %s %%}" % _q(R["name"]), "(%s|attr(nm))" % R["expr"], ""


@prim("value")
def names_loop_sub(R):
    return "{% for n in names %}", "%s[n]" % R["expr"], "{% endfor %}"


@prim("value")
def names_loop_attr(R):
    return "{% for n in names %}", "(%s|attr(n))" % R["expr"], "{% endfor %}"


def _import_from(R, names_clause, ctx=""):
    lib = "libname" if R["w"] % 4 == 3 else _q(LIB_NAME)
    return "{%% from %s import %s%s %%}" % (lib, names_clause, ctx)


@prim("value", needs_base="module")
def from_import_alias(R):
    return _import_from(R, "%s as imx" % R["name"], ["", " with context", " without context"][R["v"] % 3]), "imx", ""


@prim("value", needs_base="module")
def from_import_alias_list(R):
    clause = ["mac, %s as imx", "%s as imx, mac", "%s as imx, pubvar as pv", "pubvar, %s as imx, mac as mq", "%s as imx,"][R["v"] % 5] % R["name"]
    return _import_from(R, clause, ["", " with context"][R["u"] % 2]), "imx", ""


@prim("value", needs_base="module")
def from_import_plain(R):
    # refused at compile time for underscore names (TemplateAssertionError)
    return _import_from(R, R["name"]), R["name"], ""


@prim("value", needs_base="module")
def from_import_in_scope(R):
    pre, suf = [("{% for i in [1] %}", "{% endfor %}"), ("{% macro imm() %}", "{% endmacro %}{{ imm() }}"), ("{% if true %}", "{% endif %}"),
                ("{% block ibk %}", "{% endblock %}")][R["v"] % 4]
    return pre + _import_from(R, "%s as imx" % R["name"]), "imx", suf


@prim("seq")
def map_attribute(R):
    return "", "([%s, %s]|map(attribute=%s))" % (R["expr"], R["expr"], _q(R["name"])), ""


@prim("seq", needs_base=True)
def map_attribute_path(R):
    return "", "([%s]|map(attribute=%s))" % (R["base"], _q(_joinpath(R["path"], R["name"]))), ""


@prim("seq", needs_base=True)
def map_attribute_wrapped(R):
    # dotted path through a template-built container: {'w': [R]} -> 'w.0.<path>.<name>'
    return "", "([{'w': [%s]}]|map(attribute=%s))" % (R["base"], _q(_joinpath("w.0", R["path"], R["name"]))), ""


@prim("seq")
def map_attr_filter(R):
    return "", "([%s]|map('attr', %s))" % (R["expr"], _q(R["name"])), ""


@prim("seq_default")
def map_attribute_default(R):
    return "", "([%s]|map(attribute=%s, default=''))" % (R["expr"], _q(R["name"])), ""


@prim("recvs_if")
def selectattr(R):
    return "", "([%s]|selectattr(%s))" % (R["expr"], _q(R["name"])), ""


@prim("recvs_if")
def selectattr_defined(R):
    return "", "([%s]|selectattr(%s, 'defined'))" % (R["expr"], _q(R["name"])), ""


@prim("recvs_unless")
def rejectattr(R):
    return "", "([%s]|rejectattr(%s))" % (R["expr"], _q(R["name"])), ""


@prim("recvs_unless")
def rejectattr_defined(R):
    return "", "([%s]|rejectattr(%s, 'defined'))" % (R["expr"], _q(R["name"])), ""


@prim("recvs_if", needs_base=True)
def selectattr_path(R):
    return "", "([%s]|selectattr(%s, 'defined'))" % (R["base"], _q(_joinpath(R["path"], R["name"]))), ""


@prim("opaque")
def sort_attribute(R):
    return "", "([%s, %s]|sort(attribute=%s))" % (R["expr"], R["expr"], _q(R["name"])), ""


@prim("opaque")
def sort_multi(R):
    return "", "([%s, %s]|sort(attribute=%s))" % (R["expr"], R["expr"], _q(["pub," + R["name"], R["name"] + ",pub"][R["v"] % 2])), ""


@prim("opaque")
def unique_attribute(R):
    return "", "([%s, %s]|unique(attribute=%s)|list)" % (R["expr"], R["expr"], _q(R["name"])), ""


@prim("opaque")
def min_attribute(R):
    return "", "([%s, %s]|%s(attribute=%s))" % (R["expr"], R["expr"], ["min", "max"][R["v"] % 2], _q(R["name"])), ""


@prim("opaque")
def sum_attribute(R):
    return "", "([%s]|sum(attribute=%s))" % (R["expr"], _q(R["name"])), ""


@prim("text")
def join_attribute(R):
    return "", "([%s, %s]|join('', attribute=%s))" % (R["expr"], R["expr"], _q(R["name"])), ""


@prim("groups")
def groupby_attribute(R):
    n = 1 + R["v"] % 2
    return "", "(%s|groupby(%s))" % ("[" + ", ".join([R["expr"]] * n) + "]", _q(R["name"])), ""


@prim("seq_default")
def groupby_default(R):
    return "", "([%s, %s]|groupby(%s, default='')|map('first'))" % (R["expr"], R["expr"], _q(R["name"])), ""


def _fmt_parts(R):
    """(format string literal, argument list) -- the only replacement field looks the name up."""
    n = R["name"]
    if R["u"] % 2:
        f, arg = "", R["expr"]
    else:
        f, arg = R["field"], R["fbase"]
    fs = R["v"] % 9
    lit = [
        "{0%s.%s}" % (f, n),
        "{0%s[%s]}" % (f, n),
        "{x%s.%s}" % (f, n),
        "{0%s.%s!s:>0}" % (f, n),
        "{0%s.%s!s}" % (f, n),
        "{0%s.%s!r}" % (f, n),
        "{0%s.%s:}" % (f, n),
        "{1:{0%s.%s}}" % (f, n),
        "{0%s.%s:{1}}" % (f, n),
    ][fs]
    if fs == 2:
        args = "x=%s" % arg
    elif fs in (7, 8):
        args = "%s, ''" % arg
    else:
        args = arg
    return lit, args


def _fmt_string_expr(lit, style):
    return [_q(lit), "(" + _q(lit) + "|safe)", "(" + _q(lit) + "|string)", "(" + _q(lit) + "|trim)"][style % 4]


@prim("text")
def format_call(R):
    lit, args = _fmt_parts(R)
    return "", "%s.format(%s)" % (_fmt_string_expr(lit, R["w"]), args), ""


@prim("text")
def format_map_call(R):
    f, arg = ("", R["expr"]) if R["u"] % 2 else (R["field"], R["fbase"])
    lit = "{x%s.%s}" % (f, R["name"])
    how = ["%s.format_map({'x': %s})", "%s['format_map']({'x': %s})", "(%s|attr('format_map'))({'x': %s})"][R["v"] % 3]
    return "", how % (_fmt_string_expr(lit, R["w"]), arg), ""


@prim("text")
def format_getitem(R):
    lit, args = _fmt_parts(R)
    return "", "%s['format'](%s)" % (_fmt_string_expr(lit, R["w"]), args), ""


@prim("text")
def format_attr_filter(R):
    lit, args = _fmt_parts(R)
    return "", "(%s|attr('format'))(%s)" % (_fmt_string_expr(lit, R["w"]), args), ""


@prim("text")
def format_stored(R):
    lit, args = _fmt_parts(R)
    se = _fmt_string_expr(lit, R["w"])
    fe = se + ".format"
    variants = [
        ("{%% set fm = %s %%}" % fe, "fm(%s)" % args, ""),
        ("{%% set fl = [%s] %%}" % fe, "fl[0](%s)" % args, ""),
        ("{%% set fd = {'f': %s} %%}" % fe, "fd.f(%s)" % args, ""),
        ("{%% set fd = {'f': %s} %%}" % fe, "fd['f'](%s)" % args, ""),
        ("{%% set fn = namespace(f=%s) %%}" % fe, "fn.f(%s)" % args, ""),
        ("{%% macro fmac(f) %%}{{ f(%s) }}{%% endmacro %%}" % args, "fmac(%s)" % fe, ""),
        ("", "([%s]|first)(%s)" % (fe, args), ""),
        ("", "(nope|default(%s))(%s)" % (fe, args), ""),
        ("", "([%s]|map(attribute='format')|first)(%s)" % (se, args), ""),
        ("", "(%s|apply(%s))" % (fe, args), "") if "=" not in args else ("", "(%s if true else 1)(%s)" % (fe, args), ""),
        ("{%% with fw = %s %%}" % fe, "fw(%s)" % args, "{% endwith %}"),
        ("{%% for ff in [%s] %%}" % fe, "ff(%s)" % args, "{% endfor %}"),
    ]
    return variants[(R["u"] // 2) % 12]


@prim("text")
def format_data_string(R):
    # the format string itself is supplied as data (plain str, Markup, str subclass)
    tab = ["fmts", "mfmts", "sfmts"][R["v"] % 3]
    how = ["%s[%s].format(%s)", "%s[%s]['format'](%s)", "(%s[%s]|attr('format'))(%s)"][R["w"] % 3]
    return "", how % (tab, _q(R["name"]), R["expr"]), ""


# ---- consumption --------------------------------------------------------------------

GUARD = "{%% if %s is defined %%}" + SENT + "{%% endif %%}"

CONS_VALUE = {
    "print": "{{ @V@ }}",
    "string": "{{ @V@|string }}",
    "concat": "{{ @V@ ~ '' }}",
    "inlist": "{{ [@V@] }}",
    "indict": "{{ {'a': @V@} }}",
    "pctfmt": "{{ '%s'|format(@V@) }}",
    "escape": "{{ @V@|e }}",
    "default": "{{ @V@|default('') }}",
    "defined": "{% if @V@ is defined %}" + SENT + "{% endif %}",
    "truthy": "{% if @V@ %}" + SENT + "{% endif %}",
    "ifexpr": "{{ @V@ if @V@ is defined else '' }}",
    "call": "{{ @V@() }}",
    "call_args": "{{ @V@(1, k=2) }}",
    "iterate": "{% for q in @V@ %}" + SENT + "{{ q }}{% endfor %}",
    "hop": "{{ @V@.pub }}",
    "hop_item": "{{ @V@[0] }}",
    "length": "{% if @V@|length %}" + SENT + "{% endif %}",
    "setprint": "{% set z = @V@ %}{{ z }}" + GUARD % "z",
    "withprint": "{% with z = @V@ %}{{ z }}" + GUARD % "z" + "{% endwith %}",
    "macroarg": "{% macro pm(a) %}{{ a }}" + GUARD % "a" + "{% endmacro %}{{ pm(@V@) }}",
    "nsstore": "{% set zn = namespace(v=@V@) %}{{ zn.v }}" + GUARD % "zn.v",
    "filterblock": "{% filter trim %}{{ @V@ }}{% endfilter %}",
    "setblock": "{% set zb %}{{ @V@ }}{% endset %}{{ zb }}",
    "format_arg": "{{ '{0}'.format(@V@) }}",
    "join": "{{ [@V@]|join(',') }}",
}
CONS_TEXT = {
    "print": "{{ @V@ }}",
    "string": "{{ @V@|string }}",
    "truthy": "{% if @V@ %}" + SENT + "{% endif %}",
    "setprint": "{% set z = @V@ %}{{ z }}{% if z %}" + SENT + "{% endif %}",
    "length": "{% if @V@|length %}" + SENT + "{% endif %}",
    "escape": "{{ @V@|e }}{{ @V@|forceescape }}",
}
CONS_SEQ = {
    "list": "{{ @V@|list }}",
    "first": "{{ @V@|first }}",
    "join": "{{ @V@|join(',') }}",
    "loop": "{% for q in @V@ %}{{ q }}" + GUARD % "q" + "{% endfor %}",
    "loop_truthy": "{% for q in @V@ %}{% if q %}" + SENT + "{% endif %}{% endfor %}",
    "last": "{{ @V@|list|last }}",
    "string": "{{ @V@|list|string }}",
}
CONS_SEQ_DEFAULT = {
    "list": "{{ @V@|list }}",
    "first": "{{ @V@|first }}",
    "join": "{{ @V@|join(',') }}",
    "loop_truthy": "{% for q in @V@ %}{% if q %}" + SENT + "{% endif %}{% endfor %}",
}
CONS_RECVS_IF = {"nonempty": "{% if @V@|list %}" + SENT + "{% endif %}", "loop": "{% for q in @V@ %}" + SENT + "{% endfor %}",
                 "length": "{% if @V@|list|length %}" + SENT + "{% endif %}"}
CONS_RECVS_UNLESS = {"empty": "{% if not (@V@|list) %}" + SENT + "{% endif %}",
                     "length": "{% if (@V@|list|length) == 0 %}" + SENT + "{% endif %}"}
CONS_OPAQUE = {"touch": "{% set z = @V@ %}", "defined": "{% set z = @V@ %}{% if z is defined %}ok{% endif %}"}
CONS_GROUPS = {
    "keys": "{% for k, grp in @V@ %}{{ k }}" + GUARD % "k" + "{% endfor %}",
    "grouper": "{% for grp in @V@ %}{{ grp.grouper }}" + GUARD % "grp.grouper" + "{% endfor %}",
    "first": "{{ (@V@|first)[0] }}",
}
CONS = {"value": CONS_VALUE, "text": CONS_TEXT, "seq": CONS_SEQ, "seq_default": CONS_SEQ_DEFAULT, "recvs_if": CONS_RECVS_IF,
        "recvs_unless": CONS_RECVS_UNLESS, "opaque": CONS_OPAQUE, "groups": CONS_GROUPS}


GUARDS = {
    "value": GUARD % "@V@",
    "text": "{% if @V@ %}" + SENT + "{% endif %}",
    "seq": "{% for q in @V@ %}" + GUARD % "q" + "{% endfor %}",
    "seq_default": "{% for q in @V@ %}{% if q != '' %}" + SENT + "{% endif %}{% endfor %}",
    "groups": "{% for k, grp in @V@ %}" + GUARD % "k" + "{% endfor %}",
}


def build_escape_src(recv, name, primname, cons, v=0, w=0, u=0, style=0, guard=0):
    """recv: ("data", index) | ("engine", index); guard: 0 none, 1 after, 2 before the consumption.
    Returns (src, names)."""
    fn, kind, needs_base = PRIMS[primname]
    P = pools()
    pre_r, suf_r = "", ""
    if recv[0] == "data":
        base, hops, _ = P["data"][recv[1]]
        R = dict(expr=recv_expr(base, hops, style), base=base, path=recv_path(hops), field=recv_field(hops), fbase=base)
    else:
        pre_r, expr, suf_r, _ = P["engine"][recv[1]]
        R = dict(expr=expr, base=expr, path="", field="", fbase=expr)
    R.update(name=name, v=v, w=w, u=u)
    pre, expr, suf = fn(R)
    is_repr = kind == "text" and "!r}" in pre + expr  # repr of a refused value is the text 'Undefined', not ''
    if is_repr and cons not in ("print", "string", "escape"):
        cons = "print"
    body = CONS[kind][cons].replace("@V@", expr)
    if guard and kind in GUARDS and not is_repr:
        gtext = GUARDS[kind].replace("@V@", expr)
        body = body + gtext if guard == 1 else gtext + body
    names = [name] if primname.startswith("names_loop") else []
    return pre_r + pre + body + suf + suf_r, names


def cons_names(primname):
    return sorted(CONS[PRIMS[primname][1]])


ENVS4 = [("sandbox", False), ("sandbox", True), ("immutable", False), ("immutable", True)]
PRIM_NAMES = sorted(PRIMS)


def _case(recv, name, primname, cons, v, w, u, style, guard, kind, is_async, autoescape, extra_names=()):
    src, names = build_escape_src(recv, name, primname, cons, v, w, u, style, guard)
    return {"env": kind, "async": is_async, "autoescape": autoescape, "src": src, "names": names + list(extra_names) if names else [],
            "tags": ["prim_" + primname, "recv_" + recv[0]]}


@st.composite
def escape_case(draw):
    P = pools()
    if draw(st.integers(0, 9)) < 6:
        ri = draw(st.integers(0, len(P["data"]) - 1))
        recv = ("data", ri)
        pool = P["data"][ri][2]
        prims = [p for p in PRIM_NAMES if PRIMS[p][2] != "module"]
    else:
        ri = draw(st.integers(0, len(P["engine"]) - 1))
        recv = ("engine", ri)
        pool = P["engine"][ri][3]
        prims = [p for p in PRIM_NAMES if not PRIMS[p][2] or (PRIMS[p][2] == "module" and P["engine"][ri][1] in MODULE_EXPRS)]
    primname = draw(st.sampled_from(prims))
    if PRIMS[primname][1] == "opaque":
        # a leak into sort/min/max/unique/sum shows only as tracer use: prefer tracer-backed names
        tr = [n for n in pool if n in TRACER_NAMES]
        pool = tr or pool
    nd = [n for n in pool if not (n.startswith("__") and n.endswith("__"))]
    if nd and draw(st.booleans()):
        pool = nd  # half of the draws target single-underscore / tracer-backed names where the receiver has any
    name = draw(st.sampled_from(pool)) if draw(st.integers(0, 19)) else draw(st.sampled_from(P["all"]))
    cons = draw(st.sampled_from(cons_names(primname)))
    v, w, u, style = draw(st.integers(0, 8)), draw(st.integers(0, 3)), draw(st.integers(0, 23)), draw(st.integers(0, 5))
    guard = draw(st.sampled_from([1, 2, 0, 1]))
    kind, is_async = draw(st.sampled_from(ENVS4))
    autoescape = draw(st.booleans())
    extra = draw(st.lists(st.sampled_from(P["all"]), max_size=3)) if primname.startswith("names_loop") else ()
    return _case(recv, name, primname, cons, v, w, u, style, guard, kind, is_async, autoescape, extra)


def core_cases():
    """Enumerated core: every primitive x every private/internal name of every receiver without hops (and
    the engine receivers), rotating through consumptions, spelling variants and the 4 environments."""
    P = pools()
    seen = set()
    natural = [(("data", i), r[2]) for i, r in enumerate(P["data"]) if not r[1]]
    thin = {}
    for i, r in enumerate(P["engine"]):
        # engine receivers: every name through the syntactic primitives (dot, subscript), a fifth of the dunder
        # names through the other primitives
        dunder = [n for n in r[3] if n.startswith("__") and n.endswith("__")]
        natural.append((("engine", i), r[3]))
        thin[("engine", i)] = set(dunder) - set(dunder[i % 5::5])
    k = 0
    for recv, pool in natural:
        for name in pool:
            for primname in PRIM_NAMES:
                if primname not in ("dot", "sub") and PRIMS[primname][2] != "module" and name in thin.get(recv, ()):
                    continue
                flag = PRIMS[primname][2]
                if flag == "module":
                    if recv[0] != "engine" or P["engine"][recv[1]][1] not in MODULE_EXPRS:
                        continue
                elif recv[0] == "engine" and flag:
                    continue
                if PRIMS[primname][1] == "opaque" and name not in TRACER_NAMES:
                    continue
                cl = cons_names(primname)
                k += 1
                envkind, is_async = ENVS4[k % 4]
                c = _case(recv, name, primname, cl[k % len(cl)], k % 9, k % 4, k % 24, k % 6, [1, 2, 0][k % 3], envkind, is_async,
                          bool((k // 4) % 2))
                key = (c["src"], envkind, is_async)
                if key in seen:
                    continue
                seen.add(key)
                yield c


# ---------------------------------------------------------------------------------------
# structural oracle on generated code

ALLOWED_ROOT_NAMES = re.compile(r"^(environment|context|template|included_template|parent_template|gen|agen|t_\d+|_loop_vars|_block_vars)$")
ALLOWED_CALL_ROOTS = {
    "environment.get_template", "environment.select_template", "environment.get_or_select_template",
    "context.blocks.setdefault", "template._get_default_module", "template._get_default_module_async",
}


def _root(node):
    """Walk down to what an attribute chain is rooted at."""
    while True:
        if isinstance(node, ast.Attribute):
            node = node.value
        elif isinstance(node, ast.Subscript):
            node = node.value
        elif isinstance(node, ast.Await):
            node = node.value
        else:
            return node


def structural_violations(code):
    """-> list of messages; code is the Python source from env.compile(src, raw=True)."""
    out = []
    tree = ast.parse(code)
    for node in ast.walk(tree):
        if (isinstance(node, ast.Call) and isinstance(node.func, ast.Name) and node.func.id == "getattr" and len(node.args) >= 2
                and isinstance(node.args[1], ast.Constant) and isinstance(node.args[1].value, str) and node.args[1].value.startswith("_")):
            # from-imports compile to getattr(included_template, name, missing): never for a private name
            out.append("builtin getattr for the private name %r: %s" % (node.args[1].value, ast.unparse(node)[:200]))
        if not isinstance(node, ast.Attribute):
            continue
        r = _root(node.value)
        if isinstance(r, ast.Name):
            if ALLOWED_ROOT_NAMES.match(r.id):
                continue
            out.append("attribute .%s on name %s: %s" % (node.attr, r.id, ast.unparse(node)[:200]))
        elif isinstance(r, ast.Call):
            fn = ast.unparse(r.func)
            if fn in ALLOWED_CALL_ROOTS and isinstance(_root(r.func), ast.Name):
                continue
            out.append("attribute .%s on the result of %s(...): %s" % (node.attr, fn, ast.unparse(node)[:200]))
        else:
            out.append("attribute .%s on %s: %s" % (node.attr, type(r).__name__, ast.unparse(node)[:200]))
    return out


# broad statement programs (compiled only) -----------------------------------------------

_VARS = ["a", "b", "c", "x", "loop", "self", "caller", "varargs", "super", "q", "it"]
_LITS = ["1", "'s'", "[]", "{}", "none", "true", "'a{0.b}'", "range(3)"]
_ATTRS = ["b", "_p", "__class__", "items", "x", "format", "mro", "gi_frame"]
_FILTERS = ["upper", "list", "first", "string", "safe", "length", "trim", "e"]
_EXPR_KINDS = {
    "attr": "%(a)s.%(at)s",
    "item": "%(a)s[%(b)s]",
    "sitem": "%(a)s['%(at)s']",
    "slice": "%(a)s[%(b)s:%(c)s]",
    "slice3": "%(a)s[::%(b)s]",
    "call": "%(a)s(%(b)s, k=%(c)s)",
    "callstar": "%(a)s(*%(b)s, **%(c)s)",
    "filter": "(%(a)s|%(fl)s)",
    "filterarg": "(%(a)s|default(%(b)s))",
    "filterkw": "(%(a)s|default(value=%(b)s, boolean=%(c)s))",
    "attrfilter": "(%(a)s|attr('%(at)s'))",
    "mapattr": "(%(a)s|map(attribute='%(at)s')|list)",
    "test": "(%(a)s is defined)",
    "testarg": "(%(a)s is divisibleby(%(b)s))",
    "nottest": "(%(a)s is not sameas %(b)s)",
    "cond": "(%(a)s if %(b)s else %(c)s)",
    "condnoelse": "(%(a)s if %(b)s)",
    "binop": "(%(a)s + %(b)s)",
    "pow": "(%(a)s ** %(b)s)",
    "concat": "(%(a)s ~ %(b)s ~ %(c)s)",
    "cmp": "(%(a)s < %(b)s <= %(c)s)",
    "inop": "(%(a)s in %(b)s)",
    "notin": "(%(a)s not in %(b)s)",
    "logic": "(not %(a)s and %(b)s or %(c)s)",
    "neg": "(-%(a)s)",
    "list": "[%(a)s, %(b)s]",
    "tuple": "(%(a)s, %(b)s)",
    "dict": "{'k': %(a)s, 'j': %(b)s}",
    "methcall": "%(a)s.%(at)s(%(b)s)",
    "fmtcall": "'{0.%(at)s}'.format(%(a)s)",
}
_EK = sorted(_EXPR_KINDS)


def _rexpr(r, depth):
    if depth <= 0 or r.random() < 0.25:
        return r.choice(_VARS) if r.random() < 0.7 else r.choice(_LITS)
    kind = r.choice(_EK)
    t = _EXPR_KINDS[kind]
    d = {"at": r.choice(_ATTRS), "fl": r.choice(_FILTERS)}
    for k in "abc":
        if "%(" + k + ")s" in t:
            d[k] = _rexpr(r, depth - 1)
    return t % d


_STMT_KINDS = {
    "out": "{{ %(x)s }}",
    "text": "text",
    "if": "{%% if %(x)s %%}%(b1)s{%% elif %(y)s %%}%(b2)s{%% else %%}z{%% endif %%}",
    "for": "{%% for it in %(x)s %%}%(b1)s{{ loop.index }}{%% else %%}%(b2)s{%% endfor %%}",
    "forif": "{%% for it in %(x)s if %(y)s %%}%(b1)s{%% endfor %%}",
    "forrec": "{%% for it in %(x)s recursive %%}%(b1)s{{ loop(%(y)s) }}{%% endfor %%}",
    "forunpack": "{%% for q, (it, c) in %(x)s %%}%(b1)s{%% endfor %%}",
    "set": "{%% set %(nm)s = %(x)s %%}%(b1)s",
    "settuple": "{%% set %(nm)s, q = %(x)s %%}%(b1)s",
    "setblock": "{%% set %(nm)s %%}%(b1)s{%% endset %%}",
    "setblockfilter": "{%% set %(nm)s | upper %%}%(b1)s{%% endset %%}",
    "setns": "{%% set ns = namespace(a=%(x)s) %%}{%% set ns.b = %(y)s %%}{{ ns.b }}%(b1)s",
    "with": "{%% with %(nm)s = %(x)s, q = %(y)s %%}%(b1)s{%% endwith %%}",
    "macro": "{%% macro m_%(nm)s(a, b=%(x)s) %%}%(b1)s{{ caller(%(y)s) if caller }}{{ varargs }}{{ kwargs }}{%% endmacro %%}{{ m_%(nm)s(%(y)s) }}",
    "call": "{%% macro c_%(nm)s(a) %%}{{ caller(a) }}{%% endmacro %%}{%% call(q) c_%(nm)s(%(x)s) %%}%(b1)s{%% endcall %%}",
    "callexpr": "{%% call %(v)s.b(%(y)s) %%}%(b1)s{%% endcall %%}",
    "filterblock": "{%% filter upper %%}%(b1)s{%% endfilter %%}",
    "filterblockarg": "{%% filter default(%(x)s) %%}%(b1)s{%% endfilter %%}",
    "autoescape": "{%% autoescape %(x)s %%}%(b1)s{%% endautoescape %%}",
    "block": "{%% block blk_%(uid)s %%}%(b1)s{{ super() }}{%% endblock %%}",
    "blockscoped": "{%% block sblk_%(uid)s scoped %%}%(b1)s{%% endblock %%}{{ self.sblk_%(uid)s() }}",
    "include": "{%% include %(x)s %%}{%% include [%(y)s, 'x'] ignore missing %%}{%% include 'x' without context %%}",
    "import": "{%% import %(x)s as im_%(nm)s %%}{{ im_%(nm)s.f(%(y)s) }}",
    "importctx": "{%% import 'x' as imc_%(nm)s with context %%}{{ imc_%(nm)s.%(nm)s }}",
    "from": "{%% from %(x)s import fa_%(nm)s, g as fb_%(nm)s with context %%}{{ fa_%(nm)s(%(y)s) }}{{ fb_%(nm)s.b }}",
    "trans": "{%% trans %(nm)s=%(x)s %%}t{{ %(nm)s }}{%% pluralize %%}u{%% endtrans %%}",
    "do": "{%% do %(x)s %%}",
    "loopctl": "{%% for it in %(x)s %%}{%% if %(y)s %%}{%% break %%}{%% endif %%}{%% continue %%}{%% endfor %%}",
    "debug": "{%% debug %%}",
    "raw": "{%% raw %%}{{ a.b }}{%% endraw %%}",
}
_SK = sorted(_STMT_KINDS)
_NOT_IN_BLOCKISH = {"block", "blockscoped"}  # blocks are only generated outside macros / call blocks / loops


def _rstmt(r, depth, uid, allow_block=True):
    kind = r.choice(_SK) if depth > 0 else r.choice(["out", "text", "do", "set"])
    if kind in _NOT_IN_BLOCKISH and not allow_block:
        kind = "out"
    t = _STMT_KINDS[kind]
    inner_block = allow_block and kind in ("if", "with", "set", "autoescape", "filterblock", "block")
    d = {"nm": r.choice(["a", "b", "x", "q"]), "v": r.choice(["a", "b", "x"])}
    if "%(uid)s" in t:
        uid[0] += 1
        d["uid"] = str(uid[0])
    for k in ("x", "y"):
        if "%(" + k + ")s" in t:
            d[k] = _rexpr(r, 2)
    for k in ("b1", "b2"):
        if "%(" + k + ")s" in t:
            d[k] = "".join(_rstmt(r, depth - 1, uid, inner_block) for _ in range(r.randint(1, 2)))
    return t % d


STRUCT_EXTS = ("jinja2.ext.i18n", "jinja2.ext.do", "jinja2.ext.loopcontrols", "jinja2.ext.debug")


@st.composite
def struct_program(draw):
    r = draw(st.randoms(use_true_random=False))
    uid = [0]
    src = "".join(_rstmt(r, 2, uid) for _ in range(r.randint(1, 3)))
    if r.random() < 0.2:
        src = "{% extends " + _rexpr(r, 1) + " %}" + src
    kind, is_async = r.choice(ENVS4)
    return {"env": kind, "async": is_async, "struct": True, "src": src}


# ---------------------------------------------------------------------------------------
# C18: call paths

# callable expressions: key -> (python-side name recorded, marking)
#   marking: "unsafe" | "alters" | "delete" (rejected only by the overriding environment) | "safe"
CALLABLES = {
    "u.boom": ("boom", "unsafe"),
    "u.wipe": ("wipe", "alters"),
    "u.delete_x": ("delete_x", "delete"),
    "u.ok": ("ok", "safe"),
    "ufn": ("ufn", "unsafe"),
    "afn": ("afn", "alters"),
    "delete_fn": ("delete_fn", "delete"),
    "sfn2": ("sfn2", "safe"),
    "uobj": ("uobj", "unsafe"),
    "aobj": ("aobj", "alters"),
    "UCls": ("UCls", "unsafe"),
    "u['boom']": ("boom", "unsafe"),
    "(u|attr('wipe'))": ("wipe", "alters"),
    "cd.f": ("ufn", "unsafe"),
    "cl[0]": ("afn", "alters"),
    "cd['d']": ("delete_fn", "delete"),
    "([u]|map(attribute='boom')|first)": ("boom", "unsafe"),
    "u.aboom": ("aboom", "unsafe"),
    "u.static_boom": ("static_boom", "unsafe"),
    "u.class_wipe": ("class_wipe", "alters"),
    "u.child.boom": ("child.boom", "unsafe"),
    # callable objects whose marker is not in the instance __dict__: class attribute, inherited, property, __slots__
    "cobj_class_alters": ("cobj_class_alters", "alters"),
    "cobj_class_unsafe": ("cobj_class_unsafe", "unsafe"),
    "cobj_inherited_unsafe": ("cobj_inherited_unsafe", "unsafe"),
    "cobj_inherited_alters": ("cobj_inherited_alters", "alters"),
    "cobj_prop_alters": ("cobj_prop_alters", "alters"),
    "cobj_prop_unsafe": ("cobj_prop_unsafe", "unsafe"),
    "cobj_slots_unsafe": ("cobj_slots_unsafe", "unsafe"),
    "cobj_slots_alters": ("cobj_slots_alters", "alters"),
    "cobj_getattr_unsafe": ("cobj_getattr_unsafe", "unsafe"),
    "ACls": ("ACls", "alters"),
    "u.inherited_boom": ("inherited_boom", "unsafe"),
    "cobj_plain": ("cobj_plain", "safe"),
    # bound methods the overriding environment rejects because of the instance they are bound to (a marked "model"
    # instance) or because the bound method is on its block list; unmarked and allowed under the default policy
    "mdl.save": ("mdl.save", "model"),
    "mdl['save']": ("mdl.save", "model"),
    "(mdl|attr('ok'))": ("mdl.ok", "model"),
    "mdl.child.save": ("mdl.child.save", "model"),
    "u.listed": ("listed", "model"),
    "cd2.m": ("mdl.save", "model"),
    # callable objects whose __call__ is decorated with pass_context / pass_eval_context / pass_environment (the engine
    # calls their bound __call__): marker on the instance, on the class, or rejected by the override's block list
    "pc_ctx_unsafe": ("pc_ctx_unsafe", "unsafe"),
    "pc_ctx_class_alters": ("pc_ctx_class_alters", "alters"),
    "pc_eval_unsafe": ("pc_eval_unsafe", "unsafe"),
    "pc_eval_class_unsafe": ("pc_eval_class_unsafe", "unsafe"),
    "pc_env_alters": ("pc_env_alters", "alters"),
    "pc_env_class_unsafe": ("pc_env_class_unsafe", "unsafe"),
    "pc_ctx_listed": ("pc_ctx_listed", "model"),
    "pc_env_listed": ("pc_env_listed", "model"),
    "pc_ctx_plain": ("pc_ctx_plain", "safe"),
    "pc_env_plain": ("pc_env_plain", "safe"),
    "pcd.f": ("pc_ctx_unsafe", "unsafe"),
    # functions decorated with both a pass_* decorator and a marker
    "pcfn_ctx_unsafe": ("pcfn_ctx_unsafe", "unsafe"),
    "pcfn_env_alters": ("pcfn_env_alters", "alters"),
    # safe at their first use, flagged alters_data from then on (the case performs that first use before the call site)
    "late_fn": ("late_fn", "late"),
    "u.late": ("late", "late"),
    "late_obj": ("late_obj", "late"),
    # C-implemented callables (no recorder: the effect on the data is observed); rejected by name by the overriding
    # environment, which is the only environment they are used with
    "bl.append": ("bl.append", "builtin"),
    "bl['append']": ("bl.append", "builtin"),
    "(bl|attr('extend'))": ("bl.extend", "builtin"),
    "bd.clear": ("bd.clear", "builtin"),
    "bd.update": ("bd.update", "builtin"),
    "bd.pop": ("bd.pop", "builtin"),
    "getcwd": ("getcwd", "builtin"),
    "bs.upper": ("bs.upper", "builtin"),
    "blen": ("blen", "builtin"),
}
BUILTIN_REJECTED_NAMES = ("append", "extend", "clear", "update", "pop", "getcwd", "upper", "len")

# safe calls made before the call site: key -> (template text placed before the path, sources rendered before on the same
# environment and data).  @U@ = the callable expression (first use of a "late" callable).
PRELUDES = {
    "none": ("", []),
    "method_before": ("{{ u.ping() }}", []),
    "methods_loop": ("{% for i in [1, 2, 3] %}{{ u.ping() }}{{ u.child.ping(i) }}{% endfor %}", []),
    "method_in_macro": ("{% macro pq(f) %}{{ f() }}{% endmacro %}{{ pq(u.ping) }}", []),
    "prior_render": ("", ["{{ u.ping() }}{{ sfn2() }}{{ u.child.ping() }}"]),
    "prior_render_twice": ("{{ u.ping() }}", ["{{ u.ping() }}", "{% for i in [1, 2] %}{{ u.child.ping() }}{% endfor %}"]),
    "first_use": ("{{ @U@() }}", []),
    "first_use_prior_render": ("", ["{{ @U@() }}"]),
}
_LATE_PRELUDES = ["first_use", "first_use_prior_render"]
_PLAIN_PRELUDES = ["none", "method_before", "methods_loop", "method_in_macro", "prior_render", "prior_render_twice"]

ARGS = ["", "1", "1, k=2", "*[1, 2]", "**{'k': 1}", "1, *[2], **{'k': 3}"]

# path: key -> (template with @U@ = callable expression, @A@ = arguments, @K@ = quoted recorder name;
#               levels of indirection between the callable and the call site)
CALL_PATHS = {
    "direct": ("{{ @U@(@A@) }}", 0),
    "set_alias": ("{% set al = @U@ %}{{ al(@A@) }}", 1),
    "with_alias": ("{% with al = @U@ %}{{ al(@A@) }}{% endwith %}", 1),
    "set_alias2": ("{% set al = @U@ %}{% set bl = al %}{{ bl(@A@) }}", 2),
    "macro_arg": ("{% macro cm(fq) %}{{ fq(@A@) }}{% endmacro %}{{ cm(@U@) }}", 1),
    "macro_kwarg": ("{% macro cm(fq=none) %}{{ fq(@A@) }}{% endmacro %}{{ cm(fq=@U@) }}", 1),
    "macro_default": ("{% macro cm(fq=@U@) %}{{ fq(@A@) }}{% endmacro %}{{ cm() }}", 1),
    "macro_varargs": ("{% macro cm() %}{{ varargs[0](@A@) }}{% endmacro %}{{ cm(@U@) }}", 1),
    "macro_kwargs": ("{% macro cm() %}{{ kwargs.fq(@A@) }}{% endmacro %}{{ cm(fq=@U@) }}", 1),
    "macro_outer": ("{% macro cm() %}{{ @U@(@A@) }}{% endmacro %}{{ cm() }}", 1),
    "call_block_target": ("{% call @U@(@A@) %}body{% endcall %}", 1),
    "call_block_target_args": ("{% call(x1) @U@(@A@) %}{{ x1 }}{% endcall %}", 1),
    "in_call_block": ("{% macro cm() %}{{ caller() }}{% endmacro %}{% call cm() %}{{ @U@(@A@) }}{% endcall %}", 1),
    "via_caller_arg": ("{% macro cm(fq) %}{{ caller(fq) }}{% endmacro %}{% call(gq) cm(@U@) %}{{ gq(@A@) }}{% endcall %}", 2),
    "loop_var": ("{% for fq in [@U@] %}{{ fq(@A@) }}{% endfor %}", 1),
    "loop_var_last": ("{% for fq in [1, @U@] %}{% if loop.last %}{{ fq(@A@) }}{% endif %}{% endfor %}", 1),
    "loop_recursive": ("{% for fq in [[@U@]] recursive %}{% if fq is callable %}{{ fq(@A@) }}{% else %}{{ loop(fq) }}{% endif %}{% endfor %}", 2),
    "in_loop": ("{% for i in [1] %}{{ @U@(@A@) }}{% endfor %}", 0),
    "in_block": ("{% block bq %}{{ @U@(@A@) }}{% endblock %}", 0),
    "in_block_loop": ("{% block bq %}{% for i in [1] %}{{ @U@(@A@) }}{% endfor %}{% endblock %}", 0),
    "block_scoped": ("{% for fq in [@U@] %}{% block bq scoped %}{{ fq(@A@) }}{% endblock %}{% endfor %}", 1),
    "self_block": ("{% if no %}{% block bq %}{{ @U@(@A@) }}{% endblock %}{% endif %}{{ self.bq() }}", 1),
    "list_elem": ("{{ [@U@][0](@A@) }}", 1),
    "tuple_elem": ("{{ (1, @U@)[1](@A@) }}", 1),
    "dict_elem_attr": ("{{ {'fq': @U@}.fq(@A@) }}", 1),
    "dict_elem_item": ("{{ {'fq': @U@}['fq'](@A@) }}", 1),
    "namespace": ("{% set nq = namespace(fq=@U@) %}{{ nq.fq(@A@) }}", 1),
    "namespace_set": ("{% set nq = namespace() %}{% set nq.fq = @U@ %}{{ nq.fq(@A@) }}", 1),
    "filter_default": ("{{ (@U@|default(1))(@A@) }}", 1),
    "filter_default_arg": ("{{ (nope|default(@U@))(@A@) }}", 1),
    "filter_first": ("{{ ([@U@]|first)(@A@) }}", 1),
    "filter_last": ("{{ ([1, @U@]|last)(@A@) }}", 1),
    "filter_select": ("{{ ([1, @U@]|select('callable')|first)(@A@) }}", 1),
    "filter_list": ("{{ (([@U@]|list)[0])(@A@) }}", 1),
    "cond_expr": ("{{ (@U@ if yes else 1)(@A@) }}", 1),
    "or_expr": ("{{ (none or @U@)(@A@) }}", 1),
    "arg_of_filter": ("{{ nope|default(@U@(@A@)) }}", 1),
    "arg_of_test": ("{{ 1 is eq(@U@(@A@)) }}", 1),
    "arg_of_call": ("{{ sfn(@U@(@A@)) }}", 1),
    "kwarg_of_call": ("{{ sfn(k=@U@(@A@)) }}", 1),
    "arg_of_macro": ("{% macro cm(vq) %}{{ vq }}{% endmacro %}{{ cm(@U@(@A@)) }}", 1),
    "filtered": ("{{ @U@(@A@)|string }}", 0),
    "in_if": ("{% if @U@(@A@) %}y{% endif %}", 0),
    "in_for_iter": ("{% for i in @U@(@A@) %}y{% endfor %}", 0),
    "in_set": ("{% set vq = @U@(@A@) %}", 0),
    "in_set_block": ("{% set vq %}{{ @U@(@A@) }}{% endset %}", 0),
    "in_filter_block": ("{% filter trim %}{{ @U@(@A@) }}{% endfilter %}", 0),
    "in_list": ("{{ [@U@(@A@)] }}", 0),
    "in_dict": ("{{ {'a': @U@(@A@)} }}", 0),
    "in_concat": ("{{ 'a' ~ @U@(@A@) }}", 0),
    "in_compare": ("{{ @U@(@A@) == 1 }}", 0),
    "in_with": ("{% with vq = @U@(@A@) %}{{ vq }}{% endwith %}", 0),
    "in_autoescape": ("{% autoescape true %}{{ @U@(@A@) }}{% endautoescape %}", 0),
    "in_include": ("{% include 'inc_call' %}", 1),
    "in_import_macro": ("{% from 'lib' import callit %}{{ callit(@U@) }}", 1),
    "in_import_module": ("{% import 'lib' as lib %}{{ lib.callit(@U@) }}", 1),
    "in_child_block": ("{% extends 'base' %}{% block body %}{{ @U@(@A@) }}{% endblock %}", 1),
    "in_child_super": ("{% extends 'base_call' %}{% block body %}{{ super() }}{% endblock %}", 1),
    "loop_cycle": ("{% for i in [1] %}{{ loop.cycle(@U@)(@A@) }}{% endfor %}", 1),
    "chained_result": ("{{ u.give(@K@)(@A@) }}", 1),
    "do_stmt": ("{% do @U@(@A@) %}", 0),
    "macro_caller_kwarg": ("{% macro cm() %}{{ caller(@A@) }}{% endmacro %}{{ cm(caller=@U@) }}", 1),
    "macro_caller_param_kw": ("{% macro cm(caller=none) %}{{ caller(@A@) }}{% endmacro %}{{ cm(caller=@U@) }}", 1),
    "macro_caller_param_pos": ("{% macro cm(caller=none) %}{{ caller(@A@) }}{% endmacro %}{{ cm(@U@) }}", 1),
}
# the i18n extension's `_` alias looks the name `gettext` up in the context and calls it: the callable bound to
# `gettext` by a set statement (top level, loop scope, block scope) or supplied as a context variable
CALL_PATHS.update({
    "i18n_alias_set": ("{% set gettext = @U@ %}{{ _(@A@) }}", 2),
    "i18n_alias_loop_set": ("{% for i in [1] %}{% set gettext = @U@ %}{{ _(@A@) }}{% endfor %}", 2),
    "i18n_alias_block_set": ("{% block bq %}{% set gettext = @U@ %}{{ _(@A@) }}{% endblock %}", 2),
    "i18n_alias_stored": ("{% set gettext = @U@ %}{% set tr = _ %}{{ tr(@A@) }}", 3),
    "i18n_alias_filter_arg": ("{% set gettext = @U@ %}{{ nope|default(_(@A@)) }}", 2),
    "i18n_alias_ctx": ("{{ _(@A@) }}", 2),
    "i18n_alias_ctx_in_macro": ("{% macro cm() %}{{ _(@A@) }}{% endmacro %}{{ cm() }}", 2),
    "i18n_alias_ctx_call_block": ("{% macro cm() %}{{ caller() }}{% endmacro %}{% call cm() %}{{ _(@A@) }}{% endcall %}", 2),
})
# the callable bound to a name the engine treats specially: set / with / for target / macro parameter / context variable
SPECIAL_NAMES = ["caller", "varargs", "kwargs", "self", "super", "loop", "context", "environment", "undefined", "missing",
                 "resolve", "namespace", "range", "cycler"]
CTX_BIND = {}
for _n in SPECIAL_NAMES:
    # combinations the engine rejects at compile time or answers with its own object are left out:
    # `loop` cannot be assigned inside a for loop, a `caller` parameter needs a default (covered above),
    # `self` / `loop` / `caller` / `varargs` / `kwargs` are always the engine's own objects where they exist
    if _n != "loop":
        CALL_PATHS["set_named_" + _n] = ("{%% set %s = @U@ %%}{{ %s(@A@) }}" % (_n, _n), 1)
        CALL_PATHS["for_named_" + _n] = ("{%% for %s in [@U@] %%}{{ %s(@A@) }}{%% endfor %%}" % (_n, _n), 1)
    CALL_PATHS["with_named_" + _n] = ("{%% with %s = @U@ %%}{{ %s(@A@) }}{%% endwith %%}" % (_n, _n), 1)
    if _n != "caller":
        CALL_PATHS["macro_param_named_" + _n] = ("{%% macro cm(%s) %%}{{ %s(@A@) }}{%% endmacro %%}{{ cm(@U@) }}" % (_n, _n), 1)
    if _n not in ("self", "loop"):
        CALL_PATHS["ctx_named_" + _n] = ("{{ %s(@A@) }}" % _n, 1)
        CTX_BIND["ctx_named_" + _n] = _n
    if _n not in ("self", "loop", "caller", "varargs", "kwargs"):
        CALL_PATHS["ctx_named_in_macro_" + _n] = ("{%% macro cm() %%}{{ %s(@A@) }}{%% endmacro %%}{{ cm() }}" % _n, 1)
        CTX_BIND["ctx_named_in_macro_" + _n] = _n

for _p in ("i18n_alias_ctx", "i18n_alias_ctx_in_macro", "i18n_alias_ctx_call_block"):
    CTX_BIND[_p] = "gettext"

# templates served by the loader
LOADER_TEMPLATES = {
    "inc_call": "{{ @U@(@A@) }}",
    "lib": "{% macro callit(fq) %}{{ fq(@A@) }}{% endmacro %}",
    "base": "[{% block body %}{% endblock %}]",
    "base_call": "[{% block body %}{{ @U@(@A@) }}{% endblock %}]",
}
# wrappers deciding whether the call site is reached: key -> (template with @P@ = path text, reached)
REACH = {
    "plain": ("@P@", True),
    "if_true": ("{% if yes %}@P@{% endif %}", True),
    "if_false": ("{% if no %}@P@{% endif %}", False),
    "else_branch": ("{% if no %}x{% else %}@P@{% endif %}", True),
    "elif_skipped": ("{% if yes %}x{% elif yes %}@P@{% endif %}", False),
    "empty_loop": ("{% for e in [] %}@P@{% endfor %}", False),
    "loop_else": ("{% for e in [] %}x{% else %}@P@{% endfor %}", True),
    "loop_twice": ("{% for e in [1, 2] %}@P@{% endfor %}", True),
    "loop_filtered_out": ("{% for e in [1, 2] if e > 5 %}@P@{% endfor %}", False),
}
_TOPLEVEL_ONLY = {"in_child_block", "in_child_super"}
_HAS_BLOCK = {"in_block", "in_block_loop", "block_scoped", "self_block", "i18n_alias_block_set"}


def build_call_case(env, is_async, ckey, pkey, akey, rkey, prelude="none"):
    pyname, marking = CALLABLES[ckey]
    if marking == "builtin":
        env = "override"  # allowed (and really executed, with whatever arguments) under the default policy
    if marking == "late" and prelude not in _LATE_PRELUDES:
        prelude = _LATE_PRELUDES[(akey + len(pkey)) % 2]
    if marking != "late" and prelude in _LATE_PRELUDES:
        prelude = "none"
    pre_text, prior = PRELUDES[prelude]
    pre_text = pre_text.replace("@U@", ckey)
    prior = [t.replace("@U@", ckey) for t in prior]
    tmpl, levels = CALL_PATHS[pkey]
    args = ARGS[akey]

    def fill(t):
        return t.replace("@U@", ckey).replace("@A@", args).replace("@K@", _q(pyname))

    if pkey.startswith("call_block_target") and ckey.startswith("("):
        # `{% call (expr)(...) %}` would be parsed as a call-block signature: name the callable first
        tmpl = "{% set tq = @U@ %}" + tmpl.replace("@U@", "tq", 1).replace("{% set tq = tq %}", "{% set tq = @U@ %}")
    path = fill(tmpl)
    if pkey in _TOPLEVEL_ONLY or (pkey in _HAS_BLOCK and rkey != "plain"):
        # a block is rendered where it stands whatever encloses it at run time only for `if`;
        # keep block-defining paths unwrapped
        rkey = "plain"
    if pkey.startswith("i18n_alias") and pkey not in CTX_BIND:
        # a name set in the else branch of a for loop is local to that branch and not visible to context.resolve
        # (engine scoping, not the sandbox's concern): use another reached wrapper there
        rkey = rkey.replace("loop_else", "else_branch")
    # rkey may name two nested wrappers "outer+inner": reached iff both let control through
    wrap, reached = "@P@", True
    for rk in rkey.split("+"):
        w_, r_ = REACH[rk]
        wrap, reached = wrap.replace("@P@", w_), reached and r_
    body = wrap.replace("@P@", path)
    if pkey in _TOPLEVEL_ONLY:
        src = body.replace("{% block body %}", "{% block body %}{{ sfn('pre') }}" + pre_text).replace("{% endblock %}", "{{ sfn('post') }}{% endblock %}")
    else:
        src = "{{ sfn('pre') }}" + pre_text + body + "{{ sfn('post') }}"
    loader = {k: fill(v) for k, v in LOADER_TEMPLATES.items() if _q(k) in src}
    case = {
        "env": env, "async": is_async, "src": src, "loader": loader, "callable": pyname, "marking": marking,
        "reached": reached, "levels": levels + (0 if rkey == "plain" else 1), "path": pkey,
    }
    if pkey in CTX_BIND:
        case["ctxbind"] = {CTX_BIND[pkey]: pyname}  # context variable of that name holds the recorder
    if prior:
        case["prior"] = prior  # rendered first with the same environment object and the same data
    if prelude != "none":
        case["prelude"] = prelude
    return case


CALL_ENVS = [("default", False), ("default", True), ("override", False), ("override", True)]


def call_core_cases():
    """Every path x every callable x 4 environments, rotating through argument shapes and wrappers."""
    ck, pk, rk = sorted(CALLABLES), sorted(CALL_PATHS), sorted(REACH)
    k = 0
    for p in pk:
        for c in ck:
            for env, is_async in CALL_ENVS:
                k += 1
                yield build_call_case(env, is_async, c, p, k % len(ARGS), rk[(k // 3) % len(rk)] if k % 3 == 0 else "plain",
                                      _PLAIN_PRELUDES[(k // 4) % len(_PLAIN_PRELUDES)])


def call_full_cases():
    """Thorough tier: the complete product path x callable x argument shape x single wrapper x environment, plus
    every pair of nested wrappers with one (rotating) argument shape."""
    seen = set()
    rks = sorted(REACH)
    nested = [a + "+" + b for a in rks for b in rks if a != "plain" and b != "plain"]
    k = 0
    for p in sorted(CALL_PATHS):
        for c in sorted(CALLABLES):
            combos = [(a, r) for a in range(len(ARGS)) for r in rks]
            for r in nested:
                k += 1
                combos.append((k % len(ARGS), r))
            for a, r in combos:
                for env, is_async in CALL_ENVS:
                    k += 1
                    case = build_call_case(env, is_async, c, p, a, r, _PLAIN_PRELUDES[k % len(_PLAIN_PRELUDES)])
                    key = (case["src"], env, is_async)
                    if key in seen:  # wrappers collapse to "plain" for block-defining paths
                        continue
                    seen.add(key)
                    yield case


@st.composite
def call_case(draw):
    env, is_async = draw(st.sampled_from(CALL_ENVS))
    c = draw(st.sampled_from(sorted(CALLABLES)))
    p = draw(st.sampled_from(sorted(CALL_PATHS)))
    a = draw(st.integers(0, len(ARGS) - 1))
    r = draw(st.sampled_from(sorted(REACH)))
    return build_call_case(env, is_async, c, p, a, r, draw(st.sampled_from(_PLAIN_PRELUDES)))
