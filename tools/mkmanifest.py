#!/venv/bin/python
"""Regenerate /verif/MANIFEST.json from vt/registry.py and properties.jsonl; validates against the schema when jsonschema is importable."""
import json, os, sys
HERE = os.path.dirname(os.path.dirname(os.path.abspath(__file__)))
sys.path.insert(0, HERE)
from vt import registry

props = [json.loads(l) for l in open(os.path.join(HERE, "properties.jsonl"))]
checks, na = [], []
for p in props:
    pid = p["id"]
    c = registry.CHECKS.get(pid)
    if c is None:
        na.append({"property_id": pid, "reason": registry.NOT_APPLICABLE.get(pid, registry.NOT_YET) if hasattr(registry, "NOT_APPLICABLE") else registry.NOT_YET})
        continue
    checks.append({
        "property_id": pid,
        "quick_cmd": "./check %s quick" % pid,
        "thorough_cmd": "./check %s thorough" % pid,
        "evidence_file": "/verif/evidence/%s.json" % pid,
        "replay_cmd_template": "./check %s --replay {path}" % pid,
        "engine": "vt",
        "level_claimed": {"category": c["category"], "text": c["text"], "design_ref": c["design_ref"]},
        "level_note": c["note"],
        "technique": c["technique"],
    })
manifest = {
    "version": 1,
    "setup_cmd": "/venv/bin/python -c 'import hypothesis' 2>/dev/null || /venv/bin/pip install --no-index --find-links /opt/veriftools/wheels hypothesis; /venv/bin/python -c 'import hypothesis, jinja2; print(hypothesis.__version__, jinja2.__file__)'",
    "hooks": {
        "guard": "PALLETS_JINJA_VERIF",
        "enable": "no hooks are needed: all observation is done from the harness (subclassing, monkey-patching inside the harness process, sys.addaudithook / set_asyncgen_hooks / settrace); checks import /repo/src directly",
        "baseline_off_cmd": "cd /repo && /venv/bin/python -m pytest -ra -q -p no:cacheprovider --timeout=900 --continue-on-collection-errors",
        "source_commits": [],
        "add_only": True,
    },
    "engines": [{
        "name": "vt", "path": "/verif/vt",
        "serves_properties": [c["property_id"] for c in checks],
        "kind_free_text": "property-based testing / fuzzing harness (Hypothesis strategies and stateful machines, itertools enumerators sharded over 16 processes, reference models, differential and metamorphic oracles, replay files)",
    }],
    "checks": checks,
    "not_applicable": na,
    "notes": "Every check: ./check <ID> quick|thorough, honours VERIF_SEED, writes evidence/<ID>.json, replays replays/<ID>/*.json and known_findings.json first. Exit 2 = harness error / inconclusive, never a violation.",
}
out = os.path.join(HERE, "MANIFEST.json")
json.dump(manifest, open(out, "w"), indent=1)
open(out, "a").write("\n")
try:
    import jsonschema
    jsonschema.validate(manifest, json.load(open("/root/.vp/MANIFEST.schema.json")))
    print("MANIFEST.json valid: %d checks, %d not claimed" % (len(checks), len(na)))
except ImportError:
    print("MANIFEST.json written (jsonschema not importable here): %d checks, %d not claimed" % (len(checks), len(na)))
