"""C13 - equivalent syntax configurations render identically; configurations stay isolated.

An *options* dict is {"syn": name, "ls": prefix|None, "lc": prefix|None, "trim", "lstrip", "nls", "ktn"}.
A *template spec* is {"sk": abstract skeleton} or {"lsk": line skeleton}; ``realise(spec, opts)`` prints it
for the options (line skeletons in line-statement form when both prefixes and trim+lstrip are configured,
otherwise in block-tag form) and returns the source and the whitespace-model prediction.

Cases (DESIGN.md C13 oracles a-e)
  {"kind": "delims", "sk", "opts"}                   (a) the six delimiter sets render identically (= model)
  {"kind": "lines", "lsk", "opts"}                   (b) line-statement form == block-tag form under trim+lstrip (= model)
  {"kind": "template", "spec", "opts"}               (c) Template(src, **opts) == Environment(**opts).from_string(src) (= model)
  {"kind": "overlay", "spec", "base", "chain"}       (d) overlay chains == fresh Environment with merged options (= model);
                                                         the base and every intermediate overlay keep rendering their own way,
                                                         also through their own loader cache and their own bound extensions
  {"kind": "isolation", "start", "walk", "modes", "specs", "sched"}
                                                     (e) 64-120 environments, each differing from its predecessor in exactly
                                                         one option, created (fresh / overlay / Template()) and used in a
                                                         generated interleaving; every render is compared with the model
                                                         prediction for its own options
"""
from vt import core
from vt.gen import skel
from vt.ref import ws

PID = "C13"
LEVEL = "exploration"
RULE = (
    "Hypothesis-generated skeletons over a text alphabet free of every delimiter/prefix character of every configuration, printed under 6 "
    "delimiter sets (default, php-like, shared-prefix erb, brackets, three-character, operator-like) and 3 line-statement prefixes + ## line "
    "comments; five case kinds: (a) cross-delimiter equality, (b) line-statement form vs block form under trim+lstrip, (c) Template(...) vs "
    "Environment, (d) overlay chains (with loader cache and an environment-reading extension) vs fresh environments, (e) isolation runs over "
    "64-120 single-option-step environments (more than the 50-entry lexer cache, more than the 10-entry spontaneous-environment cache) in a "
    "generated interleaving followed by a sweep over all of them with a probe template sensitive to every option. Every render is also "
    "compared with the whitespace model. Non-trivial = the templates involved have >= 2 tags and at least two differently tokenising "
    "configurations are compared (a: always; b: a line statement or line comment is present; c/d: non-default options; e: > 50 distinct "
    "lexer configurations); distinct = distinct case JSON."
)
ASSUMPTIONS = [
    "a whole-line statement is never directly followed by a whitespace-only line (blank lines after a line statement are consumed by the "
    "line-statement form only; DESIGN.md C13) and carries no trailing whitespace; blank lines BEFORE statements/comments are generated",
    "a line comment is compared with the block comment spelled  {# c +#}  (whole line) or  text {#- c +#}  (trailing), per the documented "
    "'up to the end of the line, excluding the newline' rule",
    "overlay steps override whole option groups (all six delimiters at once, or one prefix, or one whitespace flag)",
    "look-alikes of foreign configurations are used as text only when none of the own start delimiters / prefixes occurs in them",
    "whitespace before a line-comment prefix belongs to the comment (the block-comment spelling compared with carries '-' / relies on "
    "lstrip_blocks); lstrip_blocks before a tag preceded on its line by whitespace other than spaces/tabs is not judged (case or render "
    "skipped, counted as discarded / e:ambiguous-renders-skipped)",
    "both sides of (a)-(d) run the implementation; common bugs are caught by the model comparison, whose assumptions are those of C12",
]

OPTION_VALUES = {
    "syn": skel.SYN_NAMES, "ls": skel.LS_PREFIXES, "lc": skel.LC_PREFIXES, "trim": [False, True], "lstrip": [False, True],
    "nls": list(ws.NL_SEQS), "ktn": [False, True],
}
OPTION_NAMES = list(OPTION_VALUES)
MARK = "\ue010"  # replaced by the probe extension with the options of the environment it is bound to


def kwargs(opts):
    kw = skel.env_kwargs(skel.syntax(opts["syn"], opts["ls"], opts["lc"]))
    kw.update(trim_blocks=opts["trim"], lstrip_blocks=opts["lstrip"], newline_sequence=opts["nls"], keep_trailing_newline=opts["ktn"])
    return kw


def partial_kwargs(step):
    """keyword arguments for overlay(): only the option groups named in ``step``"""
    kw = {}
    for k, v in step.items():
        if k == "syn":
            d = skel.SYNTAXES[v]
            kw.update(block_start_string=d["bs"], block_end_string=d["be"], variable_start_string=d["vs"], variable_end_string=d["ve"],
                      comment_start_string=d["cs"], comment_end_string=d["ce"])
        else:
            kw[{"ls": "line_statement_prefix", "lc": "line_comment_prefix", "trim": "trim_blocks", "lstrip": "lstrip_blocks",
                "nls": "newline_sequence", "ktn": "keep_trailing_newline"}[k]] = v
    return kw


def opts_str(opts):
    return "syntax=%(syn)s ls=%(ls)r lc=%(lc)r trim_blocks=%(trim)s lstrip_blocks=%(lstrip)s newline_sequence=%(nls)r keep_trailing_newline=%(ktn)s" % opts


class Ambiguous(core.Discard):
    pass


def uses_line_form(spec, opts):
    return "lsk" in spec and bool(opts["ls"] and opts["lc"] and opts["trim"] and opts["lstrip"])


def realise(spec, opts, force_form=None):
    """-> (source, expected output, concrete skeleton)"""
    syn = skel.syntax(opts["syn"], opts["ls"], opts["lc"])
    if "lsk" in spec:
        form = force_form or ("line" if uses_line_form(spec, opts) else "block")
        ask = skel.line_form(spec["lsk"]) if form == "line" else skel.block_form(spec["lsk"])
    else:
        ask = spec["sk"]
    csk = skel.instantiate(ask, syn)
    try:
        a = ws.analyse(csk, skel.printer(syn), opts["trim"], opts["lstrip"], opts["ktn"])
    except ws.Decline:
        raise core.Discard()
    if a.ambiguous:  # the documentation does not decide lstrip_blocks for this whitespace (vt.ref.ws)
        raise Ambiguous()
    return skel.source(csk, syn), a.rendered(opts["nls"]), csk


def ntags(csk):
    return sum(1 for s in csk if s[0] != "text")


def _cmp(got, exp, what, src, opts):
    if got != exp:
        raise core.Violation("%s\n source: %r\n options: %s\n expected: %r\n rendered: %r" % (what, src, opts_str(opts), exp, got))


# ---- (a) -----------------------------------------------------------------------------------

def _delims(case):
    from jinja2 import Environment

    base = case["opts"]
    outs = {}
    nt = 0
    for name in skel.SYN_NAMES:
        opts = dict(base, syn=name)
        src, exp, csk = realise({"sk": case["sk"]}, opts)
        got = Environment(**kwargs(opts)).from_string(src).render(skel.CONTEXT)
        _cmp(got, exp, "delimiter set %s: output differs from the model" % name, src, opts)
        outs[name] = (got, src)
        nt = ntags(csk)
    ref, ref_src = outs["default"]
    for name, (got, src) in outs.items():
        if got != ref:
            raise core.Violation("the same template renders differently under delimiter sets default and %s\n default source: %r -> %r\n %s source: %r -> %r\n options: %s"
                                 % (name, ref_src, ref, name, src, got, opts_str(base)))
    kinds = {s[0] for s in case["sk"]}
    return core.Outcome(nt >= 2, ["a:delims"] + ["a:kind:" + k for k in kinds] + (["a:prefixes"] if base["ls"] or base["lc"] else []))


# ---- (b) -----------------------------------------------------------------------------------

def _lines(case):
    from jinja2 import Environment

    opts = dict(case["opts"], trim=True, lstrip=True)
    if not (opts["ls"] and opts["lc"]):
        raise core.Discard()
    spec = {"lsk": case["lsk"]}
    lsrc, lexp, lcsk = realise(spec, opts, "line")
    bsrc, bexp, bcsk = realise(spec, opts, "block")
    plain = dict(opts, ls=None, lc=None)
    env_l = Environment(**kwargs(opts))
    env_b = Environment(**kwargs(plain))
    got_l = env_l.from_string(lsrc).render(skel.CONTEXT)
    got_b = env_b.from_string(bsrc).render(skel.CONTEXT)
    got_b2 = env_l.from_string(bsrc).render(skel.CONTEXT)
    if got_l != got_b or got_b2 != got_b:
        raise core.Violation("line-statement form and block-tag form render differently under trim_blocks + lstrip_blocks\n line form: %r -> %r\n block form: %r -> %r\n block form in the prefix environment -> %r\n options: %s"
                             % (lsrc, got_l, bsrc, got_b, got_b2, opts_str(opts)))
    _cmp(got_b, bexp, "block-tag form: output differs from the model", bsrc, plain)
    _cmp(got_l, lexp, "line-statement form: output differs from the model", lsrc, opts)
    kinds = {l[0] for l in case["lsk"]["lines"]}
    lines = case["lsk"]["lines"]
    blank_before = any(a[0] == "B" and b[0] in ("S", "C") for a, b in zip(lines, lines[1:]))
    tc = any(l[0] == "L" and l[3] is not None for l in case["lsk"]["lines"])
    labels = ["b:lines", "b:syn:" + opts["syn"], "b:ls:" + opts["ls"]] + ["b:line:" + k for k in kinds] + (["b:trailing-comment"] if tc else []) + (
        ["b:blank-before-statement"] if blank_before else [])
    return core.Outcome(ntags(lcsk) >= 2 and bool(kinds & {"S", "C"} or tc), labels)


# ---- (c) -----------------------------------------------------------------------------------

def _template(case):
    from jinja2 import Environment, Template

    opts = case["opts"]
    src, exp, csk = realise(case["spec"], opts)
    got_t = Template(src, **kwargs(opts)).render(skel.CONTEXT)
    got_e = Environment(**kwargs(opts)).from_string(src).render(skel.CONTEXT)
    if got_t != got_e:
        raise core.Violation("Template(source, **options) and Environment(**options).from_string(source) render differently\n source: %r\n options: %s\n Template: %r\n Environment: %r"
                             % (src, opts_str(opts), got_t, got_e))
    _cmp(got_t, exp, "Template(...): output differs from the model", src, opts)
    nd = sum(1 for k, v in opts.items() if v != OPTION_VALUES[k][0])
    labels = ["c:template", "c:nondefault-options:%d" % min(nd, 4)] + (["c:line-form"] if uses_line_form(case["spec"], opts) else [])
    return core.Outcome(ntags(csk) >= 2 and nd >= 1, labels)


# ---- (d) -----------------------------------------------------------------------------------

_probe_ext = []


def probe_extension():
    if not _probe_ext:
        from jinja2.ext import Extension

        class VtProbe(Extension):
            def preprocess(self, source, name, filename=None):
                e = self.environment
                return source.replace(MARK, "~%d%d%d~" % (e.trim_blocks, e.lstrip_blocks, e.keep_trailing_newline))

        _probe_ext.append(VtProbe)
    return _probe_ext[0]


def mark_text(opts):
    return "~%d%d%d~" % (opts["trim"], opts["lstrip"], opts["ktn"])


def _overlay(case):
    from jinja2 import DictLoader, Environment

    base, chain, spec = case["base"], case["chain"], case["spec"]
    marked = {"sk": [["text", "m" + MARK + " "]] + spec["sk"]} if "sk" in spec else spec
    base_src, base_exp, base_csk = realise(marked, base)
    env0 = Environment(loader=DictLoader({"t": base_src}), extensions=[probe_extension()], **kwargs(base))
    envs = [(env0, base)]

    def check_env(env, opts, when):
        src, exp, _ = realise(marked, opts)
        exp = exp.replace(MARK, mark_text(opts))
        _cmp(env.from_string(src).render(skel.CONTEXT), exp, "%s: from_string output differs from the model" % when, src, opts)
        if all(opts[k] == base[k] for k in ("syn", "ls", "lc")) and (not uses_line_form(marked, base) or (opts["trim"] and opts["lstrip"])):
            # the loader's source is spelled for the base syntax; it means the same under these options
            a_t = ws.analyse(base_csk, skel.printer(skel.syntax(base["syn"], base["ls"], base["lc"])), opts["trim"], opts["lstrip"], opts["ktn"])
            if a_t.ambiguous:
                raise Ambiguous()
            exp_t = a_t.rendered(opts["nls"])
            exp_t = exp_t.replace(MARK, mark_text(opts))
            _cmp(env.get_template("t").render(skel.CONTEXT), exp_t, "%s: get_template output differs from the model (template cache / extension binding)" % when,
                 base_src, opts)
            return True
        return False

    check_env(env0, base, "base environment before any overlay")
    cur = dict(base)
    loader_checks = 0
    for i, step in enumerate(chain):
        cur = dict(cur, **step)
        env = envs[-1][0].overlay(**partial_kwargs(step))
        envs.append((env, dict(cur)))
        loader_checks += check_env(env, cur, "overlay #%d %r" % (i + 1, step))
    merged = envs[-1][1]
    src, exp, csk = realise(marked, merged)
    exp = exp.replace(MARK, mark_text(merged))
    got_o = envs[-1][0].from_string(src).render(skel.CONTEXT)
    got_f = Environment(extensions=[probe_extension()], **kwargs(merged)).from_string(src).render(skel.CONTEXT)
    if got_o != got_f:
        raise core.Violation("overlay chain %r on %s renders differently from a fresh Environment with the merged options\n source: %r\n overlay: %r\n fresh: %r"
                             % (chain, opts_str(base), src, got_o, got_f))
    # environments configured earlier keep rendering their own way (most recent first, then oldest first)
    for env, opts in envs[::-1] + envs:
        check_env(env, opts, "environment %s re-checked after the whole chain was created" % opts_str(opts))
    labels = ["d:overlay", "d:chain:%d" % len(chain)] + ["d:step:" + k for s in chain for k in s] + (["d:loader-checked"] if loader_checks else [])
    return core.Outcome(ntags(csk) >= 2 and any(o != base for _, o in envs[1:]), labels)


# ---- (e) -----------------------------------------------------------------------------------

PROBE = {"sk": [
    ["text", "a\n  "], ["block", "", "", " set z = 1 "], ["text", "\n b "], ["comment", "", "", " c "], ["text", "\n"], ["var", "", "", " v ", "V"],
    ["foreign", 18], ["foreign", 19], ["foreign", 20], ["foreign", 21], ["foreign", 0], ["foreign", 3], ["foreign", 6], ["foreign", 9],
    ["foreign", 12], ["foreign", 15], ["foreign", 23], ["midls"], ["text", "\n\t"], ["raw", "", "", " r\n", "", "", [" ", " ", " ", " "]], ["text", "\n"],
]}
PROBE_LINES = {"lsk": {"lines": [["L", " ", [["midls"], ["text", "a"]], [" ", " c "]], ["S", "  ", " if true"], ["L", "", [["var", "", "", " v ", "V"]], None],
                                  ["C", " ", " note"], ["S", "", " endif"], ["L", "", [["text", "b."]], None]], "final_nl": True}}


def walk_configs(start, walk):
    cfgs = [dict(start)]
    for name, j in walk:
        cur = dict(cfgs[-1])
        vals = OPTION_VALUES[name]
        v = vals[j % len(vals)]
        if v == cur[name]:
            v = vals[(j + 1) % len(vals)]
        cur[name] = v
        cfgs.append(cur)
    return cfgs


def _isolation(case):
    from jinja2 import Environment, Template

    cfgs = walk_configs(case["start"], case["walk"])
    modes = case["modes"]
    specs = [PROBE, PROBE_LINES] + case["specs"]
    envs = {}
    skipped = []

    def mode_of(i):
        return modes[i % len(modes)] if modes else 0

    def make(i):
        opts = cfgs[i]
        mode = mode_of(i)
        if mode == 2:
            return "template"
        if mode == 1 and i > 0 and isinstance(envs.get(i - 1), Environment):
            diff = {k: v for k, v in opts.items() if v != cfgs[i - 1][k]}
            return envs[i - 1].overlay(**partial_kwargs(diff))
        return Environment(**kwargs(opts))

    def use(i, k, when):
        if i not in envs:
            envs[i] = make(i)
        opts = cfgs[i]
        try:
            src, exp, _ = realise(specs[k % len(specs)], opts)
        except Ambiguous:
            skipped.append(i)
            return
        env = envs[i]
        got = Template(src, **kwargs(opts)).render(skel.CONTEXT) if env == "template" else env.from_string(src).render(skel.CONTEXT)
        if got != exp:
            how = {0: "Environment(...)", 1: "overlay of its predecessor", 2: "Template(...)"}[mode_of(i)]
            raise core.Violation("environment #%d (%s, created as %s) does not render by its own options %s\n source: %r\n expected: %r\n rendered: %r\n (%d environments alive)"
                                 % (i, opts_str(opts), how, when, src, exp, got, len(envs)))

    for i, k in case["sched"]:
        use(i % len(cfgs), k, "during the interleaving")
    for i in range(len(cfgs)):  # sweep: every environment, in creation order, with the all-option probes
        use(i, 0, "in the final sweep")
        use(i, 1, "in the final sweep")
    for i in range(len(cfgs) - 1, -1, -1):
        use(i, 0, "in the reverse sweep")
    lexkeys = {tuple(sorted(c.items(), key=lambda kv: kv[0])) for c in cfgs}
    labels = ["e:isolation", "e:distinct>50" if len(lexkeys) > 50 else "e:distinct<=50"]
    labels += ["e:ambiguous-renders-skipped"] if skipped else []
    labels += ["e:mode:%d" % m for m in set(modes)] + ["e:changed:" + n for n in {w[0] for w in case["walk"]}]
    return core.Outcome(len(lexkeys) > 50, labels)


def check_case(case):
    kind = case["kind"]
    if kind == "delims":
        return _delims(case)
    if kind == "lines":
        return _lines(case)
    if kind == "template":
        return _template(case)
    if kind == "overlay":
        return _overlay(case)
    if kind == "isolation":
        return _isolation(case)
    raise core.HarnessError("unknown case kind %r" % kind)


# ---- strategies ------------------------------------------------------------------------------

def strategies(tier):
    from hypothesis import strategies as st

    opts = st.fixed_dictionaries({k: st.sampled_from(v) for k, v in OPTION_VALUES.items()})
    lopts = st.fixed_dictionaries(dict({k: st.sampled_from(v) for k, v in OPTION_VALUES.items()},
                                       ls=st.sampled_from(skel.LS_PREFIXES[1:]), lc=st.just("##")))
    sk_a = skel.skeletons(skel.ALPHA_X, max_segs=7, multiline=True, raw_lookalikes=False)
    sk_f = skel.skeletons(skel.ALPHA_X, kinds=("text", "text", "var", "block", "comment", "raw", "pair", "ownline", "ownline", "foreign"),
                          max_segs=7, multiline=True, foreign=True)
    lsk_f = skel.line_skeletons(foreign=True, blank="before")
    spec = st.one_of(sk_f.map(lambda s: {"sk": s}), sk_f.map(lambda s: {"sk": s}), lsk_f.map(lambda l: {"lsk": l}))
    a = st.builds(lambda s, o: {"kind": "delims", "sk": s, "opts": o}, sk_a, opts)
    b = st.builds(lambda l, o: {"kind": "lines", "lsk": l, "opts": o}, lsk_f, lopts)
    ltopts = lopts.map(lambda o: dict(o, trim=True, lstrip=True))
    c = st.builds(lambda s, o: {"kind": "template", "spec": s, "opts": o}, spec, st.one_of(opts, lopts, ltopts))
    step = st.dictionaries(st.sampled_from(OPTION_NAMES), st.integers(0, 5), min_size=1, max_size=2).map(
        lambda d: {k: OPTION_VALUES[k][j % len(OPTION_VALUES[k])] for k, j in d.items()})
    d = st.builds(lambda s, o, ch: {"kind": "overlay", "spec": s, "base": o, "chain": ch}, spec, st.one_of(opts, lopts, ltopts),
                  st.lists(step, min_size=1, max_size=3))
    walk = st.lists(st.tuples(st.sampled_from(OPTION_NAMES), st.integers(0, 5)).map(list), min_size=64, max_size=120)
    e = st.builds(
        lambda start, w, modes, specs, sched: {"kind": "isolation", "start": start, "walk": w, "modes": modes, "specs": specs, "sched": sched},
        opts, walk, st.lists(st.sampled_from([0, 0, 1, 2]), min_size=1, max_size=7), st.lists(spec, min_size=1, max_size=3),
        st.lists(st.tuples(st.integers(0, 120), st.integers(0, 4)).map(list), min_size=60, max_size=200))
    return {"a": a, "b": b, "c": c, "d": d, "e": e}


def shards(tier):
    return [{"i": i} for i in range(16)]


def run_shard(spec, ctx):
    s = strategies(ctx.tier)
    rec = core.Rec()
    sizes = {"a": ctx.pick(350, 5000), "b": ctx.pick(1200, 17000), "c": ctx.pick(800, 11500), "d": ctx.pick(400, 5700), "e": ctx.pick(22, 310)}
    for k in "abcde":
        skel.hyp_chunks(s[k], check_case, ctx, sizes[k], rec, k, chunk=3000)
        if rec.violations:
            break
    return rec


def floors(total, tier):
    need = ["a:delims", "b:blank-before-statement", "b:line:S", "b:line:C", "b:trailing-comment", "c:line-form", "d:loader-checked", "d:step:syn", "d:step:ktn",
            "e:distinct>50", "e:mode:1", "e:mode:2", "e:changed:ls", "e:changed:ktn"]
    low = [k for k in need if total.labels.get(k, 0) < 20]
    return ("labels below floor of 20: %s" % low) if low else None
