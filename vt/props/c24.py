"""C24 - HTML-producing filters cannot be used to inject markup.

Case kinds (plain JSON, values in the tagged encoding of vt.ref.filterspec.dec):
  {"kind": "tojson",  "value": v, "args": [...], "kwargs": {...}}
  {"kind": "xmlattr", "items": [[key, value], ...], "args": [...], "kwargs": {...}}
  {"kind": "urlize",  "text": s, "args": [...], "kwargs": {...}}
  {"kind": "escape",  "filter": "escape"|"e"|"forceescape", "value": v}
  {"kind": "safearg", "filter": indent|replace|join|format|truncate|wordwrap, "value": v, "args": [...], "kwargs": {...}}

Every case runs through Environment.call_filter and through a rendered template, in sync and async
(asyncio-driven) environments, with autoescape on (and, for the first three kinds, also off).  The
oracles are harness-side tokenizers / round trips from vt.ref.filterspec; none calls jinja2.filters.
"""
import asyncio
import inspect
import json

from hypothesis import strategies as st

from vt import core
from vt.ref import filterspec as fs

PID = "C24"
LEVEL = "exploration"
RULE = (
    "Hypothesis-generated adversarial inputs: strings built from HTML metacharacters, quotes, entity look-alikes, script/comment "
    "closers, Unicode whitespace and line separators, URL-like and e-mail-like fragments; nested JSON-like values (str keys, lists, "
    "numbers, bools, None, Markup leaves); attribute dicts with benign, forbidden and odd keys; urlize arguments (trim limit, nofollow, "
    "target, rel, valid extra schemes) and, for indent/replace/join/format/truncate/wordwrap, a safe (Markup) or plain value combined "
    "with plain or safe arguments carrying tracer tokens (<A1>, \"A2\", 'A3', &A4;). Each case runs via call_filter and a rendered "
    "template in sync and async environments, autoescape on (and off for tojson/xmlattr/urlize). Non-trivial = the value or an "
    "argument contains a character among < > & \" ' (or, for xmlattr, a key character among whitespace / > =) that would change "
    "the parse if emitted raw; distinct = distinct serialised case."
)
ASSUMPTIONS = [
    "tojson: values are JSON-representable with str keys and finite floats; equality after json.loads ignores dict order",
    "xmlattr: str keys, non-empty; values are plain strings, numbers, bools and non-string objects (lists, tuples, sets, dicts, bytes, objects with a custom __str__) whose str() must come out escaped; a Markup / __html__ value is trusted by design and not generated; a key containing tab, LF, FF, CR, space, '/', '>' or '=' must raise ValueError; a key containing VT may or may not; an item whose value is None/undefined is skipped before its key is looked at",
    "urlize: input is a plain str; extra_schemes are valid scheme prefixes; mailto links may omit rel/target; with trim_url_limit the shortened label may end in a cut-off entity (no < > \" ' though)",
    "urlize positive check: a word that is exactly one of 8 canonical URLs / addresses must be linked",
    "safe-argument filters: exact expected output only for (all plain) and (Markup value + plain arguments); with Markup arguments only the tracer rule is judged (over-escaping a safe argument is not a leak)",
    "replace: the searched string never overlaps the inside of an escape entity (so escaping and replacing commute)",
    "escape of a str is MarkupSafe's documented mapping & < > \" ' -> &amp; &lt; &gt; &#34; &#39;",
]

_state = {}


def _setup():
    if not _state:
        import jinja2

        _state["jinja2"] = jinja2
        _state["env"] = {}
        _state["tpl"] = {}
        _state["Markup"] = fs.Markup
    return _state


def _env(mode, autoescape):
    st_ = _setup()
    key = (mode, autoescape)
    e = st_["env"].get(key)
    if e is None:
        e = st_["env"][key] = st_["jinja2"].Environment(enable_async=(mode == "async"), autoescape=autoescape)
    return e


def _template(mode, autoescape, src):
    st_ = _setup()
    key = (mode, autoescape, src)
    t = st_["tpl"].get(key)
    if t is None:
        t = st_["tpl"][key] = _env(mode, autoescape).from_string(src)
    return t


def _source(name, nargs, kwnames):
    parts = ["a%d" % i for i in range(nargs)] + ["%s=k_%s" % (k, k) for k in kwnames]
    call = "v|%s(%s)" % (name, ", ".join(parts)) if parts else "v|%s" % name
    return "{%% set r = %s %%}{{ sink(r) }}|{{ r }}" % call


class Raised:
    def __init__(self, exc):
        self.exc = exc


def _invoke_all(name, value, args, kwargs, autoescapes, allowed_exc, judge):
    """Run value|name(*args, **kwargs) through the 4 routes per autoescape setting; judge(where, result_obj,
    final_text, autoescape).  result_obj is a Raised for an allowed exception."""
    src = _source(name, len(args), sorted(kwargs))
    tctx = {"a%d" % i: a for i, a in enumerate(args)}
    tctx.update({"k_" + k: v for k, v in kwargs.items()})

    def final(r, ae):
        return fs.esc_auto(r) if ae else str(r)

    for ae in autoescapes:
        env = _env("sync", ae)
        try:
            r = env.call_filter(name, value, list(args), dict(kwargs))
        except allowed_exc as e:
            r = Raised(e)
        judge("sync call_filter autoescape=%s" % ae, r, None if isinstance(r, Raised) else final(r, ae), ae)
        box = []
        try:
            text = _template("sync", ae, src).render(dict(tctx, v=value, sink=box.append))
            r = box[0]
        except allowed_exc as e:
            r, text = Raised(e), None
        judge("sync template autoescape=%s %s" % (ae, src), r, None if text is None else text.split("|", 1)[1], ae)

    async def main():
        for ae in autoescapes:
            env = _env("async", ae)
            try:
                r = env.call_filter(name, value, list(args), dict(kwargs))
                if inspect.isawaitable(r):
                    r = await r
            except allowed_exc as e:
                r = Raised(e)
            judge("async call_filter autoescape=%s" % ae, r, None if isinstance(r, Raised) else final(r, ae), ae)
            box = []
            try:
                text = await _template("async", ae, src).render_async(dict(tctx, v=value, sink=box.append))
                r = box[0]
            except allowed_exc as e:
                r, text = Raised(e), None
            judge("async template autoescape=%s %s" % (ae, src), r, None if text is None else text.split("|", 1)[1], ae)

    loop = asyncio.new_event_loop()
    try:
        loop.run_until_complete(main())
    finally:
        loop.close()


def _has_meta(x):
    if isinstance(x, str):
        return any(ch in fs.META for ch in x)
    if isinstance(x, (list, tuple)):
        return any(_has_meta(y) for y in x)
    if isinstance(x, dict):
        return any(_has_meta(k) or _has_meta(v) for k, v in x.items())
    return False


def json_same(a, b):
    if isinstance(a, bool) or isinstance(b, bool) or a is None or b is None:
        return type(a) is type(b) and a == b
    if isinstance(a, str) or isinstance(b, str):
        return isinstance(a, str) and isinstance(b, str) and str(a) == str(b)
    if isinstance(a, (int, float)) or isinstance(b, (int, float)):
        return type(a) is type(b) and repr(a) == repr(b)
    if isinstance(a, list) and isinstance(b, list):
        return len(a) == len(b) and all(json_same(x, y) for x, y in zip(a, b))
    if isinstance(a, dict) and isinstance(b, dict):
        return set(a) == set(b) and all(json_same(a[k], b[k]) for k in a)
    return False


# ---------------------------------------------------------------------------------------------
# oracles per kind


def _check_tojson(case):
    Markup = _setup()["Markup"]
    value = fs.dec(case["value"])
    args, kwargs = fs.dec(case["args"]), fs.dec(case["kwargs"])

    def judge(where, r, text, ae):
        if not isinstance(r, Markup):
            raise core.Violation("%s: tojson must return a safe (Markup) string, got %r" % (where, r))
        for out in (str(r), text):
            bad = [ch for ch in "<>&'" if ch in out]
            if bad:
                raise core.Violation("%s: tojson(%r) output contains %r: %r" % (where, value, bad, out))
            try:
                back = json.loads(out)
            except ValueError as e:
                raise core.Violation("%s: tojson(%r) output is not JSON (%s): %r" % (where, value, e, out)) from None
            if not json_same(back, value):
                raise core.Violation("%s: tojson(%r) parses back to %r (output %r)" % (where, value, back, out))

    _invoke_all("tojson", value, args, kwargs, (True, False), (), judge)
    return core.Outcome(_has_meta(value), ["tojson", "indent" if (args or kwargs) else "noindent"])


def _check_xmlattr(case):
    Markup = _setup()["Markup"]
    Undefined = _setup()["jinja2"].Undefined
    d = {k: fs.dec(v) for k, v in case["items"]}
    args, kwargs = fs.dec(case["args"]), fs.dec(case["kwargs"])
    autospace = fs.bind("xmlattr", args, kwargs)["autospace"]
    live = [(k, v) for k, v in d.items() if v is not None and not isinstance(v, Undefined)]
    must = any(ch in fs.XMLATTR_MUST_REJECT for k, _ in live for ch in k)
    may = any(ch in fs.XMLATTR_MAY_REJECT for k, _ in live for ch in k)
    labels = ["xmlattr", "must_reject" if must else ("may_reject" if may else "accept")]
    if any(not isinstance(v, (str, int, float, bool)) for _, v in live):
        labels.append("nonstring_value")

    def judge(where, r, text, ae):
        if isinstance(r, Raised):
            if not (must or may):
                raise core.Violation("%s: xmlattr(%r) raised %r although no key has a forbidden character" % (where, d, r.exc))
            return
        if must:
            raise core.Violation("%s: xmlattr(%r) accepted a key containing whitespace, '/', '>' or '=': %r" % (where, d, r))
        if ae and not isinstance(r, Markup):
            raise core.Violation("%s: xmlattr result is not marked safe under autoescape: %r" % (where, r))
        for out in (str(r), text):
            if not live:
                if out != "":
                    raise core.Violation("%s: xmlattr(%r) without live items must be empty, got %r" % (where, d, out))
                continue
            if autospace:
                body = out
                if not out.startswith(" "):
                    raise core.Violation("%s: xmlattr(%r) must start with a space (autospace), got %r" % (where, d, out))
            else:
                body = " " + out
                if out.startswith(" "):
                    raise core.Violation("%s: xmlattr(%r, autospace=false) starts with a space: %r" % (where, d, out))
            toks = fs.parse_attrs(body)
            if toks is None:
                raise core.Violation("%s: xmlattr(%r) output is not a well-formed attribute list: %r" % (where, d, out))
            got = [(fs.unesc(n), fs.unesc(v)) for n, v in toks]
            want = [(k, str(v)) for k, v in live]
            if got != want:
                raise core.Violation("%s: xmlattr(%r) parses to %r, expected %r (output %r)" % (where, d, got, want, out))

    _invoke_all("xmlattr", d, args, kwargs, (True, False), (ValueError,), judge)
    nt = _has_meta([k for k, _ in live]) or _has_meta([str(v) for _, v in live]) or must
    return core.Outcome(nt, labels)


CANONICAL = {
    "http://example.com": "http://example.com", "https://example.com/a/b?c=d": "https://example.com/a/b?c=d",
    "www.example.org": "https://www.example.org", "example.com": "https://example.com", "http://1.2.3.4:8080/x": "http://1.2.3.4:8080/x",
    "mailto:user@example.com": "mailto:user@example.com", "user@example.com": "mailto:user@example.com",
    "https://sub.domain.example.net/path#frag": "https://sub.domain.example.net/path#frag",
}


def _check_urlize(case):
    Markup = _setup()["Markup"]
    text = case["text"]
    args, kwargs = fs.dec(case["args"]), fs.dec(case["kwargs"])
    p = fs.bind("urlize", args, kwargs)
    rel_parts = set((p["rel"] or "").split()) | {"noopener"} | ({"nofollow"} if p["nofollow"] else set())
    want_rel = " ".join(sorted(rel_parts))
    words = text.split()
    trimmed = p["trim_url_limit"] is not None
    stats = {"anchors": 0}

    def judge(where, r, out_text, ae):
        if ae and not isinstance(r, Markup):
            raise core.Violation("%s: urlize result is not marked safe under autoescape: %r" % (where, r))
        for out in (str(r), out_text):
            toks = fs.parse_urlize(out, trimmed=trimmed)
            if toks is None:
                raise core.Violation("%s: urlize(%r, %r) output has a malformed anchor or raw markup characters outside tags: %r" % (where, text, p, out))
            hrefs = []
            for tok in toks:
                if tok[0] != "a":
                    continue
                _, href, attrs, label = tok
                stats["anchors"] += 1
                if any(ch.isspace() for ch in href):
                    raise core.Violation("%s: urlize(%r) href contains whitespace: %r" % (where, text, href))
                plain = fs.unesc(href)
                hrefs.append(plain)
                ok = False
                for pre in ("", "https://", "mailto:"):
                    if plain.startswith(pre) and plain[len(pre):] and any(plain[len(pre):] in w for w in words):
                        ok = True
                if not ok:
                    raise core.Violation("%s: urlize(%r) href %r is not a (prefix-completed) part of an input word" % (where, text, plain))
                mail = plain.startswith("mailto:")
                if "rel" in attrs:
                    if fs.unesc(attrs["rel"]) != want_rel:
                        raise core.Violation("%s: urlize(%r, %r) rel is %r, expected %r" % (where, text, p, fs.unesc(attrs["rel"]), want_rel))
                elif not mail:
                    raise core.Violation("%s: urlize(%r, %r) link without rel: %r" % (where, text, p, out))
                if "target" in attrs:
                    if not p["target"] or fs.unesc(attrs["target"]) != p["target"]:
                        raise core.Violation("%s: urlize(%r, %r) target is %r" % (where, text, p, attrs["target"]))
                elif p["target"] and not mail:
                    raise core.Violation("%s: urlize(%r, %r) link without the requested target: %r" % (where, text, p, out))
                if trimmed:
                    full = fs.esc(plain[7:] if mail else plain)
                    lim = p["trim_url_limit"]
                    cands = set()
                    for base in (href, href[8:] if href.startswith("https://") else href, href[7:] if mail else href):
                        cands.add(base)  # e-mail and extra-scheme links are displayed in full
                        cands.add(base if len(base) <= lim else base[:lim] + "...")
                    if label not in cands:
                        raise core.Violation("%s: urlize(%r, %r) label %r is not the (trimmed) link text of %r" % (where, text, p, label, full))
            if not trimmed:
                flat, pos_ok = "", 0
                for t in toks:
                    piece = fs.unesc(t[1]) if t[0] == "text" else fs.unesc(t[3])
                    # a mailto: link displays the address without the scheme
                    if t[0] == "a" and t[1].startswith("mailto:") and text.startswith("mailto:" + piece, len(flat)):
                        piece = "mailto:" + piece
                    flat += piece
                if flat != text:
                    raise core.Violation("%s: urlize(%r) changes the visible text to %r (output %r)" % (where, text, flat, out))
            for w in words:
                if w in CANONICAL and CANONICAL[w] not in hrefs:
                    raise core.Violation("%s: urlize(%r) did not link %r (output %r)" % (where, text, w, out))

    _invoke_all("urlize", text, args, kwargs, (True, False), (), judge)
    labels = ["urlize", "anchors" if stats["anchors"] else "no_anchor"]
    if trimmed:
        labels.append("trim")
    if p["extra_schemes"]:
        labels.append("extra_schemes")
    nt = _has_meta(text) or _has_meta(p["rel"] or "") or _has_meta(p["target"] or "")
    return core.Outcome(nt, labels)


def _check_escape(case):
    Markup = _setup()["Markup"]
    name = case["filter"]
    value = fs.dec(case["value"])
    if name == "forceescape":
        want = fs.esc(str(value.__html__()) if hasattr(value, "__html__") else str(value))
    else:
        want = fs.esc_auto(value)

    def judge(where, r, text, ae):
        if not isinstance(r, Markup):
            raise core.Violation("%s: %r|%s must return a safe (Markup) string, got %r" % (where, value, name, r))
        for out in (str(r), text):
            if out != want:
                raise core.Violation("%s: %r|%s gave %r, expected %r" % (where, value, name, out, want))

    _invoke_all(name, value, [], {}, (True, False), (), judge)
    return core.Outcome(_has_meta(str(value.__html__()) if hasattr(value, "__html__") else str(value)), [name, "markup_input" if hasattr(value, "__html__") else "plain_input"])


TRACERS = ["<A1>", "\"A2\"", "'A3'", "&A4;", "<script>A5</script>", "A6>", "<A7"]


def _plain_strings(x, out):
    """All plain (untrusted) strings reachable in an argument structure."""
    if isinstance(x, str):
        if not hasattr(x, "__html__"):
            out.append(x)
    elif isinstance(x, (list, tuple)):
        for y in x:
            _plain_strings(y, out)
    elif isinstance(x, dict):
        for y in x.values():
            _plain_strings(y, out)
    return out


def _markup_strings(x, out):
    if isinstance(x, str):
        if hasattr(x, "__html__"):
            out.append(str(x))
    elif isinstance(x, (list, tuple)):
        for y in x:
            _markup_strings(y, out)
    elif isinstance(x, dict):
        for y in x.values():
            _markup_strings(y, out)
    return out


def _is_markup(x):
    return hasattr(x, "__html__")


def _check_safearg(case):
    name = case["filter"]
    value = fs.dec(case["value"])
    args, kwargs = fs.dec(case["args"]), fs.dec(case["kwargs"])
    E = fs.esc_auto
    untrusted = _plain_strings([value, args, kwargs], [])
    trusted = _markup_strings([value, args, kwargs], [])
    tokens = sorted({t for s in untrusted for t in TRACERS if t in s and not any(t in m for m in trusted)})
    all_args = list(args) + list(kwargs.values())
    if name == "join":
        pieces = list(value) + all_args
        args_plain = not any(_is_markup(a) for a in all_args)
        value_safe = any(_is_markup(x) for x in value)
        all_plain = not any(_is_markup(x) for x in pieces)
    else:
        args_plain = not any(_is_markup(a) for a in _flat(all_args))
        value_safe = _is_markup(value)
        all_plain = args_plain and not value_safe
    # exact expectation where the documentation / autoescape contract fixes the outcome
    expect = None
    if all_plain or (value_safe and args_plain):
        if name == "indent":
            expect = fs.spec_indent(E(value), fs.bind("indent", args, kwargs), esc=fs.esc)
        elif name == "replace" and value_safe and _has_meta(str(fs.bind("replace", args, kwargs)["old"])):
            expect = None  # what a plain search string with markup characters matches inside markup is not defined
        elif name == "replace":
            p = fs.bind("replace", args, kwargs)
            expect = fs.spec_replace(E(value), {"old": E(p["old"]), "new": E(p["new"]), "count": p["count"]})
        elif name == "join":
            p = fs.bind("join", args, kwargs)
            expect = fs.Exact(E(p["d"]).join(E(x) for x in value))
        elif name == "format" and all_plain:
            expect = fs.Exact(fs.esc(value % (kwargs or tuple(args))))
        elif name == "format":
            # Markup % args: each argument is escaped, then formatted
            if kwargs:
                expect = fs.Exact(E(value) % {k: _fmt_arg(v) for k, v in kwargs.items()})
            else:
                expect = fs.Exact(E(value) % tuple(_fmt_arg(a) for a in args))
    p_trunc = fs.bind("truncate", args, kwargs) if name == "truncate" else None

    def judge(where, r, text, ae):
        for tok in tokens:
            if tok in text:
                raise core.Violation("%s: %r|%s(*%r, **%r): the plain argument text %r reaches the output unescaped: %r" % (where, value, name, args, kwargs, tok, text))
        if expect is not None:
            msg = expect.check(text)
            if msg:
                raise core.Violation("%s: %r|%s(*%r, **%r): final output: %s" % (where, value, name, args, kwargs, msg))
        if p_trunc is not None and len(value) > p_trunc["length"] + (5 if p_trunc["leeway"] is None else p_trunc["leeway"]):
            if not text.endswith(E(p_trunc["end"])):
                raise core.Violation("%s: %r|truncate(*%r, **%r): output %r does not end with the escaped ellipsis %r" % (where, value, args, kwargs, text, E(p_trunc["end"])))

    _invoke_all(name, value, args, kwargs, (True,), (), judge)
    labels = ["safearg_" + name, "value_safe" if value_safe else "value_plain", "args_plain" if args_plain else "args_safe"]
    if tokens:
        labels.append("tracer")
    if expect is not None:
        labels.append("exact")
    return core.Outcome(bool(tokens) or _has_meta(untrusted), labels)


def _flat(xs):
    out = []
    for x in xs:
        if isinstance(x, (list, tuple)):
            out.extend(_flat(x))
        else:
            out.append(x)
    return out


def _fmt_arg(a):
    return fs.esc_auto(a) if isinstance(a, str) else a


_CHECK = {"tojson": _check_tojson, "xmlattr": _check_xmlattr, "urlize": _check_urlize, "escape": _check_escape, "safearg": _check_safearg}


def check_case(case):
    return _CHECK[case["kind"]](case)


# ---------------------------------------------------------------------------------------------
# generators

NASTY = ["<", ">", "&", "\"", "'", "</script>", "<script>", "<!--", "-->", "]]>", "&lt;", "&amp;", "&#34;", "&quot;", "&#x27;", "&",
         "\\", "/", "\u2028", "\u2029", "\n", "\t", " ", "\x00", "\x7f", "é", "漢", "😀", "a", "Z", "0", "x=y", "onload=", "javascript:", "%3C",
         "\\u003c", "{{", "}}", "`", "=", "\xa0", "\r", "\x0c", "\x0b"]


def _nasty(max_size=6):
    return st.lists(st.sampled_from(NASTY), max_size=max_size).map("".join)


def _json_values():
    leaf = st.one_of(_nasty(), _nasty(3).map(lambda s: {"$": "m", "v": s}), st.integers(-10 ** 6, 10 ** 20), st.booleans(), st.none(),
                     st.floats(allow_nan=False, allow_infinity=False, width=64), st.sampled_from(["<", ">", "&", "'", "</script>"]))
    return st.recursive(leaf, lambda inner: st.one_of(st.lists(inner, max_size=4), st.dictionaries(_nasty(3), inner, max_size=4)), max_leaves=10)


def _encode_plain_dicts(v):
    """Plain JSON objects whose keys happen to be '$' would collide with the tag encoding; keys never are."""
    return v


@st.composite
def _g_tojson(draw):
    value = draw(_json_values())
    args, kwargs = [], {}
    ind = draw(st.sampled_from([None, None, 0, 1, 2, 4]))
    if ind is not None or draw(st.integers(0, 5)) == 0:
        if draw(st.booleans()):
            args = [ind]
        else:
            kwargs = {"indent": ind}
    return {"kind": "tojson", "value": value, "args": args, "kwargs": kwargs}


GOOD_KEYS = ["class", "id", "data-x", "x:y", "a.b", "aria-label", "Ünï", "v-on:click", "@click", "a\"b", "a'b", "a<b", "a&b", "&amp;", "a\xa0b", "a\u2028b",
             "a\u3000b", "on\x00load", "a\\b", "a`b", "{{x}}"]
BAD_KEYS = ["a b", " a", "a ", "a/b", "/", "a>b", ">", "a=b", "=", "a\tb", "a\nb", "a\rb", "a\x0cb", "x onload=alert(1)", "x><script>", "a=\"b\"", "\n"]
MAYBE_KEYS = ["a\x0bb"]
ATTR_VALUES = ["", "v", "a b", "\"", "'", "<", ">", "&", "\"><script>x</script>", "' onmouseover='x", "&amp;", "&#34;", "a\nb", "é", "\\", "x\" y=\"z", "`", "{{7*7}}"]


def _nonstring_value():
    """Values that are not strings but whose str() carries markup characters: "escapes every value" does not
    depend on the value's type."""
    adv = st.one_of(st.sampled_from(ATTR_VALUES), _nasty(3))
    return st.one_of(
        st.lists(adv, max_size=3),
        st.lists(adv, max_size=2).map(lambda xs: {"$": "t", "v": xs}),
        adv.map(lambda x: {"$": "set", "v": [x]}),
        st.lists(st.tuples(adv, adv), max_size=2).map(lambda kv: {"$": "d", "v": [list(t) for t in kv]}),
        st.sampled_from(['"><script>', "a'b", "<&>", "plain", ""]).map(lambda x: {"$": "bytes", "v": x}),
        adv.map(lambda x: {"$": "strobj", "v": x}),
    )


@st.composite
def _g_xmlattr(draw):
    keys = draw(st.lists(st.one_of(st.sampled_from(GOOD_KEYS), st.sampled_from(GOOD_KEYS), st.sampled_from(GOOD_KEYS), st.sampled_from(BAD_KEYS),
                                   st.sampled_from(MAYBE_KEYS)), max_size=4, unique=True))
    if draw(st.integers(0, 2)) == 0:
        keys = [k for k in keys if k in GOOD_KEYS]
    items = []
    for k in keys:
        v = draw(st.one_of(st.sampled_from(ATTR_VALUES), st.sampled_from(ATTR_VALUES), _nasty(4), st.sampled_from([0, 1, -5, 2.5, True, False]), _nonstring_value(),
                           st.sampled_from([None, {"$": "undef"}])))
        items.append([k, v])
    args, kwargs = [], {}
    if draw(st.booleans()):
        a = draw(st.booleans())
        if draw(st.booleans()):
            args = [a]
        else:
            kwargs = {"autospace": a}
    return {"kind": "xmlattr", "items": items, "args": args, "kwargs": kwargs}


URLISH = list(CANONICAL) + ["http://a.com/\"onmouseover=\"x", "http://a.com/<script>alert(1)</script>", "www.a.com/'q'", "http://a.com/?a=1&b=2",
          "https://a.com/&lt;", "http://a.com/&#34;x", "(http://a.com/x)", "<http://a.com>", "http://a.com/(x)", "http://a.com.", "www.x.org,", "foo.com/\"",
          "a@b.co\"", "\"a@b.co", "a'b@c.de", "<x>@y.org", "mailto:\"x\"@y.org", "mailto:a@b.co?cc=c@d.ef", "http://[::1]/", "http://[::1]/\"x", "http://999.1.1.1",
          "tel:+123\"45", "tel:123", "ftp://h/\"x\"", "ftp://host/file", "x-y:z<w>", "javascript:alert(1)", "javascript://a.com/\"", "HTTP://EXAMPLE.COM/", "http://a.com/é漢",
          "http://a.com/%22", "http://a.com/x\u2028y", "www.a.com\xa0www.b.com", "http://a.com/'", "www.'.com", "http://<b>.com", "a&b@c.de", "http://a.com/?q=<A1>"]
FILLER = ["see", "at", "(", ")", "<", ">", "\"", "'", "&", "&amp;", "<b>", "</a>", "<a href=\"x\">", ".", ",", "text", "é"]
GAPS = [" ", " ", " ", "\n", "\t", "  ", "\xa0", "\u2028", "\x0c", "\r\n", "\u3000"]


@st.composite
def _g_urlize(draw):
    n = draw(st.integers(0, 5))
    parts = []
    for i in range(n):
        if i:
            parts.append(draw(st.sampled_from(GAPS)))
        parts.append(draw(st.one_of(st.sampled_from(URLISH), st.sampled_from(URLISH), st.sampled_from(FILLER), _nasty(3))))
    text = "".join(parts)
    given = {}
    if draw(st.integers(0, 2)) == 0:
        given["trim_url_limit"] = draw(st.sampled_from([None, 0, 1, 5, 10, 12, 15, 20, 30]))
    if draw(st.integers(0, 2)) == 0:
        given["nofollow"] = draw(st.booleans())
    if draw(st.integers(0, 2)) == 0:
        given["target"] = draw(st.sampled_from([None, "_blank", "x\"y", "<t>", "a b", "'", "&", "\" onclick=\"x"]))
    if draw(st.integers(0, 2)) == 0:
        given["rel"] = draw(st.sampled_from([None, "noopener", "x\"y<z>", "b a b", "nofollow ugc", "'", "a&b", "\"><script>", ""]))
    if draw(st.integers(0, 2)) == 0:
        given["extra_schemes"] = draw(st.sampled_from([None, [], ["tel:"], ["ftp://", "x-y:"], ["javascript:"], ["tel:", "tel:/"]]))
    sig = fs.SIGS["urlize"]
    order = [p for p, _ in sig]
    args, kwargs = [], {}
    if given:
        last = max(order.index(p) for p in given)
        npos = draw(st.integers(0, last + 1)) if draw(st.booleans()) else 0
        for i, (p, d) in enumerate(sig):
            if i < npos:
                args.append(given[p] if p in given else d)
            elif p in given:
                kwargs[p] = given[p]
    return {"kind": "urlize", "text": text, "args": args, "kwargs": kwargs}


@st.composite
def _g_escape(draw):
    s = draw(_nasty())
    value = draw(st.sampled_from([s, s, s, {"$": "m", "v": s}, {"$": "html", "v": s}, 42, None, 2.5, True]))
    return {"kind": "escape", "filter": draw(st.sampled_from(["escape", "e", "forceescape", "forceescape"])), "value": value}


SAFE_BITS = ["<b>", "</b>", "text", " ", "  ", "\n", "&amp;", "&lt;", "<i class=\"c\">", "</i>", "word", "Z", "-", "long-word-with-hyphens", "\r\n", "X", "o"]
PLAIN_BITS = ["text", " ", "\n", "x<y", "a&b", "\"q\"", "'s", "Z", "-", "word", "X", "o", "<b>", "  ", "<A1>", "\"A2\"", "'A3'", "&A4;", "<A7"]


def _value_text(draw, safe, max_size=8):
    bits = draw(st.lists(st.sampled_from(SAFE_BITS if safe else PLAIN_BITS), max_size=max_size))
    s = "".join(bits)
    return {"$": "m", "v": s} if safe else s


def _arg_text(draw, pool):
    """A plain argument carrying tracer tokens, sometimes a safe (Markup) argument."""
    s = draw(st.lists(st.one_of(st.sampled_from(TRACERS), st.sampled_from(TRACERS), st.sampled_from(pool)), min_size=0, max_size=3).map("".join))
    if draw(st.integers(0, 4)) == 0:
        return {"$": "m", "v": s}
    return s


@st.composite
def _g_safearg(draw):
    name = draw(st.sampled_from(["indent", "indent", "replace", "join", "format", "truncate", "wordwrap"]))
    safe = draw(st.sampled_from([True, True, False]))
    args, kwargs = [], {}
    if name == "indent":
        value = _value_text(draw, safe)
        given = {"width": _arg_text(draw, ["  ", "> ", "\t", "-"])}
        if draw(st.booleans()):
            given["first"] = draw(st.booleans())
        if draw(st.booleans()):
            given["blank"] = draw(st.booleans())
    elif name == "replace":
        value = _value_text(draw, safe)
        old = draw(st.sampled_from(["X", "Z", "-", " ", "\n", "<", ">", "\"", "o", "<b>", "word"]))
        if draw(st.integers(0, 5)) == 0:
            old = {"$": "m", "v": old}
        given = {"old": old, "new": _arg_text(draw, ["", "new", " "])}
        if draw(st.booleans()):
            given["count"] = draw(st.sampled_from([None, 0, 1, 2]))
    elif name == "join":
        n = draw(st.integers(0, 5))
        value = [draw(st.one_of(st.sampled_from(SAFE_BITS).map(lambda s: {"$": "m", "v": s}), st.sampled_from(PLAIN_BITS + TRACERS), st.integers(0, 9)))
                 for _ in range(n)]
        given = {}
        if draw(st.integers(0, 5)):
            given["d"] = _arg_text(draw, [", ", "|", " "])
    elif name == "format":
        k = draw(st.integers(0, 3))
        if draw(st.integers(0, 3)) == 0 and k:
            names = ["a", "b", "c"][:k]
            fmt = " ".join("<b>%%(%s)s</b>" % n for n in names)
            kwargs = {n: draw(st.one_of(st.sampled_from([3, 2.5]), st.just(_arg_text(draw, ["v"])))) for n in names}
        else:
            fmt = "".join(draw(st.sampled_from(["<i>%s</i>", "%s", " %5s|", "[%d]", "%%", "<b>", "&amp;"])) for _ in range(k + 1))
            for spec in _specs(fmt):
                args.append(draw(st.sampled_from([0, 7, -3])) if spec == "d" else _arg_text(draw, ["v", "w"]))
        value = {"$": "m", "v": fmt} if safe else fmt
        return {"kind": "safearg", "filter": name, "value": value, "args": args, "kwargs": kwargs}
    elif name == "truncate":
        value = _value_text(draw, safe, max_size=12)
        end = _arg_text(draw, ["...", "", " "])
        endlen = len(end["v"] if isinstance(end, dict) else end)
        given = {"length": max(endlen, draw(st.integers(0, 30))), "end": end}
        if draw(st.booleans()):
            given["killwords"] = draw(st.booleans())
        if draw(st.booleans()):
            given["leeway"] = draw(st.integers(0, 5))
    else:
        value = _value_text(draw, safe, max_size=12)
        given = {"width": draw(st.sampled_from([1, 3, 5, 8, 12, 20])), "wrapstring": _arg_text(draw, ["\n", "|"])}
        if not (given["wrapstring"]["v"] if isinstance(given["wrapstring"], dict) else given["wrapstring"]):
            given["wrapstring"] = "<A1>\n"
        if draw(st.booleans()):
            given["break_long_words"] = draw(st.booleans())
    sig = fs.SIGS[name]
    order = [p for p, _ in sig]
    if given:
        last = max(order.index(p) for p in given)
        npos = draw(st.integers(0, last + 1))
        for i, (p, d) in enumerate(sig):
            if i < npos:
                if p in given:
                    args.append(given[p])
                elif d is fs.REQ:
                    raise core.HarnessError("required parameter %s missing" % p)
                else:
                    args.append(d)
            elif p in given:
                kwargs[p] = given[p]
    return {"kind": "safearg", "filter": name, "value": value, "args": args, "kwargs": kwargs}


def _specs(fmt):
    out, i = [], 0
    while i < len(fmt):
        if fmt[i] == "%":
            j = i + 1
            while fmt[j] in "0123456789.-":
                j += 1
            if fmt[j] != "%":
                out.append(fmt[j])
            i = j + 1
        else:
            i += 1
    return out


@st.composite
def cases(draw):
    kind = draw(st.sampled_from(["tojson"] * 3 + ["xmlattr"] * 3 + ["urlize"] * 4 + ["escape"] + ["safearg"] * 5))
    return draw({"tojson": _g_tojson(), "xmlattr": _g_xmlattr(), "urlize": _g_urlize(), "escape": _g_escape(), "safearg": _g_safearg()}[kind])


def _scaled(n):
    """VERIF_SCALE (default 1) shrinks the case count for sensitivity runs: a prefix of the same seeded search."""
    import os

    return max(50, int(n * float(os.environ.get("VERIF_SCALE", "1"))))


def shards(tier):
    return [{"i": i} for i in range(16 if tier == "quick" else 96)]


def run_shard(spec, ctx):
    return core.hyp_shard(cases(), check_case, ctx, max_examples=_scaled(ctx.pick(4500, 11000)))


def floors(total, tier):
    need = {"tojson": 2000, "xmlattr": 2000, "nonstring_value": 500, "must_reject": 300, "accept": 500, "urlize": 2000, "anchors": 1000, "trim": 200, "extra_schemes": 100,
            "escape": 200, "forceescape": 200, "tracer": 2000, "exact": 1000, "value_safe": 1000, "args_plain": 1000}
    need.update({"safearg_" + n: 200 for n in ("indent", "replace", "join", "format", "truncate", "wordwrap")})
    for lab, n in need.items():
        if total.labels.get(lab, 0) < n:
            return "label %s below floor: %d < %d" % (lab, total.labels.get(lab, 0), n)
    return None
