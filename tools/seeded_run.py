#!/venv/bin/python
"""Run checks against a seeded change on a scratch copy of /repo/src (never touching /repo) and record who detects it.

usage: tools/seeded_run.py <ID-k> [PID ...] [--tier quick|thorough]   (default PID: the property the change breaks)
Updates seeded/<ID-k>/meta.json: detected_by = {PID: {"tier":..., "result": "KILLED"|"SURVIVED"|..., "seconds":..., "first": "..."}}
"""
import json, os, re, subprocess, sys
a = sys.argv[1:]
tier = "quick"
if "--tier" in a:
    i = a.index("--tier"); tier = a[i + 1]; del a[i:i + 2]
sid = a[0]
d = "/verif/seeded/%s" % sid
meta = json.load(open(d + "/meta.json"))
pids = a[1:] or [meta["property"]]
out = subprocess.run(["/verif/tools/sens.py", ",".join(pids), "--patch", d + "/patch.diff", "--tier", tier], capture_output=True, text=True)
det = meta.get("detected_by") or {}
for line in out.stdout.splitlines():
    m = re.match(r"(C\d+) (KILLED|SURVIVED|HARNESS-ERROR\(\d+\)) ([\d.]+)s ?(.*)", line)
    if m:
        det[m.group(1)] = {"tier": tier, "result": m.group(2), "seconds": float(m.group(3)), "first": m.group(4)[:300]}
        print(sid, line[:260])
meta["detected_by"] = det
json.dump(meta, open(d + "/meta.json", "w"), indent=1)
if not det:
    print(out.stdout[-500:], out.stderr[-500:])
