"""C36 - async rendering always closes the async generators it opens (fault enumeration).

Case (plain JSON):

    {"t": {name: {"ext": parent name | None, "extmode": 0..3, "lib": bool, "mac": [nodes], "body": [nodes]}},
     "main": "main",
     "fault": {"kind": "none" | "close" | "cancel" | "raise", "via": "render" | "generate" | "sync",
               "k": int, "drv": "own" | "aio"}}

Template sources are derived from the node lists by ``source_of`` (so every filtered ``for`` loop
iterates over one of the harness's *tracked* iterables ``flt``/``aflt``/``gflt``; that is how the
harness knows, independently of the code under test, whether a fault point lies inside a filtered
loop with its filter generator suspended = label ``inside_filtered_loop``, the shape of the repaired
finding F26).

Nodes: ["t", text] | ["x"] | ["a", n] (``{{ af(n) }}``: async data function awaiting n times) |
["s"] (sync data function) | ["gi", n, keykind] (``{{ gi[...] }}``: subscript returning a coroutine) | ["i"] (innermost loop variable) |
["for", itkind, count, filt, loopuse, else, recursive, body] | ["blk", name, scoped, body] | ["sup"] |
["inc", name, with_context, mode] (mode: plain / ignore missing / missing target / name list) | ["if", body] | ["fil", body] | ["set", body] |
["mac", idx, body, callbody | None] | ["imp", lib, with_context]

Faults (driven by a hand-written coroutine runner: the coroutine under test is advanced with
``send(None)``; every suspension of a harness awaitable is one "event-loop step"):

    close   a consumer iterates ``generate_async`` for k chunks, then awaits ``aclose()``
    cancel  ``CancelledError`` is thrown into the render at its k-th suspension (k=0: before start);
            drv "aio" does the same with a real asyncio task and ``task.cancel()``
    raise   the k-th call of a data function / data iterator raises
    none    the render runs to completion
    via "sync": the synchronous ``Template.render()`` of the async environment (Jinja's own event loop), kinds none / raise

Oracle: ``sys.set_asyncgen_hooks`` records every async generator at its first iteration; once the
render / consumer has finished, every recorded generator whose code belongs to a compiled template
or to the jinja2 package must be finished (``ag_frame is None``); no RuntimeWarning/ResourceWarning
no unraisable exception and no record of the ``asyncio`` logger may be reported up to and including a
final ``gc.collect()``.
"""
import gc
import logging
import os
import re
import sys
import warnings
from asyncio import CancelledError

from vt import core

PID = "C36"
LEVEL = "fault_enumeration"
RULE = (
    "Hypothesis draws a template set (main template, optional extends chain of depth <= 2 whose extends tags are plain, if-wrapped (not known at compile time) or preceded by statements/output, included templates some of "
    "which extend the chain, a macro library; bodies with nested blocks, super(), includes with and without context, with ignore missing (existing and missing targets) and name lists, "
    "imports, macros and call blocks, filter/set buffers, subscripts whose items are awaitables, for loops over lists / sync generator objects / generator-returning filters (batch, items) / async generators / async iterators, "
    "filtered loops with plain or async tests, loop.index/last/length, else, recursive). A dry run counts N chunks of "
    "generate_async, A suspensions of render_async / of a generate_async consumer and J data calls; then every fault "
    "point is one case: consumer aclose() after k chunks (k=0..N), CancelledError at suspension k (k=0..A, render and "
    "generate, plus a real asyncio task for a strided subset), data call j raising (j=1..J, render, generate and the synchronous render() entry point, where Jinja owns the event loop), and "
    "the complete runs; quick strides each family to <= 60 points per template set. Non-trivial = at the fault point a "
    "Jinja async generator other than the main root / generate_async is open (block, include, parent root, import); "
    "distinct = distinct (template set, fault). Points inside a filtered loop (former finding F26, repaired by /repo c434ef9) are judged in "
    "full and labelled inside_filtered_loop."
)
ASSUMPTIONS = [
    "a generator is 'created by Jinja' iff its code object's file is '<template>' (DictLoader templates) or lies in the jinja2 package; async generators supplied by the data are tracked but not judged",
    "the harness holds strong references to every tracked generator, so 'finalizer hook not called' is subsumed by 'ag_frame is None when the task/consumer finished'",
    "an 'event-loop step' is one suspension of a harness awaitable under a send()-driven runner (identical to asyncio.sleep(0) steps of a task; a strided subset is re-run under a real asyncio task)",
    "the label 'inside_filtered_loop' is decided by the harness's own tracked iterables (started, not yet exhausted, and not currently executing their next()/the loop test, in which case the filter generator is on the stack and is unwound normally), not by the generators under test",
    "lazy async filter generators (|select, |map ... feeding a for loop) are not generated: the statement lists template, block, include, parent and loop-filter generators only",
]

BLOCKS = ["b0", "b1", "b2", "b3"]
_TN = re.compile(r"^t_\d+$")
MAX_STEPS = 200000


class Boom(Exception):
    """The injected data error."""


class _Y:
    """One suspension point (what asyncio.sleep(0) is to an event loop)."""

    __slots__ = ()

    def __await__(self):
        yield


# ---------------------------------------------------------------------------------------
# IR -> template source


def _body_src(nodes, d):
    out = []
    for n in nodes:
        k = n[0]
        if k == "t":
            out.append(n[1])
        elif k == "x":
            out.append("{{ x }}")
        elif k == "a":
            out.append("{{ af(%d) }}" % n[1])
        elif k == "s":
            out.append("{{ sf() }}")
        elif k == "gi":  # subscript whose result is an awaitable created per lookup (int key / str key / variable key)
            out.append({0: "{{ gi[%d] }}", 1: "{{ gi['k%d'] }}", 2: "{{ gi[x ~ %d] }}"}[n[2]] % n[1])
        elif k == "i":
            out.append("{{ i%d }}" % (d - 1) if d > 0 else "{{ x }}")
        elif k == "for":
            _, itk, cnt, filt, lu, els, rec, body = n
            var = "i%d" % d
            if filt:
                fn = {"s": "flt", "g": "gflt", "c": "aflt"}[itk]
                test = " if %s" % var if filt == "truthy" else " if ap(%s)" % var
            else:
                # y: sync generator object, b / d: generator-returning filters (batch, items)
                # m / e: lazy async filter generators (map, select): expressible for replays, NOT generated (see ASSUMPTIONS)
                fn = {"s": "seq", "g": "ag", "c": "ai", "y": "sgen", "b": "seq", "d": "dct", "m": "seq", "e": "seq"}[itk]
                test = ""
            it = "%s(%d)" % (fn, cnt) + ({"b": "|batch(2)", "d": "|items", "m": "|map('string')", "e": "|select"}.get(itk, "") if not filt else "")
            s = "{%% for %s in %s%s%s %%}" % (var, it, test, " recursive" if rec else "")
            s += {0: "", 1: "{{ loop.index }}", 2: "{{ loop.last }}", 3: "{{ loop.length }}", 4: "{{ loop.revindex }}"}[lu]
            s += _body_src(body, d + 1)
            if els:
                s += "{% else %}E"
            out.append(s + "{% endfor %}")
        elif k == "blk":
            out.append("{%% block %s%s %%}%s{%% endblock %%}" % (n[1], " scoped" if n[2] else "", _body_src(n[3], d)))
        elif k == "sup":
            out.append("{{ super() }}")
        elif k == "inc":
            # optional 4th field: 0 plain | 1 ignore missing (target exists) | 2 ignore missing, target missing |
            # 3 name list whose first entry is missing | 4 name list + ignore missing
            mode = n[3] if len(n) > 3 else 0
            target = {0: "'%s'", 1: "'%s'", 2: "'zz_%s'", 3: "['zz', '%s']", 4: "['zz', '%s']"}[mode] % n[1]
            out.append("{%% include %s%s%s %%}" % (target, " ignore missing" if mode in (1, 2, 4) else "", "" if n[2] else " without context"))
        elif k == "if":
            out.append("{%% if x %%}%s{%% endif %%}" % _body_src(n[1], d))
        elif k == "fil":
            out.append("{%% filter upper %%}%s{%% endfilter %%}" % _body_src(n[1], d))
        elif k == "set":
            out.append("{%% set sv %%}%s{%% endset %%}{{ sv }}" % _body_src(n[1], d))
        elif k == "mac":
            _, idx, body, callbody = n
            s = "{%% macro q%d() %%}%s%s{%% endmacro %%}" % (idx, _body_src(body, 0), "{{ caller() }}" if callbody is not None else "")
            if callbody is not None:
                s += "{%% call q%d() %%}%s{%% endcall %%}" % (idx, _body_src(callbody, d))
            else:
                s += "{{ q%d() }}" % idx
            out.append(s)
        elif k == "imp":
            if n[2]:
                out.append("{%% from '%s' import mm with context %%}{{ mm(x) }}" % n[1])
            else:
                out.append("{%% import '%s' as lib %%}{{ lib.mm(x) }}" % n[1])
        else:
            raise core.HarnessError("unknown node %r" % (n,))
    return "".join(out)


def source_of(tdef):
    s = ""
    if tdef.get("ext"):
        # extmode 0: plain top-level extends (known at compile time); 1: wrapped in an if that is true at run time
        # (the compiler cannot know the template extends: has_known_extends stays False and the parent delegation
        # at the end of root is guarded by `if parent_template is not None`); 2: preceded by a statement;
        # 3: output before an if-wrapped extends
        mode = tdef.get("extmode", 0)
        ext = "{%% extends '%s' %%}" % tdef["ext"]
        s += {0: ext, 1: "{% if x %}" + ext + "{% endif %}", 2: "{% set pre = x %}" + ext,
              3: "T{{ af(1) }}{% if x %}" + ext + "{% endif %}"}[mode]
    if tdef.get("lib"):
        s += "{%% macro mm(a) %%}[{{ a }}%s]{%% endmacro %%}" % _body_src(tdef.get("mac") or [], 0)
    return s + _body_src(tdef["body"], 0)


def sources(case):
    return {name: source_of(td) for name, td in case["t"].items()}


# ---------------------------------------------------------------------------------------
# harness-side data: counted calls, fault injection, tracked iterables for filtered loops


class _Rec:
    __slots__ = ("g", "tname", "co_name", "qual", "jinja", "tn")

    def __init__(self, g, jinja_dir):
        self.g = g
        code = g.ag_code
        fn = code.co_filename
        self.co_name = code.co_name
        self.qual = getattr(code, "co_qualname", code.co_name)
        self.jinja = fn == "<template>" or fn.startswith(jinja_dir)
        fr = g.ag_frame
        self.tname = fr.f_globals.get("name") if (fr is not None and fn == "<template>") else None
        self.tn = bool(fn == "<template>" and _TN.match(code.co_name))

    def describe(self):
        if self.tname is not None:
            return "%s[%s]" % (self.qual, self.tname)
        return self.qual


class _H:
    def __init__(self, fault, jinja_dir):
        self.kind = fault.get("kind", "none")
        self.k = fault.get("k", 0)
        self.jinja_dir = jinja_dir
        self.calls = 0
        self.active = 0  # filtered-loop iterators started and not exhausted
        self.on_stack = 0  # 1 while a loop test (ap) or a tracked iterator's next is executing: that loop's t_N is on the stack
        self.live = []
        self.finalized = []
        self.open_end = None
        self.fault_hit = False
        self.in_floop = False
        self.open_at_fault = []
        self.chunks = 0
        self.steps = 0

    # asyncgen hooks
    def firstiter(self, g):
        self.live.append(_Rec(g, self.jinja_dir))

    def finalizer(self, g):  # cannot fire for tracked generators (strong refs); kept for completeness
        self.finalized.append(g)

    def at_fault(self):
        self.fault_hit = True
        # a filtered loop whose filter generator is *suspended* (not the one currently running its test / pulling
        # its next item: an exception or cancellation unwinds that one like any other frame)
        self.in_floop = self.active - self.on_stack > 0
        self.open_at_fault = [r for r in self.live if r.g.ag_frame is not None]

    def call(self):
        self.calls += 1
        if self.kind == "raise" and self.calls == self.k:
            self.at_fault()
            raise Boom("data call %d" % self.calls)

    def globals(self):
        h = self

        async def af(n=1):
            h.call()
            for _ in range(n):
                await _Y()
            return "a"

        def sf():
            h.call()
            return "s"

        class Items:
            """item lookup returns a fresh coroutine (awaits once per trailing digit value, like af)"""

            def __getitem__(self, key):
                return af(int(str(key)[-1]))

        async def ap(v):  # only ever used as the test of a filtered loop
            h.on_stack += 1
            try:
                h.call()
                await _Y()
                return v % 2 == 0
            finally:
                h.on_stack -= 1

        def seq(n):
            return list(range(n))

        async def ag(n):
            for i in range(n):
                await _Y()
                h.call()
                yield i

        def ai(n):
            return _AIter(h, n, False)

        def sgen(n):  # a plain (sync) generator object from the context
            for i in range(n):
                h.call()
                yield i

        def dct(n):
            return {i: "v" for i in range(n)}

        def flt(n):
            return _SyncF(h, n)

        def aflt(n):
            return _AsyncF(h, n, "c")

        def gflt(n):
            return _AsyncF(h, n, "g")

        return dict(x="X", af=af, sf=sf, ap=ap, seq=seq, ag=ag, ai=ai, flt=flt, aflt=aflt, gflt=gflt, gi=Items(), sgen=sgen, dct=dct)


class _TrackedIt:
    def __init__(self, h, n, tracked=True):
        self.h, self.n, self.i = h, n, 0
        self.open = tracked
        if tracked:
            h.active += 1

    def done(self):
        if self.open:
            self.open = False
            self.h.active -= 1


class _SyncF:
    def __init__(self, h, n):
        self.h, self.n = h, n

    def __iter__(self):
        return _SyncFIt(self.h, self.n)


class _SyncFIt(_TrackedIt):
    def __iter__(self):
        return self

    def __next__(self):
        self.h.on_stack += 1
        try:
            self.h.call()
        finally:
            self.h.on_stack -= 1
        if self.i >= self.n:
            self.done()
            raise StopIteration
        self.i += 1
        return self.i - 1


class _AIter(_TrackedIt):
    """class-based async iterator; tracked=True when it feeds a filtered loop"""

    def __aiter__(self):
        return self

    async def __anext__(self):
        tracked = self.open
        if tracked:
            self.h.on_stack += 1
        try:
            await _Y()
            self.h.call()
        finally:
            if tracked:
                self.h.on_stack -= 1
        if self.i >= self.n:
            self.done()
            raise StopAsyncIteration
        self.i += 1
        return self.i - 1


class _GenIt(_TrackedIt):
    """a data async generator behind a tracking wrapper"""

    def __init__(self, h, n):
        super().__init__(h, n, True)

        async def inner():
            for i in range(n):
                await _Y()
                h.call()
                yield i
            h.call()

        self.inner = inner()

    def __aiter__(self):
        return self

    async def __anext__(self):
        self.h.on_stack += 1
        try:
            return await self.inner.__anext__()
        except StopAsyncIteration:
            self.done()
            raise
        finally:
            self.h.on_stack -= 1


class _AsyncF:
    def __init__(self, h, n, kind):
        self.h, self.n, self.kind = h, n, kind

    def __aiter__(self):
        if self.kind == "g":
            return _GenIt(self.h, self.n)
        return _AIter(self.h, self.n, True)


# ---------------------------------------------------------------------------------------
# runners


def _drive(coro, h=None, cancel_at=None):
    """Advance ``coro`` to completion with send(None).  Returns ("ok", value) or ("cancelled", None);
    any other exception propagates."""
    steps = 0
    thrown = False
    try:
        while True:
            if cancel_at is not None and not thrown and steps == cancel_at:
                thrown = True
                h.at_fault()
                coro.throw(CancelledError())
            else:
                coro.send(None)
            steps += 1
            if steps > MAX_STEPS:
                raise core.HarnessError("runner exceeded %d steps" % MAX_STEPS)
    except StopIteration as e:
        return "ok", e.value
    except CancelledError:
        return "cancelled", None
    finally:
        if h is not None:
            h.steps = steps


def _consumer(template, h, stop_after):
    """coroutine: iterate generate_async; stop_after=None consumes everything."""

    async def consume():
        g = template.generate_async()
        out = []
        if stop_after != 0:
            async for chunk in g:
                out.append(chunk)
                h.chunks += 1
                if stop_after is not None and h.chunks >= stop_after:
                    h.at_fault()
                    break
        else:
            h.at_fault()
        await g.aclose()
        return "".join(out)

    return consume()


def _close_leftovers(h):
    for r in reversed(h.live):
        if r.g.ag_frame is not None:
            _drive(r.g.aclose())


def _run_own(template, h, fault):
    kind, via, k = fault.get("kind", "none"), fault.get("via", "render"), fault.get("k", 0)
    if via == "sync":
        # the synchronous entry point of an async environment: Jinja runs the render on an event loop of its own
        # and is responsible for leaving nothing behind on it (kinds none / raise only)
        try:
            return "ok", template.render()
        except Boom:
            return "boom", None
    if kind == "close":
        coro = _consumer(template, h, k)
    elif via == "generate":
        coro = _consumer(template, h, None)
    else:
        coro = template.render_async()
    try:
        return _drive(coro, h, k if kind == "cancel" else None)
    except Boom:
        return "boom", None
    finally:
        coro.close()


def _run_aio(template, h, fault):
    """The same cancellation with a real asyncio task: cancel after k loop iterations."""
    import asyncio

    via, k = fault.get("via", "render"), fault.get("k", 0)
    result = []

    async def main():
        inner_old = sys.get_asyncgen_hooks()  # the loop's own hooks
        sys.set_asyncgen_hooks(firstiter=h.firstiter, finalizer=h.finalizer)
        try:
            coro = _consumer(template, h, None) if via == "generate" else template.render_async()
            task = asyncio.ensure_future(coro)
            n = 0
            while n < k and not task.done():
                await asyncio.sleep(0)
                n += 1
            h.steps = n
            if not task.done():
                h.at_fault()
                task.cancel()
            try:
                result.append(("ok", await task))
            except CancelledError:
                result.append(("cancelled", None))
            h.open_end = [r for r in h.live if r.g.ag_frame is not None]
            for r in reversed(h.live):
                if r.g.ag_frame is not None:
                    await r.g.aclose()
        finally:
            sys.set_asyncgen_hooks(*inner_old)

    loop = asyncio.new_event_loop()
    try:
        loop.run_until_complete(main())
    finally:
        loop.close()
    return result[0]


class _LogCapture(logging.Handler):
    def __init__(self):
        super().__init__(level=logging.WARNING)
        self.records = []

    def emit(self, record):
        self.records.append("%s: %s" % (record.levelname, record.getMessage()))


class _Unraisable:
    def __init__(self):
        self.seen = []

    def __call__(self, u):
        self.seen.append("%s: %r (%s)" % (type(u.exc_value).__name__, u.exc_value, u.err_msg))


def _describe(case, src):
    return "fault=%s templates=%s" % (core.canon(case.get("fault")), core.canon(src))


_CODE = {}
_ENV = []


def _env_class():
    """Environment whose compile() memoises code objects per (source, name): the fault points of one
    template set recompile the same sources; code objects are immutable, so cases stay independent."""
    if _ENV:
        return _ENV[0]
    import jinja2

    class MemoEnvironment(jinja2.Environment):
        def compile(self, source, name=None, filename=None, raw=False, defer_init=False):
            if raw or not isinstance(source, str):
                return super().compile(source, name, filename, raw, defer_init)
            key = (source, name, filename)
            code = _CODE.get(key)
            if code is None:
                if len(_CODE) > 256:
                    _CODE.clear()
                code = _CODE[key] = super().compile(source, name, filename, raw, defer_init)
            return code

    _ENV.append(MemoEnvironment)
    return MemoEnvironment


def execute(case):
    """Run one case.  Returns (Outcome, info dict); raises Violation."""
    import jinja2

    fault = case.get("fault") or {"kind": "none"}
    src = sources(case)
    jinja_dir = os.path.dirname(os.path.abspath(jinja2.__file__)) + os.sep
    h = _H(fault, jinja_dir)
    env = _env_class()(loader=jinja2.DictLoader(src), enable_async=True)
    env.globals.update(h.globals())
    template = env.get_template(case.get("main", "main"))

    import logging

    alog = logging.getLogger("asyncio")
    acap = _LogCapture()
    old_propagate = alog.propagate
    alog.addHandler(acap)
    alog.propagate = False
    old_hooks = sys.get_asyncgen_hooks()
    old_unraisable = sys.unraisablehook
    unraisable = _Unraisable()
    sys.unraisablehook = unraisable
    aio = fault.get("drv") == "aio" and fault.get("kind") == "cancel"
    try:
        with warnings.catch_warnings(record=True) as wlist:
            warnings.simplefilter("always")
            if aio:
                status, value = _run_aio(template, h, fault)
                open_end = h.open_end
            else:
                sys.set_asyncgen_hooks(firstiter=h.firstiter, finalizer=h.finalizer)
                status, value = _run_own(template, h, fault)
                open_end = [r for r in h.live if r.g.ag_frame is not None]
                _close_leftovers(h)
            open_desc = [(r.describe(), r.jinja, r.tn) for r in open_end]
            at_fault = [(r.co_name, r.tname, r.jinja, r.tn) for r in h.open_at_fault]
            created = len(h.live)
            ndata = sum(1 for r in h.live if not r.jinja)
            del open_end
            h.open_at_fault = []
            h.open_end = None
            h.live = []
            template = env = None
            gc.collect()
            warns = [w for w in wlist if issubclass(w.category, (RuntimeWarning, ResourceWarning))]
    finally:
        sys.set_asyncgen_hooks(*old_hooks)
        sys.unraisablehook = old_unraisable
        alog.removeHandler(acap)
        alog.propagate = old_propagate

    bad = [d for d, jinja, tn in open_desc if jinja]
    if bad:
        raise core.Violation(
            "async generator(s) created by Jinja still open when the %s finished (%s): %s; all open: %s\n%s"
            % ("consumer" if fault.get("kind") == "close" else "render", status, bad, [d for d, _, _ in open_desc], _describe(case, src))
        )
    if warns:
        raise core.Violation("warning(s) emitted: %s\n%s" % ([str(w.message) for w in warns][:4], _describe(case, src)))
    if acap.records:
        raise core.Violation("asyncio logged: %s\n%s" % (acap.records[:4], _describe(case, src)))
    if unraisable.seen:
        raise core.Violation("unraisable exception(s): %s\n%s" % (unraisable.seen[:4], _describe(case, src)))

    main = case.get("main", "main")
    labels = ["kind_" + fault.get("kind", "none"), "via_" + fault.get("via", "render"), "end_" + status]
    if '"inc", ' in core.canon(case["t"]) and any(m in core.canon(sources(case)) for m in ("ignore missing", "['zz'")):
        labels.append("include_ignore_or_list")
    allsrc = core.canon(src)
    if "sgen(" in allsrc or "|batch" in allsrc or "|items" in allsrc:
        labels.append("sync_generator_loop")
    if "gi[" in allsrc:
        labels.append("awaitable_subscript")
    if any(td.get("ext") and td.get("extmode", 0) in (1, 3) for td in case["t"].values()):
        labels.append("dynamic_extends")
    if aio:
        labels.append("drv_aio")
    seen_main_root = False
    inner = set()
    for co_name, tname, jinja, tn in at_fault:
        if not jinja:
            inner.add("data_gen_open")
            continue
        if co_name == "generate_async":
            continue
        if co_name == "root" and tname == main and not seen_main_root:
            seen_main_root = True
            continue
        if tn:
            inner.add("in_floop")
        elif co_name.startswith("block_"):
            inner.add("in_block")
        elif co_name == "root":
            inner.add({"p": "in_parent", "i": "in_include", "j": "in_include_ext", "m": "in_import"}.get((tname or "?")[0], "in_other_root"))
        else:
            inner.add("in_other")
    nontrivial = bool(h.fault_hit and inner - {"data_gen_open"})
    if h.fault_hit and h.in_floop:
        labels.append("inside_filtered_loop")  # a loop-filter generator is suspended (not on the stack) at the fault point
    if not h.fault_hit and fault.get("kind", "none") != "none":
        labels.append("fault_not_reached")
    labels.extend(sorted(inner))
    if nontrivial:
        labels.append("nontrivial")
    info = dict(status=status, value=value, chunks=h.chunks, steps=h.steps, calls=h.calls, created=created, data_gens=ndata)
    return core.Outcome(nontrivial, labels), info


def check_case(case):
    return execute(case)[0]


# ---------------------------------------------------------------------------------------
# generator of template sets


def _strategy(maxdepth):
    import hypothesis.strategies as st

    class G:
        def __init__(self, draw):
            self.draw = draw

        def body(self, c, depth, lo=1, hi=3):
            n = self.draw(st.integers(lo, hi if depth < 2 else 2))
            return [self.node(c, depth) for _ in range(n)]

        def node(self, c, depth):
            draw = self.draw
            kinds = ["t", "x", "a", "a", "a", "s", "gi"]
            if c["loopd"] > 0:
                kinds.append("i")
            if c["super"]:
                kinds += ["sup", "sup"]
            if depth < maxdepth:
                kinds += ["for", "for", "ffor", "if", "fil", "set"]
                if self.avail(c) and not c["nomac"]:
                    kinds += ["blk", "blk", "blk"]
                if c["incs"]:
                    kinds += ["inc", "inc", "inc"]
                if c["libs"]:
                    kinds += ["imp", "imp"]
                if not c["nomac"]:
                    kinds += ["mac"]
            k = draw(st.sampled_from(kinds))
            if k == "t":
                return ["t", draw(st.sampled_from(["T", "u", " v "]))]
            if k in ("x", "s", "i", "sup"):
                return [k]
            if k == "a":
                return ["a", draw(st.sampled_from([1, 1, 0, 2]))]
            if k == "gi":
                return ["gi", draw(st.sampled_from([1, 0, 2])), draw(st.sampled_from([0, 1, 2]))]
            if k in ("for", "ffor"):
                itk = draw(st.sampled_from(["s", "g", "c"] if k == "ffor" else ["s", "g", "c", "y", "y", "b", "d"]))
                cnt = draw(st.sampled_from([2, 3, 1, 0, 4]))
                filt = draw(st.sampled_from(["truthy", "ap"])) if k == "ffor" else None
                lu = draw(st.sampled_from([0, 0, 0, 1, 2, 3, 4]))
                els = draw(st.sampled_from([False, False, True]))
                rec = draw(st.sampled_from([False, False, False, True]))
                c2 = dict(c, loopd=c["loopd"] + 1)
                return ["for", itk, cnt, filt, lu, els, rec, self.body(c2, depth + 1, 1, 2)]
            if k == "blk":
                avail = self.avail(c)
                pool = [b for b in avail if b in c["inherited"]] or avail
                name = draw(st.sampled_from(pool if draw(st.booleans()) else avail))
                c["blocks"].remove(name)
                scoped = draw(st.sampled_from([False, False, True]))
                c2 = dict(c, super=name in c["inherited"], loopd=c["loopd"] if scoped else 0, minblk=BLOCKS.index(name))
                return ["blk", name, scoped, self.body(c2, depth + 1)]
            if k == "inc":
                return ["inc", draw(st.sampled_from(c["incs"])), draw(st.sampled_from([True, True, False])),
                        draw(st.sampled_from([0, 0, 1, 1, 2, 3, 4]))]
            if k in ("if", "fil", "set"):
                return [k, self.body(c, depth + 1, 1, 2)]
            if k == "mac":
                c["mcount"][0] += 1
                idx = c["mcount"][0]
                cm = dict(c, nomac=True, super=False, loopd=0)
                body = self.body(cm, depth + 1, 1, 2)
                callbody = self.body(dict(c, nomac=True, super=False), depth + 1, 1, 2) if draw(st.booleans()) else None
                return ["mac", idx, body, callbody]
            if k == "imp":
                return ["imp", draw(st.sampled_from(c["libs"])), draw(st.booleans())]
            raise core.HarnessError(k)

        def ctx(self, incs, libs, inherited, nomac=False):
            return dict(blocks=list(BLOCKS), inherited=set(inherited), incs=list(incs), libs=list(libs), super=False,
                        loopd=0, nomac=nomac, mcount=[0], minblk=-1)

        @staticmethod
        def avail(c):
            # a block may only contain blocks of a higher index (in every template), so that overriding
            # never makes a block contain itself through an ancestor's nesting
            return [b for b in c["blocks"] if BLOCKS.index(b) > c["minblk"]]

        def child_body(self, c):
            # top level of an extending template: overriding blocks (output outside blocks is dropped)
            n = self.draw(st.integers(1, 3))
            out = []
            for _ in range(n):
                if not c["blocks"]:
                    break
                pool = [b for b in c["blocks"] if b in c["inherited"]] or c["blocks"]
                name = self.draw(st.sampled_from(pool))
                c["blocks"].remove(name)
                c2 = dict(c, super=name in c["inherited"], minblk=BLOCKS.index(name))
                out.append(["blk", name, False, self.body(c2, 1)])
            return out

    def names_in(nodes, acc):
        for n in nodes:
            if n[0] == "blk":
                acc.add(n[1])
            for part in n[1:]:
                if isinstance(part, list) and part and isinstance(part[0], list):
                    names_in(part, acc)
        return acc

    EXTMODE = st.sampled_from([0, 0, 1, 1, 2, 3])

    @st.composite
    def tsets(draw):
        g = G(draw)
        T = {}
        incs, libs = [], []
        for i in range(draw(st.integers(0, 2))):
            name = "i%d" % i
            T[name] = {"ext": None, "body": g.body(g.ctx(incs, [], ()), 1)}
            incs.append(name)
        if draw(st.booleans()):
            c = g.ctx(incs, [], (), nomac=True)
            T["m0"] = {"ext": None, "lib": True, "mac": g.body(c, 1, 0, 2), "body": g.body(c, 1, 0, 2)}
            libs.append("m0")
        chain = []
        inherited = set()
        for i in range(draw(st.sampled_from([0, 1, 1, 2]))):
            name = "p%d" % i
            c = g.ctx(incs, libs, inherited)
            if chain:
                body = g.child_body(c)
            else:
                body = g.body(c, 0, 2, 4)
            T[name] = {"ext": chain[-1] if chain else None, "body": body}
            if chain:
                T[name]["extmode"] = draw(EXTMODE)
            inherited |= names_in(body, set())
            chain.append(name)
        main_incs = list(incs)
        if chain and draw(st.booleans()):
            c = g.ctx(incs, libs, inherited)
            T["j0"] = {"ext": chain[-1], "extmode": draw(EXTMODE), "body": g.child_body(c)}
            main_incs.append("j0")
        ext = chain[-1] if chain and draw(st.sampled_from([True, True, True, False])) else None
        c = g.ctx(main_incs, libs, inherited if ext else ())
        T["main"] = {"ext": ext, "body": g.child_body(c) if ext else g.body(c, 0, 2, 4)}
        if ext:
            T["main"]["extmode"] = draw(EXTMODE)
        return {"t": T, "main": "main"}

    return tsets()


# ---------------------------------------------------------------------------------------
# fault enumeration per template set


def _strided(n, cap):
    """indices 0..n-1, all if n <= cap, else cap evenly spaced ones including both ends"""
    if n <= cap:
        return list(range(n))
    return sorted({round(i * (n - 1) / (cap - 1)) for i in range(cap)})


def enumerate_set(base, run, cap, aio_cap):
    """``run(case) -> info | None`` executes one case through the recorder.  Yields nothing; drives all points."""
    infos = {}
    for via in ("render", "generate"):
        infos[via] = run(dict(base, fault={"kind": "none", "via": via, "k": 0, "drv": "own"}))
    if infos["render"] is None or infos["generate"] is None:
        return
    n_chunks = infos["generate"]["chunks"]
    calls = infos["render"]["calls"]
    for k in _strided(n_chunks + 1, cap):
        run(dict(base, fault={"kind": "close", "via": "generate", "k": k, "drv": "own"}))
    # the synchronous entry point costs ~4 ms per case (asyncio.run): a few points per set only
    if calls == 0:
        run(dict(base, fault={"kind": "none", "via": "sync", "k": 0, "drv": "own"}))
    for k in _strided(calls, max(3, cap // 20)):
        run(dict(base, fault={"kind": "raise", "via": "sync", "k": k + 1, "drv": "own"}))
    for via in ("render", "generate"):
        steps = infos[via]["steps"]
        for k in _strided(steps + 1, cap):
            run(dict(base, fault={"kind": "cancel", "via": via, "k": k, "drv": "own"}))
        for k in _strided(calls, cap):
            run(dict(base, fault={"kind": "raise", "via": via, "k": k + 1, "drv": "own"}))
        for k in _strided(steps + 1, aio_cap):
            run(dict(base, fault={"kind": "cancel", "via": via, "k": k, "drv": "aio"}))


def shards(tier):
    return [{"i": i} for i in range(16)]


def run_shard(spec, ctx):
    import hypothesis
    from hypothesis import HealthCheck, Phase, given, settings

    gc.collect()
    gc.freeze()  # per-case gc.collect() then only scans objects allocated by the case
    rec = core.Rec()
    cap = ctx.pick(60, 400)
    aio_cap = ctx.pick(6, 40)

    def run(case):
        info = {}

        def oracle(c):
            out, i = execute(c)
            info.update(i)
            return out

        rec.run(oracle, case, reraise=True)
        return info or None

    for depth, nsets in PHASES[ctx.tier]:
        if rec.violations:
            break

        @hypothesis.seed(ctx.derive("sets", depth))
        @settings(max_examples=nsets, database=None, deadline=None, derandomize=False, report_multiple_bugs=False,
                  suppress_health_check=list(HealthCheck), phases=[Phase.generate, Phase.shrink], print_blob=False,
                  verbosity=hypothesis.Verbosity.quiet)
        @given(_strategy(depth))
        def test(base):
            n = rec.extra["template_sets"] = rec.extra.get("template_sets", 0) + 1
            # keep the per-case gc.collect() cheap: park everything allocated so far (Hypothesis' own state)
            # in the permanent generation; every 64 sets collect it for real so cyclic garbage does not pile up
            if n % 64 == 0:
                gc.unfreeze()
                gc.collect()
            gc.freeze()
            enumerate_set(base, run, cap, aio_cap)

        nviol = len(rec.violations)
        try:
            test()
        except core.Violation:
            last = rec.violations[-1]
            del rec.violations[nviol:]
            rec.violations.append(last)
    gc.unfreeze()
    return rec


# (nesting depth of the generated bodies, template sets per shard)
PHASES = {"quick": [(3, 1000)], "thorough": [(3, 2000), (4, 4000), (5, 2000)]}


def floors(total, tier):
    lab = total.labels
    need = ["kind_close", "kind_cancel", "kind_raise", "kind_none", "drv_aio", "in_block", "in_include", "in_parent",
            "in_import", "in_include_ext", "dynamic_extends", "include_ignore_or_list", "sync_generator_loop", "awaitable_subscript", "inside_filtered_loop", "via_sync", "end_cancelled", "end_boom", "nontrivial"]
    missing = [n for n in need if lab.get(n, 0) < 20]
    if missing:
        return "label classes below floor 20: %s" % missing
    return None
