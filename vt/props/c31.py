"""C31 - precompiled templates (Environment.compile_templates + ModuleLoader) render exactly like
templates compiled from source.

Case (plain JSON)::

    {"ir":   template-set IR of vt/gen/tsets.py (kind "inherit" or "modules") | None,
     "data": [d1, d2]                       two data assignments for the templates of the IR,
     "prog": None | {"prog": G-stmt program (vt/gen/stmt.py), "data": [p1, p2], "rename": {identifier: replacement} | absent}
                                            -> templates "prog" (the program) and "progu" (imports / includes it),
     "raw":  None | {"templates": {name: source}, "data": [r1, r2], "broken": [names with a syntax error]}
                                            hand-written sources (feature snippets, replays),
     "rename": {template name: new name}    applied to every string of ir / data that equals a template name,
     "cfg": {"zip": None|"stored"|"deflated", "zip2": same (second target of the split forms),
             "form": one of FORMS, "mask": int (which templates go where in split / choice forms),
             "async": bool, "flags": [environment option flags, see FLAGS],
             "shared": bool   one ModuleLoader instance also serves a second environment (other undefined type / global
                              values); both load every template before anything renders; both are compared with source
             "rebuild": None | {"flags1": [...], "stale": bool}   sources live on disk (FileSystemLoader, fixed old mtimes);
                              an earlier build with options flags1 (and, if stale, other sources) is compiled into the
                              same target first, the real build then overwrites it}}

Differential oracle.  The *source side* is an environment with a ``DictLoader`` of all (compilable)
sources.  The *module side* is an environment with identical options whose loader is built from what
``compile_templates`` wrote under ``/verif/.work/c31-<pid>-<n>/`` (removed before check_case returns):

    path / pathlike / list1 / list_empty_first     ModuleLoader(str | Path | [str] | [empty dir, Path])
    split           two compile_templates runs with complementary ``filter_func`` into two targets (zip modes
                    ``zip`` and ``zip2``), ModuleLoader([target1, target2])
    choice_mod_first   only the masked subset is precompiled; ChoiceLoader([ModuleLoader, DictLoader(all)])
    choice_src_first   everything is precompiled; ChoiceLoader([DictLoader(masked subset), ModuleLoader])
    override        a second target holds overriding versions ("OVR:" + source) of the masked subset and is listed first:
                    ModuleLoader([override target, default target]); its path sorts before or after the default target's;
                    the source side is ChoiceLoader([DictLoader(overrides), DictLoader(all)])

For every template of the set and both data assignments the two sides must give the same text or the
same exception class (``TemplateNotFound`` for a deliberately missing include, ``UndefinedError``, ... -
only the classes listed in ``ALLOWED`` are accepted at all); additionally the names exported by
``make_module(d1)`` and the block names must agree.  Also checked, because every later comparison rests
on it: the target holds exactly one ``tmpl_<sha1(name)>.py`` per selected compilable template; with a
syntactically broken template in the set ``ignore_errors=False`` raises ``TemplateSyntaxError`` and
``ignore_errors=True`` skips (and logs) exactly that template; after the environments are dropped no
``_jinja2_module_templates_*`` package stays registered in ``sys.modules`` (tests/test_loader.py
``test_weak_references``).
"""
from __future__ import annotations

import asyncio
import copy
import gc
import itertools
import os
import pathlib
import shutil
import sys
import zipfile

from vt import core

PID = "C31"
LEVEL = "exploration"
RULE = (
    "Hypothesis-generated template sets: a G-inherit hierarchy or a G-modules library/user set (vt/gen/tsets.py), in "
    "a third of the cases plus a G-stmt program template (half of them with all identifiers renamed into ASCII / keyword / "
    "generated-code-like / dunder / non-ASCII names) with an importing/including wrapper, plus 0-5 hand-written "
    "feature snippets (filters, tests, macros with varargs/caller, call blocks, recursive loops, autoescape sections, "
    "namespaces, trans blocks, do/loopcontrols tags, self/super); template names optionally renamed to path-like, "
    "non-ASCII, brace and blank containing names; compiled with compile_templates(zip=None|'stored'|'deflated') into a "
    "scratch target and loaded through ModuleLoader in 8 loader forms (str / Path / list / list with an empty first "
    "directory / two targets split by filter_func / an overriding target listed before the default one / ChoiceLoader before or after a source loader with a partial "
    "compile); sync and enable_async; environment options drawn from autoescape (bool / by-name callable), sandboxed, "
    "immutable sandbox, optimized=False, trim/lstrip blocks, finalize (None->'' / type-sensitive / pass_environment, with "
    "snippets printing none, float, int, bool and container constants), cache_size=0, Debug/Chainable/Strict undefined, "
    "i18n extension; in a fifth of the cases the same loader instance also serves a second environment with another "
    "undefined type and other global values; in a fifth the target already holds an earlier build (other options and/or "
    "other sources, file-backed sources with old timestamps). Every template x 2 data assignments rendered on both sides. Non-trivial = during a render of a "
    "precompiled template another template was loaded through the ModuleLoader (extends / include / import resolved "
    "between precompiled templates); distinct = distinct serialised case."
)
ASSUMPTIONS = [
    "differential: both sides run the tree under test, a defect common to source and module loading is invisible here",
    "the environment that loads the modules has the same options as the one that compiled them (documented use)",
    "errors are compared by exception class; only TemplateError, TypeError, ValueError, ArithmeticError, LookupError, "
    "AttributeError and RecursionError count as outcomes, anything else (NameError, ImportError, ...) is a violation by itself",
    "tracebacks, Template.filename and is_up_to_date are not compared (precompiled templates have no source access)",
    "a syntactically broken template cannot be precompiled: it is checked to be skipped/raised as documented and is then "
    "left out on both sides",
]

FORMS = ("path", "pathlike", "list1", "list_empty_first", "split", "choice_mod_first", "choice_src_first", "override")
FLAGS = ("autoescape", "autoescape_fn", "sandbox", "immutable", "unoptimized", "ws", "finalize", "nocache",
         "debug_undefined", "chainable_undefined", "strict_undefined", "i18n", "no_auto_reload", "finalize_typed", "finalize_env")
ZIPS = (None, "stored", "deflated")

sys.dont_write_bytecode = True  # a .pyc next to a rebuilt module would be validated by mtime + size only

WORK = os.path.join(core.VERIF, ".work")
_counter = itertools.count()
_PKG_PREFIX = "_jinja2_module_templates_"


# ---------------------------------------------------------------------------------------
# sources


def _deep_rename(x, ren):
    if isinstance(x, str):
        return ren.get(x, x)
    if isinstance(x, list):
        return [_deep_rename(v, ren) for v in x]
    if isinstance(x, dict):
        return {ren.get(k, k) if isinstance(k, str) else k: _deep_rename(v, ren) for k, v in x.items()}
    return x


def _wrapper_source(prog, pname, rename=None):
    """A user of the program template: imports its macros (cached module and with context) and includes it."""
    macros = sorted({(rename or {}).get(s[1], s[1]) for s in prog if s[0] == "macro"})
    parts = ["{%% import '%s' as P %%}" % pname, "{{ P }}|"]
    parts.append("{%% for q in [1, 2] %%}{%% include '%s' %%}{%% endfor %%}|" % pname)
    parts.append("{%% include '%s' without context %%}|" % pname)
    for m in macros:
        parts.append("{%% if P.%s is defined %%}{{ P.%s() }}{%% endif %%}|" % (m, m))
    public = [m for m in macros if not m.startswith("_")]  # importing an underscore name is a template error
    if public:
        parts.append("{%% from '%s' import %s as mm with context %%}{{ mm() }}|" % (pname, public[0]))
    return "".join(parts)


def build_sources(case):
    """-> (sources {name: text}, jobs [(name, data index list)], broken names, datasets {group: [d1, d2]}, group of name)"""
    from vt.gen import stmt as G
    from vt.gen import tsets

    ren = case.get("rename") or {}
    sources, group, datasets, broken = {}, {}, {}, []
    if case.get("ir"):
        ir = _deep_rename(case["ir"], ren)
        for name, src in tsets.print_set(ir).items():
            sources[name] = src
            group[name] = "ir"
            if isinstance(ir["templates"][name], dict):
                broken.append(name)
        datasets["ir"] = [_deep_rename(d, ren) for d in case["data"]]
        globs = dict(ir.get("globals") or {})
    else:
        globs = {}
    if case.get("prog"):
        pname, uname = ren.get("prog", "prog"), ren.get("progu", "progu")
        pren = case["prog"].get("rename") or None
        sources[pname] = G.print_program(case["prog"]["prog"], pren)
        sources[uname] = _wrapper_source(case["prog"]["prog"], pname, pren)
        group[pname] = group[uname] = "prog"
        datasets["prog"] = [G.rename_data(d, pren) for d in case["prog"]["data"]]
    if case.get("raw"):
        for name, src in case["raw"]["templates"].items():
            name = ren.get(name, name)
            sources[name] = src
            group[name] = "raw"
            if name in (case["raw"].get("broken") or ()):
                broken.append(name)
        datasets["raw"] = case["raw"]["data"]
    return sources, group, datasets, broken, globs


# ---------------------------------------------------------------------------------------
# environments


def _finalize(v):
    return "" if v is None else v


def _finalize_typed(v):
    """Type-sensitive finalize: None -> '', float -> two decimals, int -> bracketed; everything else unchanged."""
    if v is None:
        return ""
    if isinstance(v, bool):
        return v
    if isinstance(v, float):
        return "%.2f" % v
    if isinstance(v, int):
        return "[%d]" % v
    return v


def _finalize_env():
    from jinja2 import pass_environment

    @pass_environment
    def finalize(environment, v):
        return _finalize_typed(v)

    return finalize


def _autoescape_by_name(name):
    return name is not None and (name.endswith(".html") or name.endswith("0"))


def make_env(loader, cfg, globs, state=None):
    import jinja2
    from jinja2 import sandbox

    flags = set(cfg.get("flags") or ())
    cls = jinja2.Environment
    if "immutable" in flags:
        cls = sandbox.ImmutableSandboxedEnvironment
    elif "sandbox" in flags:
        cls = sandbox.SandboxedEnvironment
    opts = {"extensions": ["jinja2.ext.do", "jinja2.ext.loopcontrols"]}
    if "i18n" in flags:
        opts["extensions"].append("jinja2.ext.i18n")
    if "autoescape_fn" in flags:
        opts["autoescape"] = _autoescape_by_name
    elif "autoescape" in flags:
        opts["autoescape"] = True
    if "unoptimized" in flags:
        opts["optimized"] = False
    if "ws" in flags:
        opts.update(trim_blocks=True, lstrip_blocks=True, keep_trailing_newline=True)
    if "finalize_typed" in flags:
        opts["finalize"] = _finalize_typed
    elif "finalize_env" in flags:
        opts["finalize"] = _finalize_env()
    elif "finalize" in flags:
        opts["finalize"] = _finalize
    if "nocache" in flags:
        opts["cache_size"] = 0
    if "no_auto_reload" in flags:
        opts["auto_reload"] = False
    if "strict_undefined" in flags:
        opts["undefined"] = jinja2.StrictUndefined
    elif "debug_undefined" in flags:
        opts["undefined"] = jinja2.DebugUndefined
    elif "chainable_undefined" in flags:
        opts["undefined"] = jinja2.ChainableUndefined
    if state is not None:
        base = cls

        class cls(base):  # counts cross-template references (extends / include / import pass the referring name)
            def join_path(self, template, parent):
                if template in state.precompiled and parent in state.precompiled:
                    state.xrefs += 1
                return base.join_path(self, template, parent)

    env = cls(loader=loader, enable_async=bool(cfg.get("async")), **opts)
    if "i18n" in flags:
        env.install_null_translations(newstyle=True)
    env.globals.update(globs)
    return env


_ALLOWED = None


def _allowed():
    global _ALLOWED
    if _ALLOWED is None:
        import jinja2

        # RecursionError: a G-stmt program can recurse without bound (recursive loop over a rebound variable)
        _ALLOWED = (jinja2.TemplateError, TypeError, ValueError, ArithmeticError, LookupError, AttributeError, RecursionError)
    return _ALLOWED


_ADDR = None


def observe(env, name, data, loop, with_module):
    """What a user sees of template ``name`` with ``data``: text or exception class, exported names, block names
    (object addresses a repr put into the text are normalised)."""
    global _ADDR
    if _ADDR is None:
        import re

        _ADDR = re.compile(r" at 0x[0-9a-fA-F]+")
    out = _observe(env, name, data, loop, with_module)
    for k in ("text", "body"):
        if k in out and " at 0x" in out[k]:
            out[k] = _ADDR.sub(" at 0x?", out[k])
    return out


def _observe(env, name, data, loop, with_module):
    from vt.gen import tsets

    out = {}
    try:
        args = tsets.decode_data(env, data)
        t = env.get_template(name)
        out["blocks"] = sorted(t.blocks)
        if env.is_async:
            out["text"] = loop.run_until_complete(t.render_async(args))
        else:
            out["text"] = t.render(args)
    except _allowed() as e:
        out["err"] = type(e).__name__
        return out
    if with_module:
        try:
            if env.is_async:
                mod = loop.run_until_complete(t.make_module_async(args))
            else:
                mod = t.make_module(args)
            out["exports"] = sorted(k for k in vars(mod) if k not in ("_body_stream", "__name__"))
            out["body"] = str(mod)
        except _allowed() as e:
            out["module_err"] = type(e).__name__
    return out


# ---------------------------------------------------------------------------------------
# precompilation


def _target(work, n, zip_mode):
    return os.path.join(work, "t%d.zip" % n if zip_mode else "t%d" % n)


def _stored_files(target, zip_mode):
    # (the members' compress_type is not judged: on this tree zip="deflated" stores the members uncompressed because
    # writestr() is handed a ZipInfo, whose own compress_type wins -- reported separately, it cannot change a render)
    if zip_mode:
        with zipfile.ZipFile(target) as z:
            return sorted(i.filename for i in z.infolist())
    return sorted(os.listdir(target))


def _compile(env, target, zip_mode, names, selected, broken):
    """compile_templates into target for the ``selected`` names; checks the produced file set."""
    import jinja2
    from jinja2.loaders import ModuleLoader

    sel = set(selected)
    log = []
    kw = {}
    if len(sel) != len(names):
        kw["filter_func"] = lambda n: n in sel
    if any(b in sel for b in broken):
        # documented: ignore_errors=False aborts with the syntax error
        try:
            env.compile_templates(target + ".abort" + (".zip" if zip_mode else ""), zip=zip_mode, ignore_errors=False, **kw)
        except jinja2.TemplateSyntaxError:
            pass
        else:
            raise core.Violation("compile_templates(ignore_errors=False) did not raise for the broken template(s) %r" % (broken,))
        env.compile_templates(target, zip=zip_mode, ignore_errors=True, log_function=log.append, **kw)
        for b in broken:
            if b in sel and not any(m.startswith('Could not compile "%s"' % b) for m in log):
                raise core.Violation("compile_templates(ignore_errors=True) did not log the broken template %r: %r" % (b, log))
    else:
        env.compile_templates(target, zip=zip_mode, ignore_errors=False, log_function=log.append, **kw)
    want = sorted(ModuleLoader.get_module_filename(n) for n in sel if n not in broken)
    got = _stored_files(target, zip_mode)
    if want != got:
        raise core.Violation(
            "compile_templates(zip=%r) wrote %r, expected one module per selected template %r (%r)" % (zip_mode, got, sorted(sel), want))
    return log


def _write_sources(srcdir, sources, mtime):
    shutil.rmtree(srcdir, ignore_errors=True)
    for name, text in sources.items():
        path = os.path.join(srcdir, *name.split("/"))
        os.makedirs(os.path.dirname(path), exist_ok=True)
        with open(path, "w", encoding="utf-8") as f:
            f.write(text)
        os.utime(path, (mtime, mtime))


def _purge_import_caches(work):
    import importlib
    import zipimport

    for k in [k for k in sys.path_importer_cache if isinstance(k, str) and k.startswith(work)]:
        sys.path_importer_cache.pop(k, None)
    zc = getattr(zipimport, "_zip_directory_cache", None)
    if zc is not None:
        for k in [k for k in zc if isinstance(k, str) and k.startswith(work)]:
            zc.pop(k, None)
    importlib.invalidate_caches()


def _registered_packages():
    return sorted(k for k in list(sys.modules) if k.startswith(_PKG_PREFIX))


class _State:
    """Counts loads through the module loader and references between precompiled templates."""

    def __init__(self):
        self.precompiled = set()
        self.xrefs = 0
        self.loads = 0


def _counting_loader_class(state):
    from jinja2.loaders import ModuleLoader

    class CountingModuleLoader(ModuleLoader):
        def load(self, environment, name, globals=None):
            t = ModuleLoader.load(self, environment, name, globals)
            state.loads += 1
            return t

    return CountingModuleLoader


def check_case(case):
    import jinja2

    cfg = case["cfg"]
    sources, group, datasets, broken, globs = build_sources(case)
    names = sorted(sources)
    good = [n for n in names if n not in broken]
    form, zip_mode, zip2 = cfg["form"], cfg.get("zip"), cfg.get("zip2")
    mask = cfg.get("mask", 0)
    subset = [n for i, n in enumerate(names) if (mask >> i) & 1]
    if form in ("split", "choice_mod_first", "choice_src_first", "override") and not subset:
        subset = names[:1]
    if form == "choice_src_first" and len(subset) == len(names):
        subset = subset[1:]  # leave something for the module loader
    before = _registered_packages()
    work = os.path.join(WORK, "c31-%d-%d" % (os.getpid(), next(_counter)))
    shutil.rmtree(work, ignore_errors=True)
    os.makedirs(work)
    state = _State()
    loop = asyncio.new_event_loop()
    labels = ["zip_%s" % zip_mode, "form_" + form, "async" if cfg.get("async") else "sync"]
    labels += ["flag_" + f for f in cfg.get("flags") or ()]
    labels += ["kind_" + (case["ir"]["kind"] if case.get("ir") else "none")]
    if case.get("prog"):
        labels.append("with_prog")
        if case["prog"].get("rename"):
            labels.append("prog_renamed")
    if case.get("raw"):
        labels.append("with_raw")
    if case.get("rename"):
        labels.append("renamed")
    if broken:
        labels.append("broken_template")
    try:
        rebuild = cfg.get("rebuild")
        if rebuild:
            # sources on disk (FileSystemLoader reports real file names and mtimes); an EARLIER build -- other options and/or
            # other sources -- is written into the same target first; the sources of the real build carry timestamps
            # older than that earlier build's modules (restored backup / checkout / cp -p)
            srcdir = os.path.join(work, "src")
            labels.append("rebuild_stale_sources" if rebuild.get("stale") else "rebuild_other_options")
            compile_env = make_env(jinja2.FileSystemLoader(srcdir), cfg, globs)
            env1 = make_env(jinja2.FileSystemLoader(srcdir), dict(cfg, flags=rebuild["flags1"]), globs)
            stale = {n: (src if n in broken else "OLD-BUILD " + src) for n, src in sources.items()} if rebuild.get("stale") else sources

            def build(target, zm, selected):
                _write_sources(srcdir, stale, 1000000000)
                _compile(env1, target, zm, names, selected, broken)
                _write_sources(srcdir, sources, 1100000000)
                _compile(compile_env, target, zm, names, selected, broken)
        else:
            compile_env = make_env(jinja2.DictLoader(dict(sources)), cfg, globs)

            def build(target, zm, selected):
                _compile(compile_env, target, zm, names, selected, broken)

        ref_sources = {n: sources[n] for n in good}
        ovr_sources = {n: "OVR:" + sources[n] for n in subset if n in ref_sources} if form == "override" else {}

        def ref_loader():
            if form == "override":  # the source counterpart of two module targets searched in the given order
                return jinja2.ChoiceLoader([jinja2.DictLoader(dict(ovr_sources)), jinja2.DictLoader(dict(ref_sources))])
            return jinja2.DictLoader(dict(ref_sources))

        src_env = make_env(ref_loader(), cfg, globs)
        ML = _counting_loader_class(state)
        t1 = _target(work, 1, zip_mode)
        precompiled = set(good)
        if form == "split":
            t2 = _target(work, 2, zip2)
            rest = [n for n in names if n not in subset]
            build(t1, zip_mode, subset)
            build(t2, zip2, rest)
            loader = ML([t1, pathlib.Path(t2)])
            labels.append("zip2_%s" % zip2)
        elif form == "override":
            # a second target with overriding versions of some templates, listed FIRST; its path sorts before or after the
            # default target's path (mask bit 0)
            build(t1, zip_mode, names)
            t_ovr = _target(work, 9 if mask & 1 else 0, zip2)
            if ovr_sources:
                _compile(make_env(jinja2.DictLoader(dict(ovr_sources)), cfg, globs), t_ovr, zip2, sorted(ovr_sources), sorted(ovr_sources), [])
            elif not zip2:
                os.makedirs(t_ovr)
            else:
                zipfile.ZipFile(t_ovr, "w").close()
            loader = ML([t_ovr, pathlib.Path(t1)])
            labels.append("override_sorts_%s" % ("last" if mask & 1 else "first"))
        elif form == "choice_mod_first":
            build(t1, zip_mode, subset)
            precompiled = set(subset) - set(broken)
            loader = jinja2.ChoiceLoader([ML(t1), jinja2.DictLoader(dict(ref_sources))])
        elif form == "choice_src_first":
            build(t1, zip_mode, names)
            precompiled = set(good) - set(subset)
            loader = jinja2.ChoiceLoader([jinja2.DictLoader({n: ref_sources[n] for n in subset if n in ref_sources}), ML([t1])])
        else:
            build(t1, zip_mode, names)
            if form == "path":
                loader = ML(t1)
            elif form == "pathlike":
                loader = ML(pathlib.Path(t1))
            elif form == "list1":
                loader = ML([t1])
            else:
                empty = os.path.join(work, "empty")
                os.makedirs(empty)
                loader = ML([empty, pathlib.Path(t1)])
        state.precompiled = precompiled
        mod_env = make_env(loader, cfg, globs, state)
        pairs = [("", src_env, mod_env)]
        if cfg.get("shared"):
            # ONE loader instance serves a second environment that differs in render-time configuration only (undefined
            # type, values of the globals); both load every template (B after A) before anything renders
            labels.append("shared_loader")
            flags_b = [f for f in cfg.get("flags") or () if not f.endswith("_undefined")]
            if "debug_undefined" not in (cfg.get("flags") or ()):
                flags_b.append("debug_undefined")
            cfg_b = dict(cfg, flags=flags_b)
            globs_b = {k: (v + "-B" if isinstance(v, str) else v) for k, v in globs.items()}
            globs_b["zz_only_b"] = "B"
            src_env_b = make_env(ref_loader(), cfg_b, globs_b)
            mod_env_b = make_env(loader, cfg_b, globs_b, state)
            for name in names:
                for e in (mod_env, mod_env_b):
                    try:
                        e.get_template(name)
                    except _allowed():
                        pass
            pairs.append((" (second environment on the same loader)", src_env_b, mod_env_b))

        nerr = 0
        for name, (which, src_env, mod_env) in [(n, p) for n in names for p in pairs]:
            ds = datasets[group[name]]
            for di, data in enumerate(ds):
                exp = observe(src_env, name, data, loop, di == 0)
                got = observe(mod_env, name, data, loop, di == 0)
                if "err" in exp:
                    nerr += 1
                    labels.append("err_" + exp["err"])
                if exp != got:
                    raise core.Violation(
                        "template %r%s, data %r: source loading gives %r, ModuleLoader (%s, zip=%r, flags=%r, async=%r, rebuild=%r) gives %r\n  %s"
                        % (name, which, data, exp, form, zip_mode, cfg.get("flags"), bool(cfg.get("async")), cfg.get("rebuild"), got,
                           "\n  ".join("%s: %s" % kv for kv in sorted(sources.items()))),
                        expected=exp, observed=got, sources=sources,
                    )
        for b in broken:
            # a template that could not be compiled is simply not there
            if form != "choice_mod_first" and form != "choice_src_first":
                try:
                    mod_env.get_template(b)
                except jinja2.TemplateNotFound:
                    pass
                else:
                    raise core.Violation("broken template %r is loadable from the module loader" % b)
        if state.loads == 0:
            labels.append("nothing_loaded_from_modules")  # e.g. every render failed while decoding Template objects
        labels.append("xref" if state.xrefs else "no_xref")
        if nerr == 0:
            labels.append("all_rendered")
        nontrivial = state.xrefs > 0 and state.loads > 0
    finally:
        try:
            loop.run_until_complete(loop.shutdown_asyncgens())  # generators a failed async render left behind
            loop.run_until_complete(asyncio.sleep(0))
        finally:
            loop.close()
        # drop everything that keeps the loaders alive, then the import system's view of the scratch paths
        compile_env = src_env = mod_env = loader = ML = env1 = build = pairs = None  # noqa: F841
        src_env_b = mod_env_b = e = None  # noqa: F841
        state = None
        _purge_import_caches(work)
        shutil.rmtree(work, ignore_errors=True)
    gc.collect()
    leaked = [k for k in _registered_packages() if k not in before]
    if leaked:
        raise core.Violation("ModuleLoader packages still registered in sys.modules after their loaders were dropped: %r" % leaked)
    return core.Outcome(nontrivial, labels)


# ---------------------------------------------------------------------------------------
# generator

RAW_DATA = [
    {"items": [3, 1, 2], "user": {"name": "<Ann>", "age": 30}, "n": 7, "html": "<b>&</b>", "words": ["b", "A", "c"],
     "rows": [{"k": "x", "v": 1}, {"k": "y", "v": 2}, {"k": "x", "v": 3}], "tree": [1, [2, [3]], 4], "flag": True},
    {"items": [], "user": {"name": "bob"}, "n": 0, "html": "", "words": [], "rows": [], "tree": [], "flag": False},
]

# (required flag or None, source)
SNIPPETS = [
    (None, "{{ items|sort|join(',') }}{{ items|sum }}{{ items|length }}"),
    (None, "{{ user.name }}{{ user['name']|upper }}{{ user.missing|default('dflt') }}"),
    (None, "{{ html }}{{ html|safe }}{{ html|e }}{{ html|striptags }}"),
    (None, "{% autoescape true %}{{ html }}{{ '<i>' ~ html }}{% endautoescape %}{% autoescape false %}{{ html }}{% endautoescape %}"),
    (None, "{% macro m(a, b=2) %}[{{ a }}{{ b }}{{ varargs }}{{ kwargs|dictsort }}]{% endmacro %}{{ m(1) }}{{ m(1, 3, 4, k=5) }}"),
    (None, "{% macro w(t) %}<{{ caller(t) }}>{% endmacro %}{% call(x) w(n) %}{{ x }}{{ html }}{% endcall %}"),
    (None, "{% for x in tree recursive %}{% if x is iterable %}({{ loop(x) }}){% else %}{{ x }}{{ loop.depth }}{% endif %}{% endfor %}"),
    (None, "{% for x in items %}{{ loop.index }}{{ loop.cycle('a', 'b') }}{{ loop.changed(x) }}{% if loop.last %}!{% endif %}{% else %}none{% endfor %}"),
    (None, "{% set ns = namespace(c=0) %}{% for x in items %}{% set ns.c = ns.c + x %}{% endfor %}{{ ns.c }}"),
    (None, "{% set c = cycler(1, 2) %}{% set j = joiner('|') %}{% for x in words %}{{ j() }}{{ c.next() }}{{ x }}{% endfor %}"),
    (None, "{% for k, g in rows|groupby('k') %}{{ k }}={{ g|map(attribute='v')|list }}{% endfor %}"),
    (None, "{{ rows|selectattr('v', 'gt', 1)|map(attribute='k')|join }}{{ rows|rejectattr('v', 'odd')|list|length }}"),
    (None, "{{ n is divisibleby 7 }}{{ n is odd }}{{ n is defined }}{{ zz is undefined }}{{ n in items }}{{ 1 < n <= 7 }}"),
    (None, "{{ words|map('upper')|list }}{{ words|batch(2, '-')|list }}{{ words|first }}{{ words|last }}"),
    (None, "{{ user|tojson }}{{ user|xmlattr }}{{ 'http://x.y/?a=<b>'|urlize }}{{ '%s-%s'|format(n, html) }}"),
    (None, "{% filter upper %}{{ html }}x{% endfilter %}{% set blk %}[{{ n }}]{% endset %}{{ blk }}{% set fb | length %}abc{% endset %}{{ fb }}"),
    (None, "{% raw %}{{ not }} {% evaluated %}{% endraw %}{# comment #}{{ '{{' }}"),
    (None, "{% with a = n, b = html %}{{ a }}{{ b }}{% endwith %}{{ a is defined }}"),
    (None, "{% do items.append(9) if false %}{% for x in range(5) %}{% if x == 3 %}{% break %}{% endif %}{% if x == 1 %}{% continue %}{% endif %}{{ x }}{% endfor %}"),
    (None, "{{ items[1:] }}{{ items[::-1] }}{{ (1, 2) }}{{ {'a': n} }}{{ -n + 2 ** 3 // 2 % 5 }}{{ 'a' if flag }}{{ 'y' if flag else 'n' }}"),
    (None, "{% block one %}B1{{ n }}{% endblock %}{{ self.one() }}{% block two scoped %}{{ html }}{% endblock %}"),
    (None, "{% if flag %}T{% elif n %}N{% else %}E{% endif %}{{ flag and n or html }}{{ not flag }}"),
    (None, "{{ dict(a=1, b=n)|items|list }}{{ range(3)|list }}{{ words|unique|list }}{{ items|reverse|list }}{{ items|max if items }}"),
    (None, "{{ html|replace('<', '[')|truncate(5)|center(9)|indent(2) }}{{ n|string|int|float|round(1)|abs }}{{ n|filesizeformat }}"),
    (None, "{{ none }}|{{ 2.5 }}|{{ 1 + 1 }}|{{ [1, none] }}|{{ true }}|{{ 7 }}|{{ -0.5 }}|{{ (none, 1.0) }}|{{ {'k': none} }}|{{ 'txt' }}|{{ 3 // 2 }}"),
    (None, "a{{ none }}b{{ 10 / 4 }}c{{ n }}d{{ zz }}e{{ none if flag else 1.5 }}f{{ 2 ** 3 }}g{{ items|length }}h{{ 1.0 * n }}i{{ none|default(none) }}"),
    (None, "{% set größe = items|length %}Größe: {{ größe }} – {% for stück in items %}[{{ stück }}]{% endfor %}"
           "{% macro preis(betrag, währung='€') %}{{ betrag }} {{ währung }}{% endmacro %}{{ preis(5, währung='CHF') }}{{ preis(n) }}Übersicht"),
    (None, "{% with 名前 = user.name, α = n %}{{ 名前 }}{{ α + 1 }}{% endwith %}{% set ns2 = namespace(é=1) %}{% set ns2.é = ns2.é + n %}{{ ns2.é }}"
           "{{ dict(ключ=n)|items|list }}{{ 'ß→' ~ html }}"),
    ("i18n", "{% trans %}Hello {{ n }}{% endtrans %}{% trans c=items|length %}one {{ c }}{% pluralize %}many {{ c }}{% endtrans %}{{ _('x<y') }}"),
    ("i18n", "{% trans user=user.name %}Hi {{ user }} 100%{% endtrans %}{{ gettext('%(a)s!', a=html) }}{{ ngettext('%(num)d a', '%(num)d b', n) }}"),
]

PLAIN_VARS = ("x", "y", "i", "v", "w", "q", "a", "p0", "c0", "g")
CONST_SNIPPETS = [i for i, (_, src) in enumerate(SNIPPETS) if src.startswith(("{{ none }}|", "a{{ none }}b"))]
NAME_PATTERNS = ("dir/%s.html", "%s.j2", "ü%sß", "{%s}", "%s %s", "a/b/c/%s", "%s.html", "T%s")


def _strategy(tier_sizes):
    from hypothesis import strategies as st

    from vt.gen import stmt as G
    from vt.gen import tsets

    hdepth, hblocks, size, pdepth, pnodes = tier_sizes

    @st.composite
    def cases(draw):
        kind = draw(st.sampled_from(["inherit", "modules", "modules", "inherit", "raw_only"]))
        case = {"ir": None, "data": [], "prog": None, "raw": None, "rename": {}, "cfg": {}}
        flags = []
        # environment flags: usually few
        nflags = draw(st.sampled_from([0, 0, 1, 1, 1, 2, 2, 3]))
        for _ in range(nflags):
            f = draw(st.sampled_from(FLAGS))
            if f not in flags:
                flags.append(f)
        if kind == "inherit":
            base = draw(tsets.hierarchies(max_depth=hdepth, max_blocks=hblocks, size=size))
        elif kind == "modules":
            base = draw(tsets.module_sets(max_libs=3, size=size))
        else:
            base = None
        if base is not None:
            case["ir"] = base["ir"]
            d1 = base["data"]
            d2 = dict(d1)
            for k in sorted(d1):
                v = d1[k]
                if isinstance(v, bool) and draw(st.integers(0, 2)) == 0:
                    d2[k] = not v  # extends flags: another parent, or a missing one
                elif isinstance(v, str) and k in PLAIN_VARS and draw(st.integers(0, 2)) == 0:
                    d2[k] = draw(st.sampled_from(["<other>", "", "Z", "7"]))
            for k in PLAIN_VARS:
                if k not in d1 and draw(st.integers(0, 3)) == 0:
                    d2[k] = draw(st.sampled_from(["d2-" + k, "<&>", True, 0]))
                elif k in d1 and draw(st.integers(0, 5)) == 0:
                    del d2[k]
            case["data"] = [d1, d2]
        if kind == "raw_only" or draw(st.integers(0, 2)) == 0:
            prog = draw(G.programs(max_depth=pdepth, max_nodes=pnodes, errors=draw(st.integers(0, 3)) == 0))
            case["prog"] = {"prog": prog, "data": draw(G.datas(2))}
            if draw(st.booleans()):
                # identifiers renamed consistently into ASCII / Python-keyword / generated-code-like / dunder / non-ASCII names
                case["prog"]["rename"] = draw(G.renamings(prog, extra=G.VARS))
        pool = [i for i, (need, _) in enumerate(SNIPPETS) if need is None or need in flags]
        idx = draw(st.lists(st.sampled_from(pool), min_size=1 if kind == "raw_only" else 0, max_size=5, unique=True))
        if any(f.startswith("finalize") for f in flags):
            # a finalize function matters for constants of several types, most of all under autoescape
            if "autoescape" not in flags and "autoescape_fn" not in flags and draw(st.integers(0, 2)) > 0:
                flags.append("autoescape")
            for i in CONST_SNIPPETS:
                if i not in idx and (draw(st.integers(0, 3)) > 0):
                    idx.append(i)
        if idx:
            raw = {"feat": "".join(SNIPPETS[i][1] for i in idx)}
            if case["ir"] is None or draw(st.booleans()):
                raw["featu"] = "{% extends 'feat' %}{% block one %}override{{ super() }}{% endblock %}" if "block one" in raw["feat"] \
                    else "{% include 'feat' %}|{% import 'feat' as F %}{{ F.m(n) if F.m is defined }}"
            case["raw"] = {"templates": raw, "data": copy.deepcopy(RAW_DATA)}
        # renaming of template names
        all_names = sorted((case["ir"] or {"templates": {}})["templates"]) + (["prog", "progu"] if case["prog"] else []) \
            + sorted((case["raw"] or {"templates": {}})["templates"])
        if draw(st.integers(0, 2)) == 0:
            ren = {}
            for n in all_names:
                if draw(st.booleans()):
                    pat = draw(st.sampled_from(NAME_PATTERNS))
                    ren[n] = pat % ((n,) * pat.count("%s"))
            # the wrapper sources of raw templates mention 'feat' literally: keep raw names
            for n in ("feat", "featu"):
                ren.pop(n, None)
            case["rename"] = ren
        form = draw(st.sampled_from(FORMS))
        case["cfg"] = {
            "zip": draw(st.sampled_from(ZIPS)), "zip2": draw(st.sampled_from(ZIPS)), "form": form,
            "mask": draw(st.integers(0, 2 ** len(all_names) - 1)) if form in ("split", "choice_mod_first", "choice_src_first", "override") else 0,
            "async": draw(st.integers(0, 2)) == 0, "flags": flags,
            "shared": 40 <= draw(st.integers(0, 99)) < 62,  # (Hypothesis favours the ends of an integer range)
            "rebuild": None,
        }
        if 30 <= draw(st.integers(0, 99)) < 55:
            toggled = draw(st.lists(st.sampled_from(["autoescape", "ws", "finalize", "unoptimized"]), min_size=1, max_size=2, unique=True))
            stale = draw(st.booleans())
            flags1 = [f for f in flags if f not in toggled] + [f for f in toggled if f not in flags]
            case["cfg"]["rebuild"] = {"flags1": flags if (stale and draw(st.booleans())) else flags1, "stale": stale}
            if draw(st.integers(0, 3)) > 0:
                case["cfg"]["zip"] = None  # the interesting target for a rebuild is a directory
                case["cfg"]["zip2"] = None
        return case

    return cases()


def _warm():
    """check_case ends with a full gc.collect() (ModuleLoader's package sits in a reference cycle, only the collector
    frees it); freezing the long-lived objects of the worker keeps that collection cheap."""
    import hypothesis  # noqa: F401
    import jinja2  # noqa: F401
    import jinja2.ext  # noqa: F401
    import jinja2.sandbox  # noqa: F401

    gc.collect()
    gc.freeze()


def _sweep_stale():
    """Remove scratch directories of workers that were killed in the middle of a case (early-stop runs terminate the pool)."""
    try:
        entries = os.listdir(WORK)
    except OSError:
        return
    for d in entries:
        parts = d.split("-")
        if len(parts) == 3 and parts[0] == "c31" and parts[1].isdigit():
            try:
                os.kill(int(parts[1]), 0)
            except ProcessLookupError:
                shutil.rmtree(os.path.join(WORK, d), ignore_errors=True)
            except OSError:
                pass


def shards(tier):
    _sweep_stale()
    return [{"i": i} for i in range(16)]


def run_shard(spec, ctx):
    import hypothesis.errors

    n = ctx.pick(320, 3600)  # measured ~100 ms CPU per case (quick sizes), ~140 ms (thorough sizes)
    strat = _strategy(ctx.pick((3, 4, 3, 3, 14), (4, 5, 4, 4, 30)))
    rec = core.Rec()
    chunk = 3000
    done = 0
    os.makedirs(WORK, exist_ok=True)
    _warm()
    while done < n and not rec.violations:
        m = min(chunk, n - done)
        nviol = len(rec.violations)
        try:
            core.hyp_shard(strat, check_case, ctx, m, rec=rec, tag="sets-%d" % done)
        except hypothesis.errors.Flaky:
            # a failure that did not repeat when Hypothesis replayed the case (state kept in the process, or a thread
            # schedule): the violation was observed and recorded by Rec.run -- report the first one, unshrunk
            if len(rec.violations) == nviol:
                raise
            del rec.violations[nviol + 1:]
        done += m
    return rec


FLOORS = {
    "xref": 0.5, "zip_None": 0.15, "zip_stored": 0.15, "zip_deflated": 0.15, "async": 0.15, "kind_inherit": 0.15,
    "kind_modules": 0.15, "with_prog": 0.15, "with_raw": 0.3, "renamed": 0.1, "err_TemplateNotFound": 0.01,
    "form_split": 0.05, "form_override": 0.05, "form_choice_mod_first": 0.05, "form_choice_src_first": 0.05, "form_list_empty_first": 0.05,
    "shared_loader": 0.08, "rebuild_stale_sources": 0.04, "rebuild_other_options": 0.04, "flag_sandbox": 0.02, "flag_autoescape": 0.02, "flag_i18n": 0.02, "broken_template": 0.005,
}


def floors(total, tier):
    n = max(total.evaluations, 1)
    low = ["%s=%d" % (k, total.labels.get(k, 0)) for k, f in FLOORS.items() if total.labels.get(k, 0) < f * n * 0.5]
    if low:
        return "classes below floor: " + ", ".join(low)
    return None
