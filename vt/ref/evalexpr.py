"""Reference evaluator for the expression IR of ``vt.gen.expr`` (DESIGN.md section 3.1 / 3.7).

Written from docs/templates.rst ("Expressions", "Notes on subscriptions", "If Expression"), the
docstrings of the built-in filters / tests and the Undefined docstring.  It never imports
``jinja2.filters`` / ``jinja2.tests`` / ``jinja2.runtime``; it works on plain Python values
(``vt.gen.data`` objects, ``markupsafe.Markup``) with Python's own operators.

Public API
----------
``eval_expr(node, scope, **options) -> value``
    raises ``RefError(kind)`` when the documented semantics is an error; kind is one of
    ``undefined`` (UndefinedError) ``type`` ``zerodiv`` ``value`` ``overflow`` ``lookup`` (KeyError / IndexError
    raised by a Python operator method, e.g. ``'%(k)s' % d``);
    raises ``RefDecline(reason)`` when the documentation does not determine the outcome (or a size bound of
    the harness is exceeded): the case must not be judged.
``static_check(node)``
    raises ``RefExcluded`` for the input class of a listed known finding and ``RefDecline`` when a *constant* sub-expression (one the optimizer may fold at compile time even if
    it is never evaluated at run time) exceeds the magnitude bounds (known finding F19: never executed).
``RefUndefined``
    reference model of the default ``Undefined`` (documented table: str '' / iteration empty / false / len 0 /
    equal to other undefined values / every other operation raises).
``FILTERS`` / ``TESTS``
    reference tables ``name -> function(evaluator, value, *args, **kwargs)``.

Options of ``eval_expr``: ``intercept_bin`` / ``intercept_un`` (sets of operator strings) and ``hook(kind, op,
operands, real_function) -> value`` model the sandbox operator interception of C20; ``trace`` (a set) collects labels
(``attr_item_conflict``, ``undefined_operand``, ``short_circuit``, ``lookup_undefined``...).
"""
import math
import operator

from markupsafe import Markup, escape

from vt.gen.data import Fn, Obj

MAX_INT_BITS = 2048     # ints beyond this are not produced (F18 / F19 stay out of reach)
MAX_LEN = 5000          # strings / lists beyond this are not produced
MAX_RANGE = 2000


class RefError(Exception):
    def __init__(self, kind, msg=""):
        super().__init__("%s: %s" % (kind, msg))
        self.kind = kind


class RefDecline(Exception):
    """The documented semantics does not decide this case (or a harness bound is exceeded)."""


class RefExcluded(Exception):
    """The tree falls in the input class of a listed known finding (args[0] = finding id)."""


# Known findings whose input class static_check() excludes by construction; set to True when the fix is in /repo.
F29_FIXED = True    # constant slice of a constant that cannot be sliced is folded to undefined (runtime: TypeError)


def _undef(*_a, **_k):
    raise RefError("undefined", "operation on an undefined value")


class RefUndefined:
    """Default undefined value as documented (api.rst "Undefined Types", Undefined docstring)."""

    __slots__ = ("name",)

    def __init__(self, name=None):
        self.name = name

    def __str__(self):
        return ""

    def __repr__(self):
        return "Undefined"

    def __iter__(self):
        return iter(())

    def __bool__(self):
        return False

    def __len__(self):
        return 0

    def __eq__(self, other):
        return type(self) is type(other)

    def __ne__(self, other):
        return not self.__eq__(other)

    def __hash__(self):
        return id(type(self))

    def __contains__(self, item):
        return False

    __add__ = __radd__ = __sub__ = __rsub__ = __mul__ = __rmul__ = __truediv__ = __rtruediv__ = _undef
    __floordiv__ = __rfloordiv__ = __mod__ = __rmod__ = __pow__ = __rpow__ = _undef
    __pos__ = __neg__ = __call__ = __getitem__ = __lt__ = __le__ = __gt__ = __ge__ = _undef
    __int__ = __float__ = __complex__ = _undef

    def __getattr__(self, name):
        if name[:2] == "__" and name[-2:] == "__":
            raise AttributeError(name)
        _undef()


def is_undefined(v):
    return isinstance(v, RefUndefined)


# ---------------------------------------------------------------------------------------------------
# bounded arithmetic


def _chk(v):
    if type(v) is int:
        if v.bit_length() > MAX_INT_BITS:
            raise RefDecline("integer magnitude bound")
    elif isinstance(v, (str, list, tuple)):
        if len(v) > MAX_LEN:
            raise RefDecline("length bound")
    return v


def _isint(v):
    return isinstance(v, int)


_PLAIN = (type(None), bool, int, float, complex, str, Obj, Fn, RefUndefined, range)


def stringable(v):
    """False when str()/repr() of the value shows a memory address (bound methods, iterators...): text
    derived from such a value is not determined by the semantics."""
    if isinstance(v, _PLAIN):
        return True
    if isinstance(v, (list, tuple)):
        return all(stringable(x) for x in v)
    if isinstance(v, dict):
        return all(stringable(k) and stringable(x) for k, x in v.items())
    return False


def _s(v):
    """str(v) as every documented string conversion does it; declines address-bearing representations."""
    if not stringable(v):
        raise RefDecline("string conversion of an object whose repr holds an address")
    return v if type(v) is str else str(v)


def _pow(a, b):
    if _isint(a) and _isint(b) and b > 0 and abs(a) > 1 and abs(int(a)).bit_length() * int(b) > MAX_INT_BITS:
        raise RefDecline("integer magnitude bound (**)")
    return a ** b


def _mul(a, b):
    for x, y in ((a, b), (b, a)):
        if isinstance(x, (str, list, tuple)) and _isint(y) and len(x) * int(y) > MAX_LEN:
            raise RefDecline("length bound (*)")
    return a * b


def _mod(a, b):
    if isinstance(a, str):
        if not stringable(b):
            raise RefDecline("formatting an object whose repr holds an address")
        # printf-style formatting: a width / precision inside the format can make the result huge
        digits = 0
        for ch in a:
            digits = digits + 1 if ch.isdigit() else 0
            if digits > 3:
                raise RefDecline("format width bound")
        if "*" in a:
            raise RefDecline("format width bound")
    return a % b


BINOPS = {
    "+": operator.add, "-": operator.sub, "*": _mul, "/": operator.truediv, "//": operator.floordiv,
    "%": _mod, "**": _pow,
}
UNOPS = {"+": operator.pos, "-": operator.neg}
CMPOPS = {
    "==": operator.eq, "!=": operator.ne, "<": operator.lt, "<=": operator.le, ">": operator.gt, ">=": operator.ge,
    "in": lambda a, b: a in b, "notin": lambda a, b: a not in b,
}


def _ref_range(*args):
    r = range(*args)
    if len(r) > MAX_RANGE:
        raise RefDecline("range bound")
    return r


GLOBALS = {"range": _ref_range, "dict": dict}

# ---------------------------------------------------------------------------------------------------
# reference tables for filters (docstrings of the built-in filters; autoescape off)


def _plain_str_operand(v, what):
    """String filters: the docs define them on strings / values converted to strings; what they return for a
    Markup operand (Markup or str) is not stated -> decline."""
    if isinstance(v, Markup):
        raise RefDecline("%s of Markup: result type not documented" % what)
    return v if isinstance(v, str) else _s(v)


def _ignore_case(case_sensitive):
    if case_sensitive:
        return lambda x: x
    return lambda x: x.lower() if isinstance(x, str) else x


def f_abs(ev, x):
    if is_undefined(x):
        raise RefDecline("abs of undefined")
    return abs(x)


def f_attr(ev, obj, name):
    if is_undefined(obj) or not isinstance(name, str) or name.startswith("_"):
        raise RefDecline("attr filter outside the documented domain")
    try:
        return getattr(obj, name)
    except AttributeError:
        ev.note("lookup_undefined")
        return RefUndefined(name)


def f_capitalize(ev, s):
    s = _plain_str_operand(s, "capitalize")
    want = s[:1].upper() + s[1:].lower()   # "The first character will be uppercase, all others lowercase."
    if want != s.capitalize():
        raise RefDecline("capitalize: title-case vs upper-case first character")
    return want


def f_center(ev, s, width=80):
    s = _plain_str_operand(s, "center")
    if _isint(width) and width > 500:
        raise RefDecline("width bound")
    return s.center(width)


def f_length(ev, x):
    return len(x)


def f_default(ev, value, default_value="", boolean=False):
    if is_undefined(value) or (boolean and not value):
        return default_value
    return value


def f_escape(ev, x):
    if not stringable(x):
        raise RefDecline("escape of an object whose repr holds an address")
    return escape(x)


def f_first(ev, seq):
    for x in seq:
        return x
    raise RefDecline("first of an empty sequence")


def f_last(ev, seq):
    for x in reversed(seq):
        return x
    raise RefDecline("last of an empty sequence")


def f_float(ev, value, default=0.0):
    try:
        return float(value)
    except (TypeError, ValueError, OverflowError):
        return default


def _parses_as_float(s):
    try:
        float(s)
        return True
    except (TypeError, ValueError, OverflowError):
        return False


def f_int(ev, value, default=0, base=10):
    """'Convert the value into an integer.  If the conversion doesn't work it will return 0 [default]...  base ...
    handles input with prefixes such as 0b, 0o and 0x ...  The base is ignored for decimal numbers and non-string
    values.'"""
    if is_undefined(value):
        return int(value)  # raises: undefined values fail in every numeric conversion
    if isinstance(value, str):
        try:
            return int(value, base)
        except TypeError:
            raise RefDecline("int: base of a non-integer type")
        except ValueError:
            if _parses_as_float(value):
                raise RefDecline("int of a float-looking string: 'conversion works' is not defined by the docs")
            return default
    try:
        return _chk(int(value))
    except (TypeError, ValueError, OverflowError):
        if _parses_as_float(value):
            return default if not math.isfinite(float(value)) else _decline("int: object with __float__ only")
        return default


def _decline(msg):
    raise RefDecline(msg)


def f_format(ev, value, *args, **kwargs):
    if args and kwargs:
        raise RefDecline("format with both positional and keyword arguments")
    value = _plain_str_operand(value, "format")
    return _chk(_mod(value, kwargs or args))


def f_items(ev, value):
    if is_undefined(value):
        return iter(())
    if not isinstance(value, dict):
        raise RefError("type", "items of a non-mapping")
    return iter(value.items())


def f_join(ev, value, d="", attribute=None):
    if attribute is not None:
        raise RefDecline("join(attribute=) not modelled")
    return _s(d).join([_s(x) for x in value])


def f_list(ev, value):
    return list(value)


def f_lower(ev, s):
    return _plain_str_operand(s, "lower").lower()


def f_upper(ev, s):
    return _plain_str_operand(s, "upper").upper()


def _min_max(func, value, case_sensitive, attribute):
    if attribute is not None:
        raise RefDecline("min/max(attribute=) not modelled")
    items = list(value)
    if not items:
        raise RefDecline("min/max of an empty sequence")
    return func(items, key=_ignore_case(case_sensitive))


def f_min(ev, value, case_sensitive=False, attribute=None):
    return _min_max(min, value, case_sensitive, attribute)


def f_max(ev, value, case_sensitive=False, attribute=None):
    return _min_max(max, value, case_sensitive, attribute)


def f_replace(ev, s, old, new, count=None):
    if isinstance(s, Markup) or isinstance(old, Markup) or isinstance(new, Markup):
        raise RefDecline("replace with Markup: result type not documented")
    if is_undefined(old) or is_undefined(new):
        raise RefDecline("replace with undefined arguments")
    s, old, new = (x if isinstance(x, str) else _s(x) for x in (s, old, new))
    if count is None:
        count = -1
    if (len(s) + 1) * max(1, len(new)) > MAX_LEN:
        raise RefDecline("length bound")
    return s.replace(old, new, count)


def f_reverse(ev, value):
    if isinstance(value, str):
        if isinstance(value, Markup):
            raise RefDecline("reverse of Markup")
        return value[::-1]
    try:
        return reversed(value)
    except TypeError:
        try:
            return list(value)[::-1]
        except TypeError:
            raise RefDecline("reverse of a non-iterable: error class not documented")


def f_safe(ev, value):
    if not stringable(value):
        raise RefDecline("safe of an object whose repr holds an address")
    return Markup(value)


def f_sort(ev, value, reverse=False, case_sensitive=False, attribute=None):
    if attribute is not None:
        raise RefDecline("sort(attribute=) not modelled")
    items = list(value)
    key = _ignore_case(case_sensitive)
    try:
        return sorted(items, key=key, reverse=reverse)
    except Exception as first:  # TypeError, or the reference undefined refusing '<'
        # "Sort an iterable using Python's sorted": equal but unorderable items ([None, None], two undefined
        # values of the same type) make sorted() raise, unless the (unspecified) key function wraps them - Python
        # compares containers by identity/equality first.  Only an error that every such key function gives is claimed.
        try:
            sorted(items, key=lambda x: [key(x)], reverse=reverse)
        except Exception:
            raise first from None
        raise RefDecline("sort of equal unorderable items: depends on the unspecified key function")


def f_dictsort(ev, value, case_sensitive=False, by="key", reverse=False):
    if not isinstance(value, dict) or by not in ("key", "value"):
        raise RefDecline("dictsort outside the documented domain")
    pos = 0 if by == "key" else 1
    key = _ignore_case(case_sensitive)
    return sorted(value.items(), key=lambda kv: key(kv[pos]), reverse=reverse)


def f_string(ev, value):
    return value if isinstance(value, str) else _s(value)


def f_sum(ev, iterable, attribute=None, start=0):
    if attribute is not None:
        raise RefDecline("sum(attribute=) not modelled")
    if isinstance(start, bool) or not isinstance(start, (int, float)):
        raise RefDecline("sum: start is documented for numbers")
    total = start
    for x in iterable:
        if isinstance(x, str) or isinstance(x, (list, tuple, dict)):
            raise RefDecline("sum: documented for sequences of numbers")
        total = _chk(total + x)
    return total


def f_trim(ev, value, chars=None):
    return _plain_str_operand(value, "trim").strip(chars)


FILTERS = {
    "abs": f_abs, "attr": f_attr, "capitalize": f_capitalize, "center": f_center, "count": f_length,
    "length": f_length, "d": f_default, "default": f_default, "e": f_escape, "escape": f_escape,
    "first": f_first, "last": f_last, "float": f_float, "int": f_int, "format": f_format, "items": f_items,
    "join": f_join, "list": f_list, "lower": f_lower, "upper": f_upper, "min": f_min, "max": f_max,
    "replace": f_replace, "reverse": f_reverse, "safe": f_safe, "sort": f_sort, "dictsort": f_dictsort,
    "string": f_string, "sum": f_sum, "trim": f_trim,
}

# names for the "filter" / "test" tests: documented built-ins and names that certainly are none
KNOWN_FILTER_NAMES = set(FILTERS) | {"batch", "groupby", "map", "select", "title", "tojson", "truncate", "unique",
                                     "urlencode", "wordcount", "round", "indent", "striptags", "pprint", "random"}
NOT_FILTER_NAMES = {"", "nope", "markdown", "defined", "divisibleby", "Upper", "upper ", "sameas"}
NOT_TEST_NAMES = {"", "nope", "loud", "upper ", "Defined", "abs", "join", "default"}

# ---------------------------------------------------------------------------------------------------
# reference table for tests (docstrings of the built-in tests)


def _int_operand(v, what):
    if is_undefined(v):
        return v  # the arithmetic on it raises the undefined error
    if isinstance(v, bool) or not isinstance(v, int):
        raise RefDecline("%s is documented for integers" % what)
    return v


def t_odd(ev, v):
    return _int_operand(v, "odd") % 2 == 1


def t_even(ev, v):
    return _int_operand(v, "even") % 2 == 0


def t_divisibleby(ev, v, num):
    v = _int_operand(v, "divisibleby")
    if is_undefined(num) or isinstance(num, bool) or not isinstance(num, int) or num == 0:
        raise RefDecline("divisibleby is documented for a non-zero integer divisor")
    return v % num == 0


def t_defined(ev, v):
    return not is_undefined(v)


def t_undefined(ev, v):
    return is_undefined(v)


def _name_test(known, unknown):
    def test(ev, v):
        if isinstance(v, str) and not isinstance(v, Markup):
            if v in known:
                return True
            if v in unknown:
                return False
        raise RefDecline("filter/test existence of a name outside the transcribed lists")

    return test


def t_none(ev, v):
    return v is None


def t_boolean(ev, v):
    return v is True or v is False


def t_false(ev, v):
    return v is False


def t_true(ev, v):
    return v is True


def t_integer(ev, v):
    return isinstance(v, int) and not isinstance(v, bool)


def t_float(ev, v):
    return isinstance(v, float)


def t_lower(ev, v):
    return _s(v).islower()


def t_upper(ev, v):
    return _s(v).isupper()


def t_string(ev, v):
    return isinstance(v, str)


def t_mapping(ev, v):
    return isinstance(v, dict)


def t_number(ev, v):
    if isinstance(v, bool):
        raise RefDecline("'number' of a boolean is not documented")
    return isinstance(v, (int, float, complex))


def t_sequence(ev, v):
    if isinstance(v, (list, tuple, str, dict, range)):
        return True
    if v is None or isinstance(v, (bool, int, float)):
        return False
    raise RefDecline("'sequence' outside list/tuple/str/dict/scalars")


def t_sameas(ev, v, other):
    if other is None or other is True or other is False or v is None or v is True or v is False:
        return v is other
    raise RefDecline("identity of non-singleton values is an implementation detail")


def t_iterable(ev, v):
    try:
        iter(v)
    except TypeError:
        return False
    return True


def t_callable(ev, v):
    if is_undefined(v):
        raise RefDecline("callable of undefined")
    return callable(v)


def t_escaped(ev, v):
    if is_undefined(v):
        raise RefDecline("escaped of undefined")
    return hasattr(v, "__html__")


def _op_test(f):
    return lambda ev, a, b: f(a, b)


TESTS = {
    "odd": t_odd, "even": t_even, "divisibleby": t_divisibleby, "defined": t_defined, "undefined": t_undefined,
    "none": t_none, "boolean": t_boolean, "false": t_false, "true": t_true, "integer": t_integer, "float": t_float,
    "lower": t_lower, "upper": t_upper, "string": t_string, "mapping": t_mapping, "number": t_number,
    "sequence": t_sequence, "iterable": t_iterable, "callable": t_callable, "sameas": t_sameas,
    "escaped": t_escaped, "in": _op_test(lambda a, b: a in b),
    "eq": _op_test(operator.eq), "equalto": _op_test(operator.eq), "ne": _op_test(operator.ne),
    "gt": _op_test(operator.gt), "greaterthan": _op_test(operator.gt), "ge": _op_test(operator.ge),
    "lt": _op_test(operator.lt), "lessthan": _op_test(operator.lt), "le": _op_test(operator.le),
}
TESTS["filter"] = _name_test(KNOWN_FILTER_NAMES, NOT_FILTER_NAMES)
TESTS["test"] = _name_test(set(TESTS) | {"filter", "test"}, NOT_TEST_NAMES)


# ---------------------------------------------------------------------------------------------------
# the evaluator


class Evaluator:
    def __init__(self, scope, intercept_bin=(), intercept_un=(), hook=None, trace=None):
        self.scope = scope
        self.intercept_bin = frozenset(intercept_bin)
        self.intercept_un = frozenset(intercept_un)
        self.hook = hook
        self.trace = trace

    def note(self, label):
        if self.trace is not None:
            self.trace.add(label)

    # -- operators ---------------------------------------------------------------------------------
    def binop(self, op, a, b):
        f = BINOPS[op]
        if is_undefined(a) or is_undefined(b):
            self.note("undefined_operand")
        if op in self.intercept_bin:
            return _chk(self.hook("bin", op, (a, b), f))
        return _chk(f(a, b))

    def unop(self, op, a):
        f = UNOPS[op]
        if is_undefined(a):
            self.note("undefined_operand")
        if op in self.intercept_un:
            return _chk(self.hook("un", op, (a,), f))
        return _chk(f(a))

    # -- lookups (templates.rst, "Notes on subscriptions") ----------------------------------------------
    def getattr(self, obj, name):
        """foo.bar: attribute, then item, then undefined."""
        conflict = self._conflict(obj, name)
        try:
            return getattr(obj, name)
        except AttributeError:
            pass
        try:
            return obj[name]
        except (TypeError, LookupError, AttributeError):
            self.note("lookup_undefined")
            return RefUndefined(name)
        finally:
            if conflict:
                self.note("attr_item_conflict")

    def getitem(self, obj, arg):
        """foo['bar']: item, then (for a string) attribute, then undefined."""
        conflict = isinstance(arg, str) and self._conflict(obj, arg)
        if conflict:
            self.note("attr_item_conflict")
        try:
            return obj[arg]
        except (TypeError, LookupError, AttributeError):
            if isinstance(arg, str):
                try:
                    return getattr(obj, arg)
                except AttributeError:
                    pass
            self.note("lookup_undefined")
            return RefUndefined(arg)

    @staticmethod
    def _conflict(obj, name):
        if isinstance(obj, (Obj, dict)):
            try:
                obj[name]
            except Exception:  # noqa: BLE001
                return False
            return hasattr(obj, name)
        return False

    def call(self, func, args, kwargs):
        if is_undefined(func):
            self.note("undefined_operand")
        return _chk(func(*args, **kwargs))

    # -- nodes -------------------------------------------------------------------------------------
    def ev(self, node):
        return getattr(self, "n_" + node[0])(node)

    def n_const(self, node):
        v = node[1]
        if isinstance(v, dict):
            return float(v["v"])
        return v

    def n_paren(self, node):
        return self.ev(node[1])

    def n_name(self, node):
        name = node[1]
        if name in self.scope:
            return self.scope[name]
        if name in GLOBALS:
            return GLOBALS[name]
        self.note("undefined_name")
        return RefUndefined(name)

    def n_list(self, node):
        return [self.ev(x) for x in node[1]]

    def n_tuple(self, node):
        return tuple(self.ev(x) for x in node[1])

    def n_dict(self, node):
        out = {}
        for k, v in node[1]:
            key = self.ev(k)
            out[key] = self.ev(v)
        return out

    def n_unary(self, node):
        op = node[1]
        if op == "not":
            return not self.ev(node[2])
        return self.unop(op, self.ev(node[2]))

    def n_bin(self, node):
        a = self.ev(node[2])
        b = self.ev(node[3])
        return self.binop(node[1], a, b)

    def n_concat(self, node):
        return _chk("".join([_s(self.ev(x)) for x in node[1]]))

    def n_and(self, node):
        a = self.ev(node[1])
        if not a:
            self.note("short_circuit")
            return a
        return self.ev(node[2])

    def n_or(self, node):
        a = self.ev(node[1])
        if a:
            self.note("short_circuit")
            return a
        return self.ev(node[2])

    def n_cmp(self, node):
        left = self.ev(node[1])
        result = True
        ops = node[2]
        for idx, (op, operand) in enumerate(ops):
            right = self.ev(operand)
            if is_undefined(left) or is_undefined(right):
                self.note("undefined_operand")
            result = CMPOPS[op](left, right)
            if idx + 1 < len(ops) and not result:
                self.note("short_circuit")
                return result
            left = right
        return result

    def n_cond(self, node):
        if self.ev(node[1]):
            return self.ev(node[2])
        if node[3] is None:
            self.note("cond_undefined")
            return RefUndefined(None)
        return self.ev(node[3])

    def n_attr(self, node):
        return self.getattr(self.ev(node[1]), node[2])

    def n_item(self, node):
        obj = self.ev(node[1])
        return self.getitem(obj, self.ev(node[2]))

    def n_slice(self, node):
        obj = self.ev(node[1])
        parts = [None if x is None else self.ev(x) for x in node[2:5]]
        if isinstance(obj, (dict, Obj)):
            raise RefDecline("slice of a mapping / probe object: outcome (KeyError) not documented")
        return obj[slice(*parts)]

    def n_call(self, node):
        func = self.ev(node[1])
        # "like in Python": positional arguments, then the *iterable (Python processes it before the keyword
        # arguments even when it is written after them), then keyword arguments, then the **mapping
        args = [self.ev(x) for x in node[2]]
        if node[4] is not None:
            dyn = self.ev(node[4])
            args.extend(dyn)
        kwargs = {}
        for k, v in node[3]:
            kwargs[k] = self.ev(v)
        if node[5] is not None:
            dynk = self.ev(node[5])
            if not isinstance(dynk, dict):
                raise RefDecline("** of a non-dict")
            for k in dynk:
                if not isinstance(k, str):
                    raise RefError("type", "keywords must be strings")
                if k in kwargs:
                    raise RefError("type", "multiple values for keyword argument")
            kwargs.update(dynk)
        return self.call(func, args, kwargs)

    def n_filter(self, node):
        value = self.ev(node[2])
        args = [self.ev(x) for x in node[3]]
        kwargs = {k: self.ev(v) for k, v in node[4]}
        if is_undefined(value):
            self.note("undefined_operand")
        return _chk(FILTERS[node[1]](self, value, *args, **kwargs))

    def n_test(self, node):
        value = self.ev(node[2])
        args = [self.ev(x) for x in node[3]]
        rv = TESTS[node[1]](self, value, *args)
        if node[4]:
            return not rv
        return rv


_KIND = ((ZeroDivisionError, "zerodiv"), (OverflowError, "overflow"), (TypeError, "type"), (ValueError, "value"),
         (LookupError, "lookup"))


def eval_expr(node, scope, intercept_bin=(), intercept_un=(), hook=None, trace=None):
    """Value of the IR tree under ``scope`` (name -> Python value); see the module docstring."""
    ev = Evaluator(scope, intercept_bin, intercept_un, hook, trace)
    try:
        return ev.ev(node)
    except (RefError, RefDecline):
        raise
    except RecursionError:
        raise RefDecline("recursion")
    except Exception as e:  # noqa: BLE001 - Python's own operator semantics decide the class
        for cls, kind in _KIND:
            if isinstance(e, cls):
                raise RefError(kind, str(e)) from None
        raise


# ---------------------------------------------------------------------------------------------------
# static bound check of constant sub-expressions


def _children(node):
    k = node[0]
    if k in ("const", "name"):
        return []
    if k in ("list", "tuple", "concat"):
        return list(node[1])
    if k == "dict":
        return [x for kv in node[1] for x in kv]
    if k in ("unary",):
        return [node[2]]
    if k == "paren":
        return [node[1]]
    if k == "bin":
        return [node[2], node[3]]
    if k in ("and", "or"):
        return [node[1], node[2]]
    if k == "cmp":
        return [node[1]] + [o for _, o in node[2]]
    if k == "cond":
        return [x for x in node[1:4] if x is not None]
    if k == "attr":
        return [node[1]]
    if k == "item":
        return [node[1], node[2]]
    if k == "slice":
        return [x for x in node[1:5] if x is not None]
    if k == "call":
        return [node[1]] + list(node[2]) + [v for _, v in node[3]] + [x for x in node[4:6] if x is not None]
    if k == "filter":
        return [node[2]] + list(node[3]) + [v for _, v in node[4]]
    if k == "test":
        return [node[2]] + list(node[3])
    raise ValueError("unknown IR node %r" % (k,))


def children(node):
    """Direct sub-expressions of an IR node (public helper for tree walks)."""
    return _children(node)


def static_check(node, allow_known=False):
    """Evaluate every name-free sub-expression bottom-up under the magnitude guards.
    Raises RefDecline (bounds) or RefExcluded (known finding F29, unless allow_known).

    The optimizer folds constant sub-expressions at compile time even when they are never evaluated at run
    time (``false and 9**9**9``), so bounding only the evaluated path is not enough.  Returns True when the
    sub-tree is name-free."""
    kids = _children(node)
    const = True
    for c in kids:
        if not static_check(c, allow_known):
            const = False
    if node[0] == "name":
        return False
    if const and kids:
        try:
            eval_expr(node, {})
        except RefError:
            if node[0] == "slice" and not F29_FIXED and not allow_known:
                raise RefExcluded("F29") from None
    return const
