"""G-skel: text/tag skeleton generator and printers (DESIGN.md §3.5; C11 C12 C13 C39).

Abstract skeleton (what the strategies draw, JSON): a list of the concrete segments described in
``vt.ref.ws`` plus

    ["midls"]          "a <line-statement prefix> b" (plain text: the prefix is preceded by text on its line)
    ["foreign", k]     a look-alike of ANOTHER delimiter configuration (FOREIGN[k]); becomes plain
                       text when inert under the configuration it is instantiated for, else "f"

and comment / raw bodies may contain the place-holders PH_* which ``instantiate`` replaces by the
delimiters of the configuration (so "a body with a variable look-alike" is one skeleton that can be
printed under every configuration).

``instantiate(sk, syn)`` -> concrete skeleton; ``printer(syn)`` -> printer for ``ws.analyse``;
``source(csk, syn)`` -> template source.  A *syntax* ``syn`` is a dict with the six delimiter
strings bs be vs ve cs ce and the optional prefixes ls lc (None when disabled).

Line skeletons (C13 oracle b, C39): {"lines": [...], "final_nl": bool} with lines
    ["L", indent, [inline segments], None | [hws, body]]    text line, optional trailing comment
    ["S", indent, stmt]                                      whole-line statement
    ["C", indent, body]                                      whole-line comment
    ["B", ws]                                                whitespace-only line (C39: anywhere; C13: not directly after an S line)
translated by ``block_form`` / ``line_form`` into concrete skeletons.
"""
import itertools
import re

from hypothesis import strategies as st

SYNTAXES = {
    "default": dict(bs="{%", be="%}", vs="{{", ve="}}", cs="{#", ce="#}"),
    "php": dict(bs="<%", be="%>", vs="${", ve="}", cs="<!--", ce="-->"),
    "erb": dict(bs="<%", be="%>", vs="<%=", ve="%>", cs="<%#", ce="%>"),
    "brackets": dict(bs="[%", be="%]", vs="[[", ve="]]", cs="[#", ce="#]"),
    "three": dict(bs="<??", be="??>", vs="<?=", ve="=?>", cs="<?#", ce="#?>"),
    "ops": dict(bs="@@", be="@@", vs="$(", ve=")", cs="/*", ce="*/"),
    # block end strings that look like closing brackets: the lexer must only end the tag when brackets are balanced
    "blockbr": dict(bs="[[", be="]]", vs="${", ve="}", cs="[#", ce="#]"),
    "parens": dict(bs="((", be="))", vs="{{", ve="}}", cs="(#", ce="#)"),
    "latex": dict(bs="\\BLOCK{", be="}", vs="\\VAR{", ve="}", cs="\\#{", ce="}"),
    # the variable start string is a proper prefix of the block and comment start strings
    "prefixvar": dict(bs="{%", be="%}", vs="{", ve="}", cs="{#", ce="#}"),
    "dollar": dict(bs="$%", be="%$", vs="$", ve="$", cs="$#", ce="#$"),
}
_ORIGINAL_SIX = ["default", "php", "erb", "brackets", "three", "ops"]
SYN_NAMES = list(SYNTAXES)
LS_PREFIXES = [None, "#", "%%", ">>>"]
LC_PREFIXES = [None, "##"]


def syntax(name="default", ls=None, lc=None):
    d = dict(SYNTAXES[name])
    d["ls"], d["lc"] = ls, lc
    return d


def env_kwargs(syn):
    """keyword arguments for jinja2.Environment / Template / overlay"""
    return dict(
        block_start_string=syn["bs"], block_end_string=syn["be"],
        variable_start_string=syn["vs"], variable_end_string=syn["ve"],
        comment_start_string=syn["cs"], comment_end_string=syn["ce"],
        line_statement_prefix=syn.get("ls"), line_comment_prefix=syn.get("lc"),
    )


PH_BS, PH_BE, PH_VS, PH_VE, PH_CS, PH_CE = "\ue000", "\ue001", "\ue002", "\ue003", "\ue004", "\ue005"
PH_CE0, PH_BE0, PH_VE0 = "\ue006", "\ue007", "\ue008"  # the FIRST character of an end delimiter (a partial end delimiter)
_PH = {PH_BS: "bs", PH_BE: "be", PH_VS: "vs", PH_VE: "ve", PH_CS: "cs", PH_CE: "ce"}
_PH0 = {PH_CE0: "ce", PH_BE0: "be", PH_VE0: "ve"}
_PH_RE = re.compile("[\ue000-\ue008]")


def subst(body, syn):
    return _PH_RE.sub(lambda m: syn[_PH[m.group()]] if m.group() in _PH else syn[_PH0[m.group()]][0], body)


# look-alikes of every configuration, padded so that junctions cannot create a delimiter
_TRIPLES = (("bs", "be"), ("vs", "ve"), ("cs", "ce"))
FOREIGN = (
    [" %s f %s " % (SYNTAXES[n][a], SYNTAXES[n][b]) for n in _ORIGINAL_SIX for a, b in _TRIPLES]  # 0-17 (indices are used by probes)
    + ["\n# f\n", "\n## f\n", "\n%% f\n", "\n>>> f\n", " \n  # endif\n", "a ## f\n"]      # 18-23
    + [" %s f %s " % (d[a], d[b]) for n, d in SYNTAXES.items() if n not in _ORIGINAL_SIX for a, b in _TRIPLES]
)
FOREIGN_INLINE = [k for k, a in enumerate(FOREIGN) if "\n" not in a]


def inert(atom, syn):
    for key in ("bs", "vs", "cs", "ls", "lc"):
        d = syn.get(key)
        if d and d in atom:
            return False
    return True


def _raw_body_ok(body, syn):
    """no premature end tag when the body is followed by a real end tag (generator guard)"""
    e = re.escape
    pat = re.compile(e(syn["bs"]) + r"[-+]?\s*endraw\s*[-+]?" + e(syn["be"]), re.S)
    probe = body + syn["bs"] + " endraw " + syn["be"]
    m = pat.search(probe)
    return m is not None and m.start() == len(body)


def instantiate(sk, syn):
    out = []
    for seg in sk:
        k = seg[0]
        if k == "foreign":
            a = FOREIGN[seg[1] % len(FOREIGN)]
            out.append(["text", a if inert(a, syn) else "f"])
        elif k == "midls":
            # the line-statement prefix in the middle of a line, after other text: documented to be plain text
            out.append(["text", "a " + syn["ls"] + " b" if syn.get("ls") else "a b"])
        elif k == "comment":
            body = subst(seg[3], syn)
            if (body + syn["ce"]).find(syn["ce"]) != len(body) or body[:1] in "+-" or body[-1:] in "+-" or body == "":
                body = " c "
            out.append(["comment", seg[1], seg[2], body])
        elif k == "raw":
            body = subst(seg[3], syn)
            if not _raw_body_ok(body, syn):
                body = " r "
            out.append(["raw", seg[1], seg[2], body, seg[4], seg[5], list(seg[6]) if len(seg) > 6 else [" ", " ", " ", " "]])
        else:
            out.append(list(seg))
    return out


def printer(syn):
    bs, be, vs, ve, cs, ce = (syn[k] for k in ("bs", "be", "vs", "ve", "cs", "ce"))
    ls, lc = syn.get("ls"), syn.get("lc")

    def pr(seg):
        k = seg[0]
        if k == "var":
            return vs + seg[1] + seg[3] + seg[2] + ve
        if k == "block":
            return bs + seg[1] + seg[3] + seg[2] + be
        if k == "comment":
            return cs + seg[1] + seg[3] + seg[2] + ce
        if k == "raw":
            p = seg[6] if len(seg) > 6 else [" ", " ", " ", " "]
            return (bs + seg[1] + p[0] + "raw" + p[1] + seg[2] + be, bs + seg[4] + p[2] + "endraw" + p[3] + seg[5] + be)
        if k == "ls":
            if ls is None:
                raise ValueError("line statement without a prefix")
            return seg[1] + ls + seg[2]
        if k == "lc":
            if lc is None:
                raise ValueError("line comment without a prefix")
            return seg[1] + lc + seg[2]
        raise ValueError(k)

    return pr


def source(csk, syn):
    pr = printer(syn)
    res = []
    for seg in csk:
        if seg[0] == "text":
            res.append(seg[1])
        elif seg[0] == "raw":
            b, e = pr(seg)
            res.append(b + seg[3] + e)
        else:
            res.append(pr(seg))
    return "".join(res)


# ------------------------------------------------------------------------------------------
# alphabets

COMMON_WS = ["\ufeff", "\u200b", "a", "b", "x", " ", "  ", "\t", "\n", "\r\n", "\r", "\n\n", " \n ", "\n  ", "é", "\x0c", "\x1f", "\xa0",
             "\u2028", "\x0b", "\x85", "-", "+", " ", "\n", "\t"]
# characters occurring in no delimiter / prefix of any configuration
ALPHA_X = ["\ufeff", "\u200b", "a", "b", "x", " ", "  ", "\t", "\n", "\r\n", "\r", "\n\n", " \n ", "\n  ", "é", ".", ",", ":", ";", "_", "'", '"',
           "&", "|", "~", "^", "\\", "+", "\x0c", "\xa0", " ", "\n"]
ALPHA_X_INLINE = [a for a in ALPHA_X if "\n" not in a and "\r" not in a]


def _first_chars(syn):
    fc = {syn[k][0] for k in ("bs", "vs", "cs")}
    for k in ("ls", "lc"):
        if syn.get(k):
            fc.add(syn[k][0])
    return fc


def alpha_ws(syn):
    """whitespace-heavy text atoms + lone delimiter characters that cannot start a delimiter of ``syn``"""
    fc = _first_chars(syn)
    atoms = list(COMMON_WS)
    prefix_fc = {syn[k][0] for k in ("ls", "lc") if syn.get(k)}
    starts = [syn[k] for k in ("bs", "vs", "cs")]
    for c in sorted({syn[k][0] for k in ("bs", "vs", "cs")}):
        if c not in prefix_fc and not any((c + " ").startswith(d) for d in starts):
            atoms.append(c + " ")  # a start character followed by a safe character
            atoms.append(c + "\n")
    if syn.get("ls"):  # the prefix after other text on the line is plain text
        atoms += ["a " + syn["ls"] + " b", "x" + syn["ls"]]
    for cand in [syn["be"], syn["ve"], syn["ce"], "}", "%", "#", "%}", "}}", "#}", ">", "]", ")"]:
        if not (set(cand) & fc) and cand not in atoms:
            atoms.append(cand)
    return atoms


OWN_PRE = ["\n", "\n  ", "a\n\t", "  ", "", "x  ", "\r\n ", "\n\n", "\t"]
OWN_POST = ["\n", "\n\n", " \n", "", "\r\n", "  \n", "\nb", "\n  ", "\r"]
MODS3 = ["", "-", "+", "", "-"]
MODS2 = ["", "-"]
PADS = ["", " ", " ", "  ", "\t"]
PADS_ML = PADS + ["\n", " \n ", "\r\n", "\r"]

VAR_EXPRS = [("[[7, 8]][0][0]", "7"), ("{'k': {'j': 3}}['k']['j']", "3"), ("((4, 5))[1]", "5"), ("v", "V"), ("'q'", "q"), ("1", "1"), ("w", " W\n "), ("v|lower", "v"), ("[7, 8][0]", "7"),
             ("{'k': 3}['k']", "3"), ("(4)", "4"), ("v ~ 'y'", "Vy"), ("7 - 2", "5"), ("u", "\r\n")]
VAR_EXPRS_ML = [("[7,\n 8][0]", "7"), ("v ~\n'y'", "Vy"), ("{'k':\r\n3}['k']", "3"), ("v\n|lower", "v")]
VAR_EXPRS_LEXONLY = [("'a\nb'", None), ("[\n\n]", None), ("v\r|upper", None)]
CONTEXT = {"v": "V", "w": " W\n ", "u": "\r\n"}

BLOCK_STMTS = ["set z = 1", "set z = [1, 2]", "set z = v", "set z = {'a': (1, 2)}", "set z = [[1, 2], [3]]", "set d = {'a': {'b': 1}}",
               "set z = ((1, 2), (3,))", "set z = {'a': [1, (2, 3)]}['a'][1]"]
BLOCK_STMTS_ML = ["set z =\n 1", "set z = [1,\n\n2]", "set z = 'a\nb'", "set\r\nz = 1", "set z = (1,\r2)"]
BLOCK_PAIRS = [("for r in [[1, 2]]", "endfor"), ("if {'a': {'b': 1}}", "endif"), ("with z = ((1, 2))", "endwith"), ("if true", "endif"), ("if v", "endif"), ("for q in [1]", "endfor"), ("with", "endwith"),
               ("with z = 2", "endwith"), ("if v == 'V'", "endif")]
BLOCK_PAIRS_ML = [("if true\n", "endif"), ("for q in [\n1]", "endfor"), ("with z =\n\n2", "\nendwith")]

COMMENT_BODIES = [" note " + PH_CE0, PH_CE0, " a " + PH_CE0 + " b " + PH_CE0 + PH_CE0, " x" + PH_BE0, " y " + PH_VE0 + PH_CE0, " ", " c ", "\n c\n", "c", " " + PH_VS + " x " + PH_VE + " ", " " + PH_BS + " if " + PH_BE + " ", " " + PH_CS + " ",
                  " a- ", " +b ", "\t", " \n", " " + PH_BS + " endraw ", "é", "\r\n c \r", " " + PH_BS + "- raw -" + PH_BE + " "]
RAW_BODIES = [" r " + PH_BE0, PH_BS[:0] + " q " + PH_CE0 + PH_BE0, "", " r ", "\n r \n", "\n  ", "  \n", PH_VS + " x " + PH_VE, PH_BS + " if " + PH_BE, PH_CS + " c " + PH_CE, " " + PH_BS,
              "\r\n x \r", " " + PH_BS + " endraw ", PH_CE, "-", "+ ", "\n  " + PH_VS + "- x -" + PH_VE + "  \n", " \t", "\n"]
RAW_BODIES_PLAIN = [b for b in RAW_BODIES if not _PH_RE.search(b)]
LOOKALIKE_RE = _PH_RE


def _texts(alpha, max_atoms):
    return st.lists(st.sampled_from(alpha), min_size=0, max_size=max_atoms).map("".join)


def _padded(core_strategy, pads):
    return st.tuples(st.sampled_from(pads), core_strategy, st.sampled_from(pads))


def seg_strategies(alpha, multiline=False, lexonly=False, lookalikes=True, raw_lookalikes=True, foreign=False,
                   max_atoms=4, plus=True):
    """dict kind -> strategy producing a LIST of abstract segments"""
    pads = PADS_ML if multiline else PADS
    mods3 = MODS3 if plus else MODS2
    exprs = VAR_EXPRS + (VAR_EXPRS_ML if multiline else []) + (VAR_EXPRS_LEXONLY if lexonly else [])
    stmts = BLOCK_STMTS + (BLOCK_STMTS_ML if multiline else [])
    cbodies = COMMENT_BODIES if lookalikes else [b for b in COMMENT_BODIES if not _PH_RE.search(b)]
    rbodies = RAW_BODIES if (lookalikes and raw_lookalikes) else RAW_BODIES_PLAIN
    if not multiline:
        pass
    text = _texts(alpha, max_atoms).map(lambda s: [["text", s]])
    var = st.tuples(st.sampled_from(MODS2), st.sampled_from(MODS2), _padded(st.sampled_from(exprs), pads)).map(
        lambda t: [["var", t[0], t[1], t[2][0] + t[2][1][0] + t[2][2], t[2][1][1]]])
    block = st.tuples(st.sampled_from(mods3), st.sampled_from(mods3), _padded(st.sampled_from(stmts), pads)).map(
        lambda t: [["block", t[0], t[1], "".join(t[2])]])
    comment = st.tuples(st.sampled_from(mods3), st.sampled_from(mods3), st.sampled_from(cbodies)).map(
        lambda t: [["comment", t[0], t[1], t[2]]])
    raw = st.tuples(st.sampled_from(mods3), st.sampled_from(MODS2), st.sampled_from(rbodies), st.sampled_from(mods3),
                    st.sampled_from(mods3), st.lists(st.sampled_from(pads), min_size=4, max_size=4)).map(
        lambda t: [["raw", t[0], t[1], t[2], t[3], t[4], t[5]]])
    d = {"text": text, "var": var, "block": block, "comment": comment, "raw": raw}
    if foreign:
        d["foreign"] = st.one_of(st.integers(0, len(FOREIGN) - 1).map(lambda k: [["foreign", k]]), st.just([["midls"]]))
    pairs = BLOCK_PAIRS + (BLOCK_PAIRS_ML if multiline else [])

    def mk_pair(t):
        (lo, ro, po), (lc_, rc, pc), (o, c), inner = t
        body = [s for item in inner for s in item]
        return [["block", lo, ro, po[0] + o + po[1]]] + body + [["block", lc_, rc, pc[0] + c + pc[1]]]

    # a tag (nearly) alone on its line: the shape the automatic options are documented for
    d["ownline"] = st.tuples(st.sampled_from(OWN_PRE), st.one_of(block, block, comment, raw, var), st.sampled_from(OWN_POST)).map(
        lambda t: [["text", t[0]]] + t[1] + [["text", t[2]]])
    tagmods = st.tuples(st.sampled_from(mods3), st.sampled_from(mods3), st.tuples(st.sampled_from(pads), st.sampled_from(pads)))
    inner_kinds = [d[k] for k in d]
    d["pair"] = st.tuples(tagmods, tagmods, st.sampled_from(pairs), st.lists(st.one_of(inner_kinds), max_size=3)).map(mk_pair)
    return d


def skeletons(alpha, kinds=("text", "text", "var", "block", "comment", "raw", "pair", "ownline", "ownline"), min_segs=1, max_segs=8, **kw):
    d = seg_strategies(alpha, **kw)
    elems = st.one_of([d[k] for k in kinds])
    return st.lists(elems, min_size=min_segs, max_size=max_segs).map(lambda items: [s for item in items for s in item])


# ------------------------------------------------------------------------------------------
# line skeletons

INDENTS_PLAIN = ["", "", " ", "  ", "\t", " \t", "    "]
INDENTS_VT = INDENTS_PLAIN + ["\x0b "]  # \v is accepted before a line-statement prefix; lstrip_blocks of \v is not documented
LINE_STMTS = ["set z = 1", "set z = [1, 2]", "set z = v", "set z = [[1, 2], [3]]", "set d = {'a': {'b': 1}}", "set z = ((1, 2), (3,))"]
LINE_PAIRS = [("for r in [[1, 2]]", "endfor"), ("if {'a': {'b': 1}}", "endif"), ("if true", "endif"), ("if v", "endif"), ("for q in [1]", "endfor"), ("with", "endwith"), ("if v:", "endif"),
              ("for q in [1]:", "endfor")]
LINE_COMMENT_BODIES = [" c ", " note", "c", " a b ", " x.y ", " f(1) "]
HWS = ["", " ", "  ", "\t", " \x0c", "\xa0"]
LINE_ENDERS = ["a", "x.", "é", ";", "b:"]
LINE_VARS = [(e, v) for e, v in VAR_EXPRS]


BLANKS = ["", " ", "  \t", "\x0c"]


def line_skeletons(max_lines=7, foreign=False, blank=False, vt_indent=False):
    INDENTS = INDENTS_VT if vt_indent else INDENTS_PLAIN
    inline_text = _texts(ALPHA_X_INLINE, 3).map(lambda s: ["text", s])
    var = st.tuples(st.sampled_from(MODS2), st.sampled_from(MODS2), _padded(st.sampled_from(LINE_VARS), PADS)).map(
        lambda t: ["var", t[0], t[1], t[2][0] + t[2][1][0] + t[2][2], t[2][1][1]])
    inl = [inline_text, var]
    if foreign:
        inl.append(st.sampled_from(FOREIGN_INLINE).map(lambda k: ["foreign", k]))
        inl.append(st.just(["midls"]))
    ender = st.one_of(
        st.sampled_from(LINE_ENDERS).map(lambda s: ["text", s]),
        st.tuples(st.sampled_from(MODS2), _padded(st.sampled_from(LINE_VARS), PADS)).map(
            lambda t: ["var", t[0], "", t[1][0] + t[1][1][0] + t[1][2], t[1][1][1]]),
    )
    tc = st.one_of(st.none(), st.none(), st.tuples(st.sampled_from(HWS), st.sampled_from(LINE_COMMENT_BODIES)).map(list))
    L = st.tuples(st.sampled_from(INDENTS), st.lists(st.one_of(inl), max_size=3), ender, tc).map(
        lambda t: [["L", t[0], t[1] + [t[2]], t[3]]])
    S = st.tuples(st.sampled_from(INDENTS), st.sampled_from(LINE_STMTS), st.sampled_from(["", "", " ", "\t"])).map(
        lambda t: [["S", t[0], " " + t[1] + t[2]]])
    C = st.tuples(st.sampled_from(INDENTS), st.sampled_from(LINE_COMMENT_BODIES)).map(lambda t: [["C", t[0], t[1]]])

    def mk_pair(t):
        i1, i2, (o, c), sp, inner = t
        return [["S", i1, sp + o]] + [x for item in inner for x in item] + [["S", i2, " " + c]]

    P = st.tuples(st.sampled_from(INDENTS), st.sampled_from(INDENTS), st.sampled_from(LINE_PAIRS), st.sampled_from([" ", "  ", ""]),
                  st.lists(st.one_of(L, S, C), max_size=3)).map(mk_pair)
    top = [L, L, S, C, P, P]
    if blank:
        # whitespace-only lines.  blank=True: anywhere (C39, token stream only).  blank="before": anywhere except directly
        # after a whole-line statement (the line-statement form consumes blank lines that FOLLOW it, DESIGN C13); blank
        # lines BEFORE statements / comments are part of the documented equivalence.
        B = st.sampled_from(BLANKS).map(lambda w: [["B", w]])
        top += [B, B]
        P = st.tuples(st.sampled_from(INDENTS), st.sampled_from(INDENTS), st.sampled_from(LINE_PAIRS), st.sampled_from([" ", "  ", ""]),
                      st.lists(st.one_of(L, S, C, B), max_size=4)).map(mk_pair)
        top += [P]

    def flatten(items):
        out = []
        for item in items:
            for x in item:
                if blank == "before" and x[0] == "B" and out and out[-1][0] == "S":
                    continue
                out.append(x)
        return out or [["L", "", [["text", "a"]], None]]

    lines = st.lists(st.one_of(top), min_size=1, max_size=max_lines).map(flatten)
    return st.builds(lambda ls, nl: {"lines": ls, "final_nl": nl}, lines, st.booleans())


def _line_common(lsk, stmt_seg, comment_seg, trailing_seg):
    out = []
    n = len(lsk["lines"])
    for i, line in enumerate(lsk["lines"]):
        k = line[0]
        if k == "L":
            out.append(["text", line[1]])
            out.extend(list(s) for s in line[2])
            if line[3] is not None:
                out.extend(trailing_seg(line[3][0], line[3][1]))
        elif k == "S":
            out.extend(stmt_seg(line[1], line[2]))
        elif k == "C":
            out.extend(comment_seg(line[1], line[2]))
        elif k == "B":
            out.append(["text", line[1]])
        else:
            raise ValueError(k)
        if i < n - 1 or lsk["final_nl"]:
            out.append(["text", "\n"])
    return out


def block_form(lsk):
    """whole-line tags as block tags; comments as  {# c +#}  /  text {#- c +#}  (abstract skeleton)"""
    return _line_common(
        lsk,
        lambda indent, stmt: [["text", indent], ["block", "", "", stmt + " "]],
        lambda indent, body: [["text", indent], ["comment", "", "+", body]],
        lambda hws, body: [["text", hws], ["comment", "-", "+", body]],
    )


def line_form(lsk):
    return _line_common(
        lsk,
        lambda indent, stmt: [["ls", indent, stmt]],
        lambda indent, body: [["lc", indent, body]],
        lambda hws, body: [["lc", hws, body]],
    )


# ------------------------------------------------------------------------------------------
# C11: exhaustive short strings and long random texts

ALPHA15 = ["a", "{", "}", "%", "#", " ", "\t", "\n", "\r", "\r\n", "-", "é", "\x0c", "\u2028", "\x85"]
ALPHA10 = ["a", "{", "%", " ", "\n", "\r", "\r\n", "-", "\x0c", "}"]
_STARTS_DEFAULT = ("{{", "{%", "{#")


def has_start(s, starts=_STARTS_DEFAULT):
    return any(d in s for d in starts)


def short_strings(max_len, alphabet=ALPHA15, index=0, nshards=1, min_len=0):
    """all strings of min_len..max_len symbols without a delimiter start; the slice of shard
    ``index`` (partitioned by the first two symbols)"""
    for n in range(min_len, max_len + 1):
        if n < 2:
            if index == 0:
                for t in itertools.product(alphabet, repeat=n):
                    s = "".join(t)
                    if not has_start(s):
                        yield s
            continue
        for j, head in enumerate(itertools.product(alphabet, repeat=2)):
            if j % nshards != index:
                continue
            h = "".join(head)
            for t in itertools.product(alphabet, repeat=n - 2):
                s = h + "".join(t)
                if not has_start(s):
                    yield s


def _defuse(s):
    """insert a space after every "{" that would start a default delimiter"""
    return re.sub(r"\{(?=[{%#])", "{ ", s)


def long_texts(max_size=2000):
    chars = st.one_of(
        st.characters(exclude_categories=["Cs"]),
        st.sampled_from(["\ufeff", "\ufffe", "\u200b", "\u2029", "\n", "\r", "\r\n", " ", "\t", "{", "}", "%", "#", "\x0c", "\x85", "\u2028", " ", "\x00", "\x1c"]),
    )
    sizes = st.one_of(st.lists(chars, max_size=40), st.lists(chars, min_size=40, max_size=max_size // 4),
                      st.lists(chars, min_size=max_size // 4, max_size=max_size))
    return sizes.map("".join).map(_defuse)


# ------------------------------------------------------------------------------------------
# C39: arbitrary fragment soup (the oracle only judges sources that lex without TemplateSyntaxError)

def fragment_soup(syn, max_frags=14):
    frags = []
    for k in ("bs", "vs", "cs"):
        frags += [syn[k], syn[k] + "-", syn[k] + "+", syn[k] + " ", "  " + syn[k] + "-", "\n " + syn[k], " \n\n" + syn[k] + "- "]
    for k in ("be", "ve", "ce"):
        frags += [syn[k], "-" + syn[k], "+" + syn[k], " " + syn[k]]
    frags += [" raw ", " endraw ", "raw", "endraw", "\n", "\n", "\r\n", "\r", " ", "  ", "\t", "a", "x.y", "'s'", "'a\nb'", '"', "'", "[", "]", "(", ")",
              "{", "}", "1", "1.5", "|f", " if x ", " endif ", " set z = 1 ", "-", "+", "\x0c", "\xa0", "\\", "\n\n  ", " \n", "=", "~"]
    for k in ("ls", "lc"):
        if syn.get(k):
            frags += [syn[k], "\n" + syn[k], "\n  " + syn[k] + " ", syn[k] + "-"]
    return st.lists(st.sampled_from(frags), min_size=1, max_size=max_frags).map("".join)


# ------------------------------------------------------------------------------------------
# driver helper shared by C11 C12 C13 C39

def hyp_chunks(strategy, check_case, ctx, total, rec, tag, chunk=4000):
    """core.hyp_shard in chunks of ``chunk`` examples (each chunk is its own seeded Hypothesis test, so the
    example tree Hypothesis keeps for de-duplication stays small in the thorough tier); stops at the first
    chunk that found a violation."""
    from vt import core

    i = 0
    while total > 0 and not rec.violations:
        n = min(chunk, total)
        core.hyp_shard(strategy, check_case, ctx, n, rec=rec, tag="%s.%d" % (tag, i))
        total -= n
        i += 1
    return rec
