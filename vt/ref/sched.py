"""Harness-owned thread scheduler (baton scheduler) for schedule-quantified properties.

Worker threads run with a ``sys.settrace`` hook; at every *line* event (or every *opcode* event)
inside one of the given code objects the running thread reaches a *yield point*.  Exactly one
worker holds the baton at any time, every other worker is parked on its own lock, so the
execution is a sequential interleaving at line/opcode granularity that is a pure function of
the schedule description:

    first   index of the worker that runs first
    pre     list of [delay, target]: after ``delay`` further yield points the running worker is
            pre-empted in favour of the ``target``-th other runnable worker (skipped, but
            consumed, when no other worker is runnable).  len(pre) bounds the pre-emptions.
    forced  list of ints consumed whenever the running worker finishes or blocks on a lock:
            chooses among the runnable workers (0 when exhausted).

Locks of the code under test must be replaced by ``Scheduler.make_lock()``: a blocked acquire
hands the baton to another worker instead of blocking the process.  Deadlock (no runnable worker
while some are unfinished) and step overrun are detected deterministically inside the scheduler;
a wall-clock watchdog exists only as a last resort and is reported separately
(``WatchdogTimeout``, which callers must turn into a harness error, never into a violation).
No thread outlives ``run``: on abort every parked worker is woken and unwinds with ``Abort``.
"""
import sys
import threading
import time
from _thread import allocate_lock, get_ident


class Abort(BaseException):
    """Raised inside worker threads to unwind them when the run is aborted."""


class WatchdogTimeout(Exception):
    """Last-resort wall-clock guard fired: the run is inconclusive (harness error)."""


class _Worker:
    __slots__ = ("idx", "go", "done", "blocked_on", "thread", "error", "started")

    def __init__(self, idx):
        self.idx = idx
        self.go = allocate_lock()
        self.go.acquire()
        self.done = False
        self.started = False
        self.blocked_on = None
        self.thread = None
        self.error = None


class SLock:
    """Scheduler-aware, non-reentrant lock with the ``threading.Lock`` interface."""

    def __init__(self, sched):
        self.sched = sched
        self.owner = None
        self.acquisitions = 0
        self.contended = 0

    def acquire(self, blocking=True, timeout=-1):
        s = self.sched
        me = s.by_ident.get(get_ident())
        if me is None:  # not a scheduled worker (main thread before/after the run)
            if self.owner is not None:
                raise RuntimeError("scheduler lock is held by a worker while used from an unscheduled thread")
            self.owner = "main"
            return True
        first = True
        while self.owner is not None:
            if s.aborting:
                raise Abort()
            if not blocking:
                return False
            if first:
                self.contended += 1
                first = False
            s.block(me, self)
        self.owner = me
        self.acquisitions += 1
        return True

    def release(self):
        if self.owner is None:
            raise RuntimeError("release unlocked lock")
        self.owner = None
        for w in self.sched.workers:
            if w.blocked_on is self:
                w.blocked_on = None

    def locked(self):
        return self.owner is not None

    def __enter__(self):
        self.acquire()
        return True

    def __exit__(self, *exc):
        self.release()


_opcode_warm = [False]


def warm_up_opcode_tracing():
    """CPython 3.12 switches per-opcode trace events on lazily: the first frame that sets
    ``f_trace_opcodes`` in a process receives none.  Once switched on the setting is sticky for the
    interpreter, so one throw-away traced call per process makes every later run see opcode events
    from its first frame on (otherwise a schedule would depend on the process history)."""
    if _opcode_warm[0]:
        return

    def probe():
        x = 1
        return x

    def tracer(frame, ev, arg):
        if frame.f_code is probe.__code__:
            frame.f_trace_opcodes = True
            return tracer
        return None

    def body():
        sys.settrace(tracer)
        try:
            probe()
            probe()
        finally:
            sys.settrace(None)

    th = threading.Thread(target=body, name="vt-sched-warmup")
    th.start()
    th.join()
    _opcode_warm[0] = True


class Scheduler:
    WATCHDOG = 120.0  # seconds for a whole run; last resort only

    def __init__(self, nworkers, first=0, pre=(), forced=(), codes=(), opcode=False, max_steps=20000):
        self.workers = [_Worker(i) for i in range(nworkers)]
        self.by_ident = {}
        self.first = first
        self.pre = [(int(d), int(t)) for d, t in pre]
        self.forced = [int(x) for x in forced]
        self.codes = frozenset(codes)
        self.opcode = bool(opcode)
        self.event = "opcode" if opcode else "line"
        self.max_steps = max_steps
        self.pi = 0
        self.fi = 0
        self.countdown = self.pre[0][0] if self.pre else 0
        self.steps = 0
        self.current = None
        self.aborting = False
        self.deadlock = None  # description when detected
        self.overrun = False
        self.timed_out = False
        self.preemptions = []  # (worker, function name, line, yield index within the frame, next worker)
        self.forced_switches = 0
        self.blocks = 0
        self.trace = []  # (worker idx) per scheduling decision that changed the running worker
        self.locks = []

    # -- construction helpers -----------------------------------------------------------
    def make_lock(self):
        lk = SLock(self)
        self.locks.append(lk)
        return lk

    # -- internals (always executed by the baton holder, or by main before/after) --------
    def _runnable(self, exclude=None):
        return [w for w in self.workers if not w.done and w.blocked_on is None and w is not exclude]

    def _next_forced(self, exclude=None):
        r = self._runnable(exclude)
        if not r:
            return None
        c = 0
        if self.fi < len(self.forced):
            c = self.forced[self.fi]
            self.fi += 1
        return r[c % len(r)]

    def _handoff(self, me, nxt):
        """Give the baton to ``nxt``; park ``me`` (unless finished/None) until rescheduled."""
        self.current = nxt
        self.trace.append(nxt.idx)
        nxt.go.release()
        if me is not None and not me.done:
            me.go.acquire()
            if self.aborting:
                raise Abort()

    def _abort_all(self):
        self.aborting = True
        me = self.by_ident.get(get_ident())
        for w in self.workers:
            if w is not me and not w.done:
                try:
                    w.go.release()
                except RuntimeError:
                    pass

    def block(self, me, lock):
        """``me`` cannot take ``lock``: park it until the lock was released and it is chosen again."""
        me.blocked_on = lock
        self.blocks += 1
        nxt = self._next_forced(exclude=me)
        if nxt is None:
            waiting = sorted(w.idx for w in self.workers if not w.done)
            owner = lock.owner.idx if isinstance(lock.owner, _Worker) else lock.owner
            self.deadlock = "workers %s all wait for a lock (last: worker %d waits for a lock held by %r)" % (waiting, me.idx, owner)
            self._abort_all()
            raise Abort()
        self.forced_switches += 1
        self._handoff(me, nxt)

    def on_yield(self, me, frame, nyield):
        if self.aborting:
            return
        self.steps += 1
        if self.steps > self.max_steps:
            self.overrun = True
            self._abort_all()
            raise Abort()
        if self.pi < len(self.pre):
            if self.countdown <= 0:
                target = self.pre[self.pi][1]
                self.pi += 1
                if self.pi < len(self.pre):
                    self.countdown = self.pre[self.pi][0]
                others = self._runnable(exclude=me)
                if others:
                    nxt = others[target % len(others)]
                    self.preemptions.append((me.idx, frame.f_code.co_name, frame.f_lineno, nyield, nxt.idx))
                    self._handoff(me, nxt)
            else:
                self.countdown -= 1

    def _finish(self, w):
        w.done = True
        if self.aborting:
            return
        nxt = self._next_forced()
        if nxt is not None:
            self.forced_switches += 1
            self._handoff(None, nxt)
        elif any(not x.done for x in self.workers):
            waiting = sorted(x.idx for x in self.workers if not x.done)
            self.deadlock = "workers %s wait for a lock that no running worker can release (worker %d finished)" % (waiting, w.idx)
            self._abort_all()

    def _make_tracer(self, w):
        codes = self.codes
        event = self.event
        opcode = self.opcode
        on_yield = self.on_yield

        def global_trace(frame, ev, arg):
            if frame.f_code not in codes:
                return None
            n = [0]
            if opcode:
                frame.f_trace_opcodes = True
                frame.f_trace_lines = False

            def local_trace(frame, ev, arg):
                if ev == event:
                    i = n[0]
                    n[0] = i + 1
                    on_yield(w, frame, i)
                return local_trace

            return local_trace

        return global_trace

    def _thread_main(self, w, body):
        self.by_ident[get_ident()] = w
        w.go.acquire()
        try:
            if self.aborting:
                return
            w.started = True
            sys.settrace(self._make_tracer(w))
            try:
                body(w.idx)
            finally:
                sys.settrace(None)
        except Abort:
            pass
        except BaseException as e:  # noqa: BLE001 - reported by the caller
            w.error = e
        finally:
            try:
                self._finish(w)
            except Abort:
                pass

    # -- entry point ------------------------------------------------------------------------
    def run(self, bodies):
        """Run ``bodies[i](i)`` in worker i under the schedule.  Returns when every worker ended.

        Afterwards inspect ``deadlock`` / ``overrun`` (deterministic verdicts) and ``workers[i].error``.
        Raises WatchdogTimeout if the wall-clock guard fired (inconclusive)."""
        assert len(bodies) == len(self.workers)
        if self.opcode:
            warm_up_opcode_tracing()
        for w, body in zip(self.workers, bodies):
            w.thread = threading.Thread(target=self._thread_main, args=(w, body), name="vt-sched-%d" % w.idx, daemon=True)
        for w in self.workers:
            w.thread.start()
        firstw = self.workers[self.first % len(self.workers)]
        self.current = firstw
        self.trace.append(firstw.idx)
        firstw.go.release()
        deadline = time.monotonic() + self.WATCHDOG
        for w in self.workers:
            w.thread.join(max(0.0, deadline - time.monotonic()))
        if any(w.thread.is_alive() for w in self.workers):
            self.timed_out = True
            self._abort_all()
            for w in self.workers:
                w.thread.join(5.0)
            raise WatchdogTimeout("worker threads still running after %.0f s" % self.WATCHDOG)
        self.by_ident.clear()
