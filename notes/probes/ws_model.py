"""Reference whitespace-control model over a skeleton (prototype for C11/C12/C39)."""
import random
NL = ("\n", "\r\n", "\r")

def src_of(seg):
    k = seg[0]
    if k == "text": return seg[1]
    if k == "var": return "{{%s %s %s}}" % (seg[1], seg[3], seg[2])
    if k == "block": return "{%%%s %s %s%%}" % (seg[1], seg[3], seg[2])
    if k == "comment": return "{#%s%s%s#}" % (seg[1], seg[3], seg[2])
    if k == "raw": return "{%%%s raw %s%%}%s{%%%s endraw %s%%}" % (seg[1], seg[2], seg[3], seg[4], seg[5])
    raise ValueError(k)

def source(sk): return "".join(src_of(s) for s in sk)

def norm(s):  # lexer preprocessing of line breaks
    return s.replace("\r\n", "\n").replace("\r", "\n")

def lstrip_line(text, line_starting):
    """lstrip_blocks rule: remove whitespace between start of line and the tag."""
    l_pos = text.rfind("\n") + 1
    tail = text[l_pos:]
    if (l_pos > 0 or line_starting) and tail != "" and tail.strip() == "":
        return text[:l_pos]
    return text

def model(sk, trim=False, lstrip=False, newline_sequence="\n", keep_trailing_newline=False):
    # 1. merge into alternating text/tag with normalised text; remove the single trailing newline
    segs = []
    for s in sk:
        if s[0] == "text":
            if segs and segs[-1][0] == "text": segs[-1] = ("text", segs[-1][1] + s[1])
            else: segs.append(("text", s[1]))
        elif s[0] == "raw": segs.append(("raw", s[1], s[2], norm(s[3]), s[4], s[5]))
        elif s[0] == "comment": segs.append(("comment", s[1], s[2], norm(s[3])))
        else: segs.append(s)
    segs = [("text", norm(x[1])) if x[0] == "text" else x for x in segs]
    if not keep_trailing_newline and segs and segs[-1][0] == "text" and segs[-1][1].endswith("\n"):
        segs[-1] = ("text", segs[-1][1][:-1])
    out = []            # output pieces
    pending = None      # (mode) effect of previous tag's right side on following text: 'strip' | 'trim' | None
    line_starting = True
    cur_text = ""       # text since previous tag (after right-side processing)
    have_text = False
    def take_text(t):
        nonlocal pending, line_starting
        if pending == "strip":
            stripped = t.lstrip()
            consumed = t[:len(t) - len(stripped)]
            line_starting = consumed.endswith("\n")
            t = stripped
        elif pending == "trim":
            if t.startswith("\n"):
                t = t[1:]; line_starting = True
            else:
                line_starting = False
        pending = None
        return t
    i = 0
    n = len(segs)
    # iterate: ensure a (possibly empty) text precedes every tag
    seq = []
    prev_tag = True
    for s in segs:
        if s[0] == "text":
            seq.append(s); prev_tag = False
        else:
            if prev_tag: seq.append(("text", ""))
            seq.append(s); prev_tag = True
    if prev_tag: seq.append(("text", ""))
    # now seq alternates text, tag, text, tag, ..., text
    first = True
    for idx in range(0, len(seq), 2):
        text = take_text(seq[idx][1]) if not first else seq[idx][1]
        if first:
            first = False
        tag = seq[idx + 1] if idx + 1 < len(seq) else None
        if tag is None:
            out.append(text); break
        k = tag[0]; lmod = tag[1]
        if lmod == "-":
            text = text.rstrip()
        elif lmod == "" and lstrip and k != "var":
            text = lstrip_line(text, line_starting)
        out.append(text)
        line_starting = False
        if k == "var":
            out.append(("VAL", tag[4]))
            pending = "strip" if tag[2] == "-" else None
        elif k in ("block", "comment"):
            rmod = tag[2]
            pending = "strip" if rmod == "-" else ("trim" if (rmod == "" and trim) else None)
        elif k == "raw":
            body = tag[3]
            ls = False
            if tag[2] == "-":
                st = body.lstrip(); ls = body[:len(body) - len(st)].endswith("\n"); body = st
            if tag[4] == "-": body = body.rstrip()
            elif tag[4] == "" and lstrip: body = lstrip_line(body, ls)
            out.append(body)
            rmod = tag[5]
            pending = "strip" if rmod == "-" else ("trim" if (rmod == "" and trim) else None)
    res = []
    for p in out:
        if isinstance(p, tuple): res.append(str(p[1]))
        else: res.append(p.replace("\n", newline_sequence))
    return "".join(res)

TEXT_ALPHA = ["a", "b", " ", "  ", "\t", "\n", "\r\n", "\r", "x", "}", "%", "#", "-", "+", "\n\n", " \n ", "é", "\x0c", "\x1f", "\xa0", " "]
def gen_text(r, maxn=4):
    return "".join(r.choice(TEXT_ALPHA) for _ in range(r.randrange(0, maxn)))
def gen_skeleton(r, n=None):
    sk = []
    for _ in range(r.randrange(1, 6) if n is None else n):
        c = r.random()
        if c < 0.4:
            t = gen_text(r)
            # never let text end with '{' right before a tag: ensure by appending nothing (alphabet has 'x{' only followed by...)
            sk.append(("text", t))
        elif c < 0.55:
            sk.append(("var", r.choice(["", "-", "+"]) if False else r.choice(["", "-"]), r.choice(["", "-"]), r.choice(["v", "'q'", "1"]), None))
        elif c < 0.8:
            sk.append(("block", r.choice(["", "-", "+"]), r.choice(["", "-", "+"]), "set z = 1"))
        elif c < 0.9:
            sk.append(("comment", r.choice(["", "-", "+"]), r.choice(["", "-", "+"]), r.choice([" ", " c ", "\n c\n", " {{ x }} ", " {% if %} ", " a- ", " +b ", "\t", " \n"])))
        else:
            sk.append(("raw", r.choice(["", "-", "+"]), r.choice(["", "-"]), r.choice(["", " r ", "\n r \n", "\n  ", "  \n", "{{ x }}", "{% if %}", "{# c #}", " {%", "\r\n x \r"]), r.choice(["", "-", "+"]), r.choice(["", "-", "+"])))
    # fix var values
    vals = {"v": "V", "'q'": "q", "1": "1"}
    sk = [(s[0], s[1], s[2], s[3], vals[s[3]]) if s[0] == "var" else s for s in sk]
    # avoid text ending in '{' directly before a tag or comment body starting with chars that break: keep simple
    fixed = []
    for j, s in enumerate(sk):
        if s[0] == "text" and s[1].endswith("{") : s = ("text", s[1] + "_")
        fixed.append(s)
    return fixed
